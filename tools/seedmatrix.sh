#!/bin/bash
# usage: seedmatrix.sh [seed-name-glob] : runs each seed against its own property's quick check, 2 at a time
cd /verif
pat=${1:-*}
ls -d seeded/$pat | sed 's|seeded/||' | xargs -P 2 -I{} env VERIF_JOBS=8 tools/seedtest.sh {} | tee -a /tmp/seedmatrix.txt
