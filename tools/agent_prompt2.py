#!/usr/bin/env python3
import sys, json, glob
pid = sys.argv[1]
prop = open(f'/tmp/wt/{pid}.prop.txt').read()
prev = []
R3 = '--round3' in sys.argv
for d in sorted(glob.glob(f'/verif/seeded/{pid}-[mn]*/meta.json' if R3 else f'/verif/seeded/{pid}-m*/meta.json')):
    m = json.load(open(d))
    prev.append("- " + (m.get("summary") or "")[:400])
base = open('/verif/tools/agent_prompt.py').read()
import subprocess
txt = subprocess.run([sys.executable, '/verif/tools/agent_prompt.py', pid], capture_output=True, text=True).stdout
txt = txt.replace("Your job: produce TWO different, independent, realistic source changes",
  "Other people already produced seeded bugs for this property using these mechanisms; yours must use DIFFERENT mechanisms / code locations / triggering conditions:\n" + "\n".join(prev) +
  "\n\nNote: the repository HEAD in your worktree already contains a number of small upstream 'fix:' commits (git log shows them); work on top of them.\n\nYour job: produce TWO different, independent, realistic source changes")
txt = txt.replace("m<k>", "p<k>" if R3 else "n<k>").replace("_out/", "_out3/" if R3 else "_out2/")
print(txt)
