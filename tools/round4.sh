#!/bin/bash
# usage: round4.sh <ID>   -- confirm and import the round-4 seeds of one property, then run its quick check against each
cd /verif
python3 tools/import_seed.py $1 --round4 2>&1 | cut -c1-400
for k in 1 2; do
  [ -d seeded/$1-q$k ] && tools/seedtest.sh $1-q$k
done
