#!/bin/bash
# usage: runall.sh quick|thorough [ids...] : runs checks sequentially, prints one line each
tier=${1:-quick}; shift
ids=${@:-$(python3 -c "import json;print(' '.join(c['property_id'] for c in json.load(open('/verif/MANIFEST.json'))['checks']))")}
for p in $ids; do
  s=$(date +%s)
  ./vf check $p $tier > /tmp/runall.$p.$tier.log 2>&1; rc=$?
  e=$(date +%s)
  echo "$p $tier rc=$rc wall=$((e-s))s $(grep -E '^\[' /tmp/runall.$p.$tier.log | cut -c1-170)"
done
