#!/usr/bin/env python3
"""Prints the per-check numbers table (markdown) from the evidence files of the last run."""
import json, glob, os
ROOT = os.path.dirname(os.path.dirname(os.path.abspath(__file__)))
print("| id | tier | conditions | confirmed | inconclusive | paths | SMT queries | solver (s) | wall (s) |")
print("|---|---|---|---|---|---|---|---|---|")
for f in sorted(glob.glob(os.path.join(ROOT, "evidence", "C*.json"))):
    d = json.load(open(f))
    c = d["coverage"]
    v = c.get("verdicts", {})
    print(f"| {d['property_id']} | {d.get('tier')} | {c.get('obligations')} | {c.get('discharged')} | {len(c.get('inconclusive_conditions') or [])} | {c.get('states')} | {c.get('transitions')} | {c.get('solver_time_s')} | {d.get('wall_s')} |")
