#!/usr/bin/env python3
"""Regenerates MANIFEST.json from the table below + the harness modules present."""
import json, os, sys
ROOT = os.path.dirname(os.path.dirname(os.path.abspath(__file__)))
sys.path.insert(0, ROOT)
from tools.proptable import TABLE, NOT_APPLICABLE  # noqa

import glob
for f in glob.glob(os.path.join(ROOT, "tools", "proptable.d", "*.json")):
    pid_ = os.path.basename(f)[:-5]
    try:
        TABLE.setdefault(pid_, json.load(open(f)))
    except Exception as e:
        print("bad proptable entry", f, e)
props = [json.loads(l)["id"] for l in open(os.path.join(ROOT, "properties.jsonl"))]
checks = []
na = []
for pid in props:
    have = os.path.exists(os.path.join(ROOT, "vfw", "harness", pid + ".py"))
    if pid in TABLE and have:
        e = TABLE[pid]
        checks.append({
            "property_id": pid,
            "quick_cmd": f"./vf check {pid} quick",
            "thorough_cmd": f"./vf check {pid} thorough",
            "evidence_file": f"/verif/evidence/{pid}.json",
            "replay_cmd_template": "./vf replay {path}",
            "engine": e.get("engine", "E1 CrossHair/z3 symbolic execution of the real jinja2 functions"),
            "level_claimed": {"category": e.get("category", "model_checking"), "text": e["text"],
                              "design_ref": f"DESIGN.md section 2, {pid}"},
            "level_note": e["note"],
            "technique": e["technique"],
        })
    else:
        na.append({"property_id": pid, "reason": NOT_APPLICABLE.get(pid, "check not built yet in this session; not claimed")})
m = {
    "version": 1,
    "setup_cmd": "./setup.sh",
    "hooks": {"guard": "PALLETS_JINJA_VERIF", "enable": "no source hooks: all instrumentation is applied at run time inside the harness process (monkeypatching / AST instrumentation of the current tree)",
              "baseline_off_cmd": "cd /repo && /venv/bin/python -m pytest -q -p no:cacheprovider --timeout=900",
              "source_commits": [], "add_only": True},
    "engines": [
        {"name": "E1", "path": "vfw/worker.py", "kind_free_text": "CrossHair 0.0.110 + z3 5.1: per-path symbolic execution of the real Python code; modes A (generalising), B (finite selectors, exhaustion certified by the solver), S (search only)", "serves_properties": [c["property_id"] for c in checks]},
        {"name": "E2", "path": "vfw/rx.py", "kind_free_text": "live re.Pattern objects of jinja2.lexer translated to z3 regular-expression terms; language inclusion/emptiness queries", "serves_properties": ["C01", "C11", "C12", "C13", "C14", "C39"]},
    ],
    "checks": checks,
    "not_applicable": na,
    "notes": "All checks: exit 0 = held on everything explored inside the stated bounds, 1 = VIOLATION (solver counterexample replayed natively), 2 = the check itself is broken (vacuous/failed condition). Bounds, stubs and inconclusive conditions are listed in each evidence file.",
}
json.dump(m, open(os.path.join(ROOT, "MANIFEST.json"), "w"), indent=1)
print("checks:", len(checks), "not_applicable:", len(na))
