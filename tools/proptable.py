TABLE = {
 "C26": dict(
  text="Bounded symbolic execution (CrossHair/z3) of the real LRUCache methods: one inductive step from an arbitrary valid state for each of 14 operations (capacity 1-3, any insertion order of distinct keys 0-3, unbounded integer values), copy/pickle/deepcopy round trips, and all histories of <=2 (quick) / <=4 (thorough) operations from empty, each compared with a reference LRU map. Confirmed = the whole path tree was exhausted by the solver.",
  note="Trusted: CrossHair's model of dict/deque/list, z3. Keys are small ints (enumerated through hashing); OS-thread interleavings at bytecode granularity are outside the claim.",
  technique="symbolic execution (CrossHair/z3), one-step induction over arbitrary valid states + bounded histories vs reference model"),
}
NOT_APPLICABLE = {
 "C31": "Not applicable to solver-based checking: compile_templates/ModuleLoader are file-system, zip and import-system effects with no symbolic input to vary; the property quantifies over template sets, not data (DESIGN.md section 5).",
}
