TABLE = {
 "C26": dict(
  text="Bounded symbolic execution (CrossHair/z3) of the real LRUCache methods: one inductive step from an arbitrary valid state for each of 14 operations (capacity 1-3, any insertion order of distinct keys 0-3, unbounded integer values), copy/pickle/deepcopy round trips, and all histories of <=2 (quick) / <=4 (thorough) operations from empty, each compared with a reference LRU map. Confirmed = the whole path tree was exhausted by the solver.",
  note="Trusted: CrossHair's model of dict/deque/list, z3. Keys are small ints (enumerated through hashing); OS-thread interleavings at bytecode granularity are outside the claim.",
  technique="symbolic execution (CrossHair/z3), one-step induction over arbitrary valid states + bounded histories vs reference model"),
 "C07": dict(
  text="Bounded symbolic execution of compiled for-loop templates (real code generator output + LoopContext/AsyncLoopContext): symbolic item list (<=2 quick / <=3 thorough ints of any value), symbolic loop-filter threshold and a symbolic schedule choosing, per iteration, which look-ahead/length attribute is read first, followed by a fixed second query and all position attributes; list/tuple/iterator/generator/async-generator inputs, sync and async, plus recursive loops over symbolic tree shapes. All observations compared with the documented values.",
  note="Trusted: CrossHair models, z3; templates are compiled natively (only rendering is symbolic). Longer iterables and richer query patterns are outside the bound.",
  technique="symbolic execution (CrossHair/z3) of generated loop code and LoopContext with symbolic data and query schedule vs reference model"),
 "C06": dict(
  text="Bounded symbolic execution of real Macro objects compiled from 104 signatures (0-3 parameters, constant/earlier-parameter/outer-variable defaults, varargs/kwargs/caller usage): symbolic number of positional arguments (0-5), symbolic presence of every keyword (parameters, unknown name, caller) and symbolic int values, called from Python through Template.module, from templates via *args/**kwargs and through call blocks, sync and async; plus solver-enumerated explicit call syntaxes (incl. reserved-word keywords). Oracle: the binding rules of the property statement.",
  note="Trusted: CrossHair models, z3. Signatures with more than 3 parameters and non-int argument values are outside the bound.",
  technique="symbolic execution (CrossHair/z3) of Macro.__call__ and generated macro code over symbolic call shapes vs executable binding spec"),
 "C22": dict(
  text="Bounded symbolic execution of 37 collection-filter templates (sync and async variants, list/generator/async-generator inputs): symbolic int lists (<=3 quick / <=4 thorough), lists of dicts built from symbolic ints, symbolic counts/fill values/flags, and solver-enumerated strings from a mixed-case table for case handling; results compared with the Python definitions, inputs compared with deep copies.",
  note="Trusted: CrossHair models, z3, Python's sorted/min/max/sum as reference. Longer sequences and other element types are outside the bound.",
  technique="symbolic execution (CrossHair/z3) of filter code through compiled templates vs Python reference definitions"),
 "C23": dict(
  text="Bounded symbolic execution of the string/number filters through compiled templates: genuinely symbolic strings (<=5 quick / <=7 thorough) and integers for truncate (explicit and policy leeway), center, trim, replace, int, float (with a float()-overflow boundary stub); solver-enumerated strings over small alphabets (exhaustion certified) for indent, wordcount, upper/lower/capitalize/title, wordwrap, striptags, urlencode, plus tables of numeric spellings/special values (inf, nan, 10**400, containers), unit boundaries for filesizeformat, round and format call shapes. Oracles are the documented contracts.",
  note="Trusted: CrossHair models, z3, the float() overflow stub (counterexamples replayed natively). Floating-point rounding of mantissas and strings outside the stated alphabets/lengths are outside the bound.",
  technique="symbolic execution (CrossHair/z3) of filter code on symbolic str/int + solver-exhausted selector strings vs contract oracles"),
 "C14": dict(
  text="E2: the live integer_re/float_re objects are translated to z3 regular expressions and language inclusion in Python's literal grammar is decided for all strings <= 64 chars (so int(v,0)/literal_eval cannot disagree with or reject a spelling read as one number). E1 mode B: int literals in 4 bases, float literals (integer/fraction/exponent parts, signs, underscores in every gap) and string literals assembled from a 20-entry table of characters and escape sequences (incl. adjacent literals, both quotes) are enumerated by the solver and pushed through the real lexer/parser/compiler; the oracle is Python's own evaluation of the same spelling; repr() round trips of a value table.",
  note="Trusted: regex->z3 translation (validated against re on witnesses), z3, Python's literal_eval as reference. The unicode-escape codec is C code: only its result on the enumerated literals is checked. Known finding: backslash followed by a non-ASCII character.",
  technique="regex-to-SMT language inclusion (z3) + solver-exhausted literal spellings through the real lexer vs Python's evaluation",
  engine="E2 rx->SMT + E1 CrossHair/z3"),
 "C28": dict(
  text="Bounded symbolic execution: split_template_path on symbolic names (search) and on all names <= 5 chars over the alphabet ./\\a: (selector-decoded, exhausted); FileSystemLoader (single and multiple search paths), PackageLoader, ChoiceLoader and PrefixLoader on a scratch tree with a sentinel outside the search path, names of 1-3 segments from a 12-entry fragment table (parent refs, dots, empties, backslash, directories shadowing files), opened files recorded through an audit hook and compared with a reference resolver; choice/prefix resolution order over a symbolic 3x2 presence matrix.",
  note="Trusted: CrossHair, z3, os.path as reference. Symlinks, Windows separators and zip packages are outside the bound.",
  technique="symbolic execution (CrossHair/z3) with solver-exhausted name selectors against real loaders + audit hook"),
 "C12": dict(
  text="E2: the live end-of-tag rules (block/variable/comment/raw end) of Lexer(env).rules are translated to z3 and shown language-equal to the documented grammar for both trim_blocks settings and several delimiter sets (all strings <= 40 chars). E1 mode B: cases pre-A-T-B-post (6 left-tag kinds x 3 signs x 14 whitespace/text runs x 6 right-tag kinds x 3 signs, all four trim/lstrip settings) are enumerated by the solver and pushed through the real lexer/parser/compiler; rendered output, raw-token concatenation, dropped whitespace and token line numbers must equal a reference trimming model transcribed from the documentation.",
  note="Trusted: the reference model in vfw/wsmodel.py (documentation transcription), regex->z3 translation, z3, CrossHair path exhaustion. Effects are local to one text run and its two neighbouring tags; longer templates are outside the bound.",
  technique="regex-to-SMT language equality (z3) + solver-exhausted whitespace-control cases through the real pipeline vs documented-rule model",
  engine="E2 rx->SMT + E1 CrossHair/z3"),
 "C39": dict(
  text="Solver-exhausted (mode B) sources: the C12 case family and 1-2 (3 thorough) pieces from a 16-entry table of multi-line constructs (expressions/comments/raw/set blocks spanning lines, CR/LF/CRLF, strip markers) and a 10-entry table of line statements/comments, in trim/lstrip and keep_trailing_newline variants; Environment.lex output is checked with a model-free oracle (tokens in order, only whitespace missing and only before a tag that strips it, each token's line = 1 + line breaks before its start) and against the C12 model (exact dropped whitespace); wrapped token stream line numbers agree.",
  note="Trusted: wsmodel.check_tokens oracle, CrossHair path exhaustion, z3. Sources outside the piece tables are outside the bound.",
  technique="solver-exhausted source skeletons through the real lexer vs model-free position oracle + documented-rule model"),
 "C11": dict(
  text="E2: newline_re is language-equal to {CRLF, CR, LF}; any string on which the live root directive rule can match contains a configured start delimiter or line prefix (3 delimiter sets, with/without line prefixes, strings <= 30). E1 mode B: delimiter-free sources of <= 3 (4) pieces from an 11-entry character table (partial delimiter characters, all line-break forms, non-ASCII) in all newline_sequence x keep_trailing_newline configurations and under every kind of finalize hook; comment and raw bodies of delimiter look-alikes with 3 tails, 2 delimiter sets, trim/lstrip on/off.",
  note="Trusted: regex->z3 translation, z3, CrossHair path exhaustion. Free-form Unicode text through tokeniter is outside the bound (only the table's pieces).",
  technique="regex-to-SMT (z3) lemmas on the live rule table + solver-exhausted plain-text/comment/raw sources through the real pipeline",
  engine="E2 rx->SMT + E1 CrossHair/z3"),
 "C13": dict(
  text="Mode B, solver-exhausted selectors with native runs: the C12 case family under alternative delimiter sets (incl. shared-prefix ASP-like ones); for each of the 12 lexer cache-key options an environment differing in exactly that option, built as Environment / overlay / Template(), before or after the base was used, both orders, 2 base configurations - every render equals the same configuration rendered in isolation after clear_caches; whole-line block tags rewritten as line statements in a trimming+left-stripping environment (programs of <= 3 (4) lines).",
  note="Trusted: CrossHair path exhaustion, z3, isolated renders as reference. Two known findings (blank lines after line statements; line comments keep their newline) are excluded and reported as KNOWN-FINDING.",
  technique="solver-exhausted configuration/selectors with native differential runs against isolated-configuration reference"),
}
NOT_APPLICABLE = {
 "C31": "Not applicable to solver-based checking: compile_templates/ModuleLoader are file-system, zip and import-system effects with no symbolic input to vary; the property quantifies over template sets, not data (DESIGN.md section 5).",
}
