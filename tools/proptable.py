TABLE = {
 "C26": dict(
  text="Bounded symbolic execution (CrossHair/z3) of the real LRUCache methods: one inductive step from an arbitrary valid state for each of 14 operations (capacity 1-3, any insertion order of distinct keys 0-3, unbounded integer values), copy/pickle/deepcopy round trips, and all histories of <=2 (quick) / <=4 (thorough) operations from empty, each compared with a reference LRU map. Confirmed = the whole path tree was exhausted by the solver.",
  note="Trusted: CrossHair's model of dict/deque/list, z3. Keys are small ints (enumerated through hashing); OS-thread interleavings at bytecode granularity are outside the claim.",
  technique="symbolic execution (CrossHair/z3), one-step induction over arbitrary valid states + bounded histories vs reference model"),
 "C07": dict(
  text="Bounded symbolic execution of compiled for-loop templates (real code generator output + LoopContext/AsyncLoopContext): symbolic item list (<=2 quick / <=3 thorough ints of any value), symbolic loop-filter threshold and a symbolic schedule choosing, per iteration, which look-ahead/length attribute is read first, followed by a fixed second query and all position attributes; list/tuple/iterator/generator/async-generator inputs, sync and async, plus recursive loops over symbolic tree shapes. All observations compared with the documented values.",
  note="Trusted: CrossHair models, z3; templates are compiled natively (only rendering is symbolic). Longer iterables and richer query patterns are outside the bound.",
  technique="symbolic execution (CrossHair/z3) of generated loop code and LoopContext with symbolic data and query schedule vs reference model"),
 "C06": dict(
  text="Bounded symbolic execution of real Macro objects compiled from 104 signatures (0-3 parameters, constant/earlier-parameter/outer-variable defaults, varargs/kwargs/caller usage): symbolic number of positional arguments (0-5), symbolic presence of every keyword (parameters, unknown name, caller) and symbolic int values, called from Python through Template.module, from templates via *args/**kwargs and through call blocks, sync and async; plus solver-enumerated explicit call syntaxes (incl. reserved-word keywords). Oracle: the binding rules of the property statement.",
  note="Trusted: CrossHair models, z3. Signatures with more than 3 parameters and non-int argument values are outside the bound.",
  technique="symbolic execution (CrossHair/z3) of Macro.__call__ and generated macro code over symbolic call shapes vs executable binding spec"),
 "C22": dict(
  text="Bounded symbolic execution of 37 collection-filter templates (sync and async variants, list/generator/async-generator inputs): symbolic int lists (<=3 quick / <=4 thorough), lists of dicts built from symbolic ints, symbolic counts/fill values/flags, and solver-enumerated strings from a mixed-case table for case handling; results compared with the Python definitions, inputs compared with deep copies.",
  note="Trusted: CrossHair models, z3, Python's sorted/min/max/sum as reference. Longer sequences and other element types are outside the bound.",
  technique="symbolic execution (CrossHair/z3) of filter code through compiled templates vs Python reference definitions"),
 "C23": dict(
  text="Bounded symbolic execution of the string/number filters through compiled templates: genuinely symbolic strings (<=5 quick / <=7 thorough) and integers for truncate (explicit and policy leeway), center, trim, replace, int, float (with a float()-overflow boundary stub); solver-enumerated strings over small alphabets (exhaustion certified) for indent, wordcount, upper/lower/capitalize/title, wordwrap, striptags, urlencode, plus tables of numeric spellings/special values (inf, nan, 10**400, containers), unit boundaries for filesizeformat, round and format call shapes. Oracles are the documented contracts.",
  note="Trusted: CrossHair models, z3, the float() overflow stub (counterexamples replayed natively). Floating-point rounding of mantissas and strings outside the stated alphabets/lengths are outside the bound.",
  technique="symbolic execution (CrossHair/z3) of filter code on symbolic str/int + solver-exhausted selector strings vs contract oracles"),
}
NOT_APPLICABLE = {
 "C31": "Not applicable to solver-based checking: compile_templates/ModuleLoader are file-system, zip and import-system effects with no symbolic input to vary; the property quantifies over template sets, not data (DESIGN.md section 5).",
}
