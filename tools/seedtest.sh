#!/bin/bash
# usage: seedtest.sh <seed-dir-name> [property] [tier]
# Applies the seeded change in a private scratch worktree of /repo (never /repo itself), runs the check
# against it (VERIF_REPO_SRC), removes the worktree.  Safe to run concurrently.
cd /verif
d=seeded/$1
pid=${2:-$(python3 -c "import json;print(json.load(open('$d/meta.json'))['property'])")}
tier=${3:-quick}
wt=$(mktemp -d /tmp/seedwt.XXXXXX)
rmdir $wt
git -C /repo worktree add -q --detach $wt HEAD || exit 9
git -C $wt apply $PWD/$d/patch.diff 2>/dev/null || git -C $wt apply --3way $PWD/$d/patch.diff 2>/dev/null || { git -C /repo worktree remove --force $wt; echo "$1: patch does not apply"; exit 9; }
ev=$(mktemp -d /tmp/seedev.XXXXXX)
VERIF_REPO_SRC=$wt/src VERIF_EVIDENCE_DIR=$ev ./vf check $pid $tier > /tmp/seedtest.$1.$pid.log 2>&1
rc=$?
git -C /repo worktree remove --force $wt
rm -rf $ev
echo "$1 $pid $tier exit=$rc $(grep -c '^VIOLATION' /tmp/seedtest.$1.$pid.log) violation(s)"
exit 0
