#!/bin/bash
# usage: seedtest.sh <seed-dir-name> [property] [tier]  — applies the seeded change to /repo, runs the check, reverts.
cd /verif
d=seeded/$1
pid=${2:-$(python3 -c "import json;print(json.load(open('$d/meta.json'))['property'])")}
tier=${3:-quick}
git -C /repo apply $PWD/$d/patch.diff || exit 9
./vf check $pid $tier > /tmp/seedtest.$1.$pid.log 2>&1
rc=$?
git -C /repo checkout -- .
echo "$1 $pid $tier exit=$rc $(grep -c '^VIOLATION' /tmp/seedtest.$1.$pid.log) violation(s)"
git checkout -q -- evidence 2>/dev/null
exit 0
