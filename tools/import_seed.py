#!/usr/bin/env python3
"""Confirm a sub-agent's seeded change in its scratch worktree, then keep it under /verif/seeded/.

usage: import_seed.py C07 [--keep-wt]
For each /tmp/wt/<id>/_out/m<k>.diff: clean tree -> demo passes; apply -> full suite passes (911) and
demo fails; revert.  Only then copy to /verif/seeded/<id>-m<k>/.
"""
import json, os, shutil, subprocess, sys

pid = sys.argv[1]
wt = f"/tmp/wt/{pid}"
ROUND2 = "--round2" in sys.argv
ROUND3 = "--round3" in sys.argv
ROUND4 = "--round4" in sys.argv
out = f"{wt}/_out4" if ROUND4 else f"{wt}/_out3" if ROUND3 else (f"{wt}/_out2" if ROUND2 else f"{wt}/_out")
PFX = "q" if ROUND4 else "p" if ROUND3 else ("n" if ROUND2 else "m")
env = dict(os.environ, PYTHONPATH=f"{wt}/src", PYTHONDONTWRITEBYTECODE="1")
PY = "/venv/bin/python"


def sh(cmd, **kw):
    return subprocess.run(cmd, shell=True, cwd=wt, env=env, capture_output=True, text=True, **kw)


def demo(path):
    r = sh(f"{PY} {path}", timeout=300)
    return r.returncode, (r.stdout + r.stderr)[-600:]


sh("git checkout -- src")
for k in (1, 2, 3):
    d = f"{out}/{PFX}{k}.diff"
    if not os.path.exists(d):
        continue
    ran = []
    rc0, o0 = demo(f"{out}/{PFX}{k}_demo.py")
    ran.append(f"demo on clean tree: exit {rc0}")
    a = sh(f"git apply {d}")
    if a.returncode != 0:
        print(pid, k, "REJECT: does not apply", a.stderr[:300]); continue
    changed = sh("git diff --stat").stdout.strip().splitlines()
    t = sh(f"{PY} -m pytest -q -p no:cacheprovider -x 2>&1 | tail -1", timeout=900)
    ran.append("suite with change: " + t.stdout.strip())
    rc1, o1 = demo(f"{out}/{PFX}{k}_demo.py")
    ran.append(f"demo with change: exit {rc1}")
    sh("git checkout -- src")
    ok = rc0 == 0 and rc1 != 0 and "911 passed" in t.stdout
    print(pid, k, "OK" if ok else "REJECT", ran, "\n   ", o1.strip().splitlines()[-1:] if o1.strip() else "")
    if not ok:
        continue
    dst = f"/verif/seeded/{pid}-{PFX}{k}"
    os.makedirs(dst, exist_ok=True)
    shutil.copy(d, f"{dst}/patch.diff")
    shutil.copy(f"{out}/{PFX}{k}_demo.py", f"{dst}/demo.py")
    try:
        meta = json.load(open(f"{out}/{PFX}{k}_meta.json"))
    except Exception:
        meta = {}
    meta.update(property=pid, confirmed=ran, detected_by=None)
    json.dump(meta, open(f"{dst}/meta.json", "w"), indent=1)
if "--keep-wt" not in sys.argv:
    subprocess.run(f"git -C /repo worktree remove --force {wt}; rm -f /tmp/wt/{pid}.prop.txt /tmp/wt/{pid}.prompt.txt", shell=True)
