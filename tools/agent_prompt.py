#!/usr/bin/env python3
import sys
pid = sys.argv[1]
prop = open(f'/tmp/wt/{pid}.prop.txt').read()
print(f"""You are helping to evaluate a verification effort for the Python template engine pallets/jinja (jinja2 3.2.0.dev0). You have your own scratch git worktree of the repository at /tmp/wt/{pid} (work ONLY there; never touch /repo or /verif, and do not read anything under /verif).

Here is a semantic property of jinja that is supposed to hold for every input:

---
{prop}---

Your job: produce TWO different, independent, realistic source changes ("seeded bugs") to the library code under /tmp/wt/{pid}/src/jinja2 that each BREAK this property, while the code still imports/compiles and the ENTIRE existing test suite still passes. Each change should look like a plausible maintainer mistake or refactor (a few lines), not sabotage. Prefer changes that need something specific to manifest — an unusual input, a boundary value, a particular sequence of operations, a particular interleaving/fault point, or two cooperating sites that each look fine alone — rather than ones that ordinary use would expose at once. The two changes should affect different mechanisms/code locations behind the property if possible.

How to run things (the /venv interpreter has jinja2 installed pointing at /repo, so you MUST set PYTHONPATH to test your worktree):
  cd /tmp/wt/{pid} && PYTHONPATH=/tmp/wt/{pid}/src /venv/bin/python -m pytest -q -p no:cacheprovider -x        # whole suite, ~3 s, must print '911 passed'
  cd /tmp/wt/{pid} && PYTHONPATH=/tmp/wt/{pid}/src /venv/bin/python demo.py
There is no network.

For each change k in (1, 2) deliver, in the directory /tmp/wt/{pid}/_out/ :
  m<k>.diff      — `git diff` of ONLY that change against the unmodified worktree (src/jinja2 files only; apply-able with `git apply` from the repo root)
  m<k>_demo.py   — a small standalone program that uses only the public jinja2 API, exits 0 and prints PASS on the unmodified code, and exits 1 and prints FAIL (with what was observed vs expected) when the change is applied; it must demonstrate a violation of the property statement above (not some other behaviour)
  m<k>_meta.json — {{"property": "{pid}", "summary": "...what the change does...", "needs": "...what specific input/sequence/condition is needed for it to manifest...", "files": [...]}}
Make each diff separately from a clean tree (use `git checkout -- src` between them; do NOT use `git stash`, the stash is shared with other worktrees), and verify for EACH one yourself: (a) with the change applied, the full test suite prints 911 passed; (b) the demo FAILS with the change and PASSES without it. Leave the worktree's src/ clean (no modifications) when you finish. In your final message, list for each change: the one-line summary, what is needed to trigger it, and confirmation of (a) and (b).""")
