#!/bin/bash
# usage: mkwt.sh C07 ... : creates scratch worktrees /tmp/wt/<id> and writes the property text to /tmp/wt/<id>.prop.txt
for id in "$@"; do
  git -C /repo worktree add -q --detach /tmp/wt/$id HEAD
  python3 - "$id" <<'PY'
import json,sys
pid=sys.argv[1]
for l in open('/verif/properties.jsonl'):
    p=json.loads(l)
    if p['id']==pid:
        open(f'/tmp/wt/{pid}.prop.txt','w').write(f"{p['title']}\n\n{p['statement']}\n\nCode the property is anchored in: {', '.join(p['anchors']['files'])}\n")
PY
done
