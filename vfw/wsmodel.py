"""Reference model of Jinja's documented whitespace control, used by C11/C12/C13/C39.

A *case* is ``pre + A + T + B + post`` where A and B are tags (or the template
start / end) and T is a text run.  The model computes, from the documentation's
rules only, what T contributes to the output and which part of T disappears
from the raw token stream.

Documented rules (templates.rst "Whitespace Control", api.rst trim_blocks /
lstrip_blocks / keep_trailing_newline / newline_sequence):
* ``-`` on the side of a tag facing T removes all whitespace of T on that side;
* trim_blocks removes the first newline after a block, comment or endraw tag
  (not after a variable tag, not after ``{% raw %}``: the raw body is verbatim);
* lstrip_blocks removes whitespace between the start of a line and a block,
  comment, raw or endraw tag when nothing else precedes the tag on that line;
* ``+`` disables the respective automatic behaviour;
* variable tags are never affected by the automatic options.
"""

DEFAULT = dict(bs="{%", be="%}", vs="{{", ve="}}", cs="{#", ce="#}")
DELIMS = [
    DEFAULT,
    dict(bs="<%", be="%>", vs="${", ve="}", cs="<!--", ce="-->"),
    dict(bs="<%", be="%>", vs="<%=", ve="%>", cs="<%#", ce="%>"),
    dict(bs="[[", be="]]", vs="((", ve="))", cs="[#", ce="#]"),
    dict(bs="{%", be="%}", vs="{{", ve="}}", cs="{#", ce="*}"),
]

TEXTS = ["", " ", "\n", " \n", "\n ", "  ", "\n\n", "\t", "\r\n", " x ", "x\n ", " \n x", "\r", " \r\n  "]
# tag kinds for the left (A) and right (B) position
A_KINDS = ["start", "set", "comment", "var", "endraw", "rawbegin"]
B_KINDS = ["set", "comment", "var", "rawbegin", "endraw", "end"]
SIGNS = ["", "-", "+"]


def norm(s):
    return s.replace("\r\n", "\n").replace("\r", "\n")


def tag_src(kind, ls, rs, d):
    if kind == "set":
        return f"{d['bs']}{ls} set q = 1 {rs}{d['be']}"
    if kind == "comment":
        return f"{d['cs']}{ls} c {rs}{d['ce']}"
    if kind == "var":
        return f"{d['vs']}{ls} 'V' {rs}{d['ve']}"
    if kind == "rawbegin":
        return f"{d['bs']}{ls} raw {rs}{d['be']}"
    if kind == "endraw":
        return f"{d['bs']}{ls} endraw {rs}{d['be']}"
    raise AssertionError(kind)


def valid_signs(kind, side, sign):
    """Is `sign` documented on this side of this tag kind?"""
    if kind == "var":
        return sign in ("", "-")
    if kind == "rawbegin" and side == "r":
        return sign in ("", "-")
    return True


def build(akind, ars, t, bkind, bls, d):
    """Return (source, expected_output, expected_token_concat) for one case.

    akind/ars: left tag kind and its right-hand sign; bkind/bls: right tag kind and its left-hand sign.
    """
    pre, post = "", ""
    a_out, b_out = "", ""
    # left context
    if akind == "start":
        a = ""
    elif akind == "endraw":
        pre = "a" + tag_src("rawbegin", "", "", d) + "x"
        a = tag_src("endraw", "", ars, d)
        a_out = "ax"
    elif akind == "rawbegin":
        pre = "a"
        a = tag_src("rawbegin", "", ars, d)
        a_out = "a"
    else:
        pre = "a"
        a = tag_src(akind, "", ars, d)
        a_out = "a" + ("V" if akind == "var" else "")
    # right context
    if bkind == "end":
        b = ""
    elif bkind == "rawbegin":
        b = tag_src("rawbegin", bls, "", d)
        post = "y" + tag_src("endraw", "", "", d) + "b"
        b_out = "yb"
    elif bkind == "endraw":
        b = tag_src("endraw", bls, "", d)
        post = "b"
        b_out = "b"
    else:
        b = tag_src(bkind, bls, "", d)
        post = "b"
        b_out = ("V" if bkind == "var" else "") + "b"
    return pre, a, a_out, b, post, b_out


def trim(t, akind, ars, bkind, bls, trim_blocks, lstrip_blocks):
    """-> (consumed_by_A, kept, dropped_by_B) with consumed + kept + dropped == norm(t)."""
    t = norm(t)
    # ---- left side: what the tag before T takes away
    consumed = ""
    if akind != "start":
        if ars == "-":
            consumed = t[: len(t) - len(t.lstrip())]
        elif ars != "+" and trim_blocks and akind in ("set", "comment", "endraw"):
            if t.startswith("\n"):
                consumed = "\n"
    rest = t[len(consumed):]
    at_line_start = akind == "start" or consumed.endswith("\n")
    # ---- right side: what the tag after T takes away
    dropped = ""
    if bkind != "end":
        if bls == "-":
            dropped = rest[len(rest.rstrip()):]
        elif bls != "+" and lstrip_blocks and bkind in ("set", "comment", "rawbegin", "endraw"):
            i = rest.rfind("\n") + 1
            tail = rest[i:]
            if (i > 0 or at_line_start) and tail != "" and tail.strip() == "":
                dropped = tail
    kept = rest[: len(rest) - len(dropped)]
    return consumed, kept, dropped


def expected(akind, ars, t, bkind, bls, d, trim_blocks, lstrip_blocks, newline_sequence="\n", keep_trailing_newline=False):
    pre, a, a_out, b, post, b_out = build(akind, ars, t, bkind, bls, d)
    source = pre + a + t + b + post
    tt = t
    if bkind == "end" and not keep_trailing_newline:
        # a single trailing line break of the template is removed before lexing
        n = norm(source)
        if n.endswith("\n"):
            tt = norm(t)[:-1] if norm(t).endswith("\n") else t
    consumed, kept, dropped = trim(tt, akind, ars, bkind, bls, trim_blocks, lstrip_blocks)
    out = a_out + kept.replace("\n", newline_sequence) + b_out
    concat = norm(pre) + a + consumed + kept + b + norm(post)
    return source, out, concat, dropped


def check_tokens(source, tokens, keep_trailing_newline=False):
    """Generic lossless / line-accuracy check of a raw token stream against its source.

    Returns (ok, total_gap_text).  Tokens must appear in order; between the end of one token and the
    start of the next only whitespace may be missing, and only directly before a *_begin token;
    every token's line number is 1 + the number of line breaks before its start.
    """
    src = norm(source)
    if not keep_trailing_newline and src.endswith("\n"):
        src = src[:-1]
    cur = 0
    gaps = []
    for lineno, kind, value in tokens:
        if value == "":
            if lineno != 1 + src[:cur].count("\n"):
                return False, None
            continue
        idx = src.find(value, cur)
        if idx < 0:
            return False, None
        gap = src[cur:idx]
        if gap:
            if gap.strip() != "" or not (kind.endswith("_begin") or kind == "raw_end"):
                return False, None
            gaps.append(gap)
        if lineno != 1 + src[:idx].count("\n"):
            return False, None
        cur = idx + len(value)
    if src[cur:] != "":
        return False, None
    return True, "".join(gaps)
