"""C09 — async mode renders exactly what sync mode renders.

(1) Mode A: generated statement programs (the C03 grammar, vfw/tmodel.py) compiled in a sync and an async
    environment of each class (Environment, SandboxedEnvironment, ImmutableSandboxedEnvironment,
    NativeEnvironment); symbolic branch bools / loop lists / values; ``render`` (sync) must equal driven
    ``render_async`` and the concatenation of driven ``generate_async`` (text, recorded values, error class).
(2) Mode A: data replaced by coroutine functions and async iterables producing the same results (calls,
    for-loops with loop attributes read in a symbolic order, loop filters, async-aware filters).
(3) Mode B: the public entry points on an async environment that need a real event loop (``render``,
    ``generate``, ``asyncio.run(render_async)``) against the sync environment, on concrete data rows.
"""
import asyncio
from typing import List

from jinja2 import Environment
from jinja2.nativetypes import NativeEnvironment
from jinja2.runtime import Macro as JMacro, Undefined
from jinja2.sandbox import ImmutableSandboxedEnvironment, SandboxedEnvironment
from jinja2.utils import Namespace
from vfw import tmodel as M
from vfw.core import Cond, pick
from vfw.harness import C03
from vfw.support import NoTracing, Rec, agen_of, drive, drive_agen

FUNCTIONS = ["jinja2.compiler (choose_async, async for / await auto_await code generation)", "jinja2.async_utils (async_variant, auto_await, auto_aiter, auto_to_list)",
             "jinja2.runtime.AsyncLoopContext / Macro._async_invoke / BlockReference._async_call", "jinja2.filters async variants",
             "Template.render / render_async / generate / generate_async", "NativeTemplate.render / render_async"]
OUTSIDE = ["real event-loop scheduling (see C36/C37)", "async iterables passed to filters that have no async variant (sort, min, max, batch, reverse, ...): known finding",
           "programs outside the generated family"]
ASSUMPTIONS = ["coroutines of templates whose data never really suspends are driven with send(None)"]

CLASSES = {"plain": Environment, "sandbox": SandboxedEnvironment, "immutable": ImmutableSandboxedEnvironment, "native": NativeEnvironment}
P = {}
TS = None
TA = None


def _mk(cls, asyncm):
    e = CLASSES[cls](enable_async=asyncm)
    e.globals["namespace"] = C03._namespace
    return e


def _norm(v):
    if isinstance(v, Undefined):
        return M.UNDEF
    if isinstance(v, JMacro):
        return "<macro>"
    if isinstance(v, Namespace):
        return "<ns>"
    if isinstance(v, str):
        return str(v)
    if isinstance(v, (list, tuple)):
        return [_norm(x) for x in v]
    return v


def _log(rec):
    return [tuple(_norm(v) for v in r) for r in rec.log]


def _out(fn):
    rec = Rec()
    try:
        text = fn(rec)
    except Exception as e:
        return ("exc", type(e).__name__, _log(rec))
    return ("ok", text if not isinstance(text, str) else str(text), _log(rec))


# ---------------------------------------------------------------- (1) generated programs
def setup(param):
    global P, TS, TA
    P = dict(param or {})
    cls = P.get("cls", "plain")
    if P.get("kind") == "hist":
        return
    if P.get("kind", "prog") == "prog":
        src = M.pstmts(C03.gen_program(P.get("prog", 0)), M.ident)
    else:
        src = DATA_TPLS[P.get("tpl", 0)]
    TS = _mk(cls, False).from_string(src)
    TA = _mk(cls, True).from_string(src)


def prog_ok(cs: List[bool], xs: List[int], ys: List[int], t: int, g: int) -> bool:
    """
    pre: len(cs) == 4 and len(xs) <= 2 and len(ys) <= 2
    post: _
    """
    ctx = dict(c0=cs[0], c1=cs[1], c2=cs[2], c3=cs[3], xs=[v for v in xs], ys=[v for v in ys], t=t, g=g)
    s = _out(lambda rec: TS.render(rec=rec, **ctx))
    a = _out(lambda rec: drive(TA.render_async(rec=rec, **ctx)))
    if s != a:
        return False
    if P.get("cls") != "native":
        g1 = _out(lambda rec: "".join(TS.generate(rec=rec, **ctx)))
        g2 = _out(lambda rec: "".join(drive_agen(TA.generate_async(rec=rec, **ctx))))
        if g1 != s or g2 != s:
            return False
    return True


# ---------------------------------------------------------------- (2) data as coroutine functions / async iterables
ATTRS = ["index", "last", "length", "revindex", "nextitem", "first", "previtem"]
DATA_TPLS = [
    "{{ rec('v', f(a)) }}{{ rec('w', f(f(a))) }}{% if f(a) > b %}{{ rec('t', 1) }}{% endif %}{% set z = f(b) %}{{ rec('z', z) }}",
    "{% for i in it %}{{ rec('i', i) }}{% if q == 0 %}{{ rec('a', loop.last, loop.length) }}{% elif q == 1 %}{{ rec('a', loop.nextitem, loop.revindex) }}{% elif q == 2 %}{{ rec('a', loop.length, loop.last) }}"
    "{% else %}{{ rec('a', loop.index, loop.first, loop.previtem) }}{% endif %}{% else %}{{ rec('e') }}{% endfor %}",
    "{% for i in it if i > b %}{{ rec('i', i, loop.index, loop.length) }}{% else %}{{ rec('e') }}{% endfor %}",
    "{{ rec('s', it|sum) }}", "{{ rec('l', it|list) }}", "{{ rec('u', it|unique|list) }}", "{{ rec('m', it|map('abs')|list) }}", "{{ rec('j', it|select('odd')|list) }}",
    "{{ rec('r', it|reject('gt', b)|list) }}", "{{ rec('f', it|first) }}", "{{ rec('c', it|slice(2)|list) }}", "{{ rec('jn', (it|map('string')|join('-'))|length) }}",
    "{{ rec('g', items|groupby('k', default=b)|map('list')|list) }}", "{{ rec('g2', items|groupby('k')|map(attribute='grouper')|list) }}",
    "{{ rec('sa', items|selectattr('k', 'gt', b)|map(attribute='v')|list) }}", "{{ rec('ma', items|map(attribute='k', default=a)|list) }}", "{{ rec('sm', items|sum(attribute='v', start=a)) }}",
    "{% for i in it %}{% for j in it2 %}{{ rec('p', i, j, loop.index) }}{% endfor %}{{ rec('o', loop.index, loop.last) }}{% endfor %}",
    "{% macro m(x) %}{{ rec('mx', f(x)) }}{% for i in it %}{{ rec('mi', i) }}{% endfor %}{% endmacro %}{{ m(a) }}{% call m(b) %}{% endcall %}",
    # non-numeric accumulation and argument containers: same result, same error class, arguments left alone
    "{{ rec('sl', pairs|sum(start=[])) }}{{ rec('s0', pairs|sum(start=lst0)) }}{{ rec('after', lst0) }}",
    "{{ rec('st', tups|sum(start=[])) }}", "{{ rec('stt', tups|sum(start=())) }}{{ rec('jl', pairs|map('join', '-')|join(lst0|join)) }}",
    "{{ rec('b', it|batch(2, lst0)|map('list')|list) }}{{ rec('after', lst0) }}{{ rec('sl', it|slice(2, lst0)|map('list')|list) }}{{ rec('after', lst0) }}",
    # the result of a filter that builds a list is the template's own: changing it must not show through the data (LAST entry: see NESTED_REUSE)
    "{% set w = it|list %}{{ rec('ap', w.append(a)) }}{{ rec('w', w) }}{{ rec('it', it|list) }}{% set r = lst0|list %}{{ rec('rv', r.reverse(), r.pop()) }}{{ rec('l0', lst0) }}"
    "{% set m = it|map('abs')|list %}{{ rec('mp', m.append(b)) }}{{ rec('it2', it|list, it|length) }}",
]


def _items(xs, a, b):
    out = []
    for i, x in enumerate(xs):
        d = {"v": x}
        if x != a:
            d["k"] = x
        out.append(d)
    return out


def data_ok(xs: List[int], a: int, b: int, q: int) -> bool:
    """
    pre: len(xs) <= 3 and 0 <= q <= 3
    post: _
    """
    def f(v):
        return v + 1

    async def af(v):
        return v + 1
    xl = [v for v in xs]
    items = _items(xl, a, b)
    base = dict(a=a, b=b, q=q, pairs=[[x, a] for x in xl], tups=[(x, b) for x in xl])
    s = _out(lambda rec: TS.render(rec=rec, f=f, it=list(xl), it2=[a, b], items=[dict(d) for d in items], lst0=[a], **base))
    # async environment, plain data
    a1 = _out(lambda rec: drive(TA.render_async(rec=rec, f=f, it=list(xl), it2=[a, b], items=[dict(d) for d in items], lst0=[a], **base)))
    # async environment, coroutine function + async iterables producing the same results
    a2 = _out(lambda rec: drive(TA.render_async(rec=rec, f=af, it=agen_of(xl), it2=[a, b], items=agen_of([dict(d) for d in items]), lst0=[a], **base)))
    # generators (no len()) in both modes
    s3 = _out(lambda rec: TS.render(rec=rec, f=f, it=(v for v in xl), it2=[a, b], items=(dict(d) for d in items), lst0=[a], **base))
    a3 = _out(lambda rec: drive(TA.render_async(rec=rec, f=f, it=(v for v in xl), it2=[a, b], items=(dict(d) for d in items), lst0=[a], **base)))
    if P.get("tpl", 0) in NESTED_REUSE:
        # the iterable is consumed by the first use; with one-shot iterables only the list variant is comparable
        return s == a1
    return s == a1 and s == a2 and s3 == a3 and s == s3


NESTED_REUSE = {17, 18, 22, len(DATA_TPLS) - 1}


# ---------------------------------------------------------------- (3) entry points needing an event loop (native)
ROWS = [dict(xs=[3, 1, 2], a=1, b=2), dict(xs=[], a=0, b=0), dict(xs=[5, 5], a=5, b=-1)]
E_TPLS = ["{{ a }}|{% for i in xs %}{{ i }}{{ loop.last }}{% else %}E{% endfor %}|{{ xs|sum }}|{{ xs|map('string')|join(',') }}",
          "{% macro m(x) %}[{{ x }}]{% endmacro %}{{ m(a) }}{% call m(b) %}c{% endcall %}{% set z %}{{ a }}{% endset %}{{ z }}",
          "{{ xs }}", "{{ a + b }}", "{% if a %}{{ missing.attr }}{% endif %}x", "{{ xs|first|default('none') }}{{ 1 // b if b else 'z' }}"]


def entry_ok(cls: int, tpl: int, row: int) -> bool:
    """
    pre: 0 <= cls <= 3 and 0 <= tpl < len(E_TPLS) and 0 <= row < len(ROWS)
    post: _
    """
    c = ["plain", "sandbox", "immutable", "native"][pick(cls, 4)]
    ti = pick(tpl, len(E_TPLS))
    ri = pick(row, len(ROWS))
    with NoTracing():
        ts = _mk(c, False).from_string(E_TPLS[ti])
        ta = _mk(c, True).from_string(E_TPLS[ti])
        ctx = ROWS[ri]

        def o(fn):
            try:
                return ("ok", fn())
            except Exception as e:
                return ("exc", type(e).__name__)
        ref = o(lambda: ts.render(**ctx))
        outs = [o(lambda: ta.render(**ctx)), o(lambda: asyncio.run(ta.render_async(**ctx)))]
        if c != "native":
            outs.append(o(lambda: "".join(ta.generate(**ctx))))
            outs.append(o(lambda: "".join(ts.generate(**ctx))))

            async def coll():
                return "".join([x async for x in ta.generate_async(**ctx)])
            outs.append(o(lambda: asyncio.run(coll())))
        return all(x == ref for x in outs)


def known_async_iterable_unaware_filter_ok():
    """Known-finding witness: filters without an async variant reject async iterables (sort/min/max/batch/reverse...)."""
    e = Environment(enable_async=True)

    async def ag():
        for v in (2, 1):
            yield v
    try:
        return asyncio.run(e.from_string("{{ it|sort|list }}").render_async(it=ag())) == "[1, 2]"
    except TypeError:
        return False


# ---------------------------------------------------------------- (4) histories: the same sequence of loads and renders in a sync and an async environment
from jinja2 import DictLoader

H_TPLS = {
    "lib": "{% macro tag(x) %}[{{ brand }}:{{ x }}]{% endmacro %}{% set libv = brand|default('nobrand') %}",
    "plain": "{% import 'lib' as lib %}{{ lib.tag(n) }}{{ lib.libv }}",
    "from": "{% from 'lib' import tag, libv %}{{ tag(n) }}{{ libv }}",
    "ctx": "{% import 'lib' as lib with context %}{{ lib.tag(n) }}{{ lib.libv }}",
    "inc": "{% include 'plain' %}|{% include 'from' %}",
    "child": "{% extends 'base' %}{% block b %}{% import 'lib' as l2 %}{{ l2.tag(n) }}{{ super() }}{% endblock %}",
    "base": "<{% block b %}{{ brand|default('-') }}{% endblock %}>",
}
H_NAMES = ["plain", "from", "ctx", "inc", "child"]
H_GLOBALS = [None, {"brand": "ACME"}, {"brand": "ZED", "extra": 1}]
H_NOPS = len(H_NAMES) * len(H_GLOBALS) + 2


def _h_run(asyncm, cls, ops):
    env = CLASSES[cls](loader=DictLoader(H_TPLS), enable_async=asyncm)
    out = []
    n = 0
    for op in ops:
        n += 1
        try:
            if op < len(H_NAMES) * len(H_GLOBALS):
                t = env.get_template(H_NAMES[op % len(H_NAMES)], globals=(dict(H_GLOBALS[op // len(H_NAMES)]) if H_GLOBALS[op // len(H_NAMES)] is not None else None))
                r = drive(t.render_async(n=n)) if asyncm else t.render(n=n)
                out.append(str(r))
            elif op == H_NOPS - 2:
                env.globals["brand"] = "ENV%d" % n
            else:
                t = env.get_template("lib")
                m = drive(t.make_module_async({"brand": "MM"})) if asyncm else t.make_module({"brand": "MM"})
                out.append(str(drive(m.tag(n)) if asyncm else m.tag(n)))
        except Exception as e:
            out.append("exc:" + type(e).__name__)
    return out


def hist_ok(ops: List[int]) -> bool:
    """
    pre: len(ops) == HLEN() and all(0 <= o < H_NOPS for o in ops)
    post: _
    """
    seq = [P.get("first_op", 0)] + [pick(o, H_NOPS) for o in ops]
    with NoTracing():
        cls = P.get("cls", "plain")
        return _h_run(False, cls, seq) == _h_run(True, cls, seq)


def HLEN():
    return P.get("hlen", 2)


def conditions(tier, seed):
    th = tier == "thorough"
    to = 120 if th else 30
    out = []
    n = 160 if th else 40
    classes = list(CLASSES)
    for i in range(n):
        pid = seed * 100000 + 500 + i
        cls = classes[i % 4]
        out.append(Cond(f"program#{pid}[{cls}]", "prog_ok", mode="A", param={"kind": "prog", "prog": pid, "cls": cls}, timeout=to,
                        witnesses=[[[True, False, True, False], [5, 1], [2], 3, 7], [[False] * 4, [], [], 0, 0]],
                        bounds="one generated program: sync render/generate vs driven render_async/generate_async, any branch bools, int lists <= 2, values"))
    for ti in range(len(DATA_TPLS)):
        # the last template mutates a filter result: the immutable sandbox refuses that in both worlds, so quick uses the plain class there
        for cls in (classes if th else ["plain"] if ti == len(DATA_TPLS) - 1 else [classes[(ti + seed) % 3]]):
            out.append(Cond(f"data[{ti}][{cls}] {DATA_TPLS[ti][:50]}", "data_ok", mode="A", param={"kind": "data", "tpl": ti, "cls": cls}, timeout=to,
                            witnesses=[[[3, -1, 2], 1, 2, 1], [[], 0, 0, 0], [[4, 4, 7], 4, 5, 2]],
                            bounds="int list <= 3 as list / generator / async generator, sync function vs coroutine function, any a, b, loop-attribute order q"))
    for first in range(H_NOPS):
        cls = ["plain", "sandbox", "immutable"][(first + seed) % 3]
        hl = 3 if th else 2
        out.append(Cond(f"history[first op {first}][{cls}]", "hist_ok", mode="B", param={"kind": "hist", "first_op": first, "cls": cls, "hlen": hl}, timeout=to * 3,
                        witnesses=[[[0, 5, 0][:hl]], [[6, 1, 11][:hl]], [[H_NOPS - 2, 3, H_NOPS - 1][:hl]]],
                        bounds=f"a fresh environment per sequence; first operation fixed, then every sequence of {hl} operations out of {H_NOPS} (load one of {H_NAMES} with per-template globals "
                               f"none / brand / brand+extra and render it, change an environment global, make_module with variables); sync world == async world"))
    out.append(Cond("entry points on an event loop", "entry_ok", mode="B", param={}, timeout=to * 3,
                    witnesses=[[0, 0, 0], [3, 2, 0], [1, 4, 2]], bounds=f"4 environment classes x {len(E_TPLS)} templates x {len(ROWS)} data rows; render/generate on async env, asyncio.run(render_async/generate_async)"))
    return out
