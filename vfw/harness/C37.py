"""C37 — concurrent async renders do not interfere.

Mode B with a symbolic schedule: two or three ``render_async`` coroutines on one environment (templates sharing
imported modules with and without context, macros called under different autoescape settings, includes,
namespaces, template globals, blocks) are stepped by the harness driver; data coroutine functions and async
iterables suspend on a gate awaitable, and which task runs next at every suspension is chosen by a selector list
(every interleaving of the suspension points is explored).  Caches are cold or pre-warmed (selector).  Every
task's output must equal the output of the same template rendered alone on a fresh, identically configured
environment.
"""
import types
from typing import List

from jinja2 import BaseLoader, DictLoader, Environment, select_autoescape
from jinja2.exceptions import TemplateNotFound
from vfw.core import Cond, pick, pickb
from vfw.support import NoTracing

FUNCTIONS = ["jinja2.runtime.Context / new_context / EvalContext (per render)", "Template._get_default_module_async / make_module_async / TemplateModule._async_init",
             "jinja2.runtime.Macro.__call__/_async_invoke (autoescape per call)", "jinja2.compiler generated async code for import / include / blocks",
             "Environment.get_template cache under concurrent use"]
OUTSIDE = ["the asyncio scheduler (the driver steps coroutines at gate suspensions; real tasks may also be preempted only at awaits, which are exactly the gates plus non-suspending awaits)",
           "more than 3 concurrent renders, more than 10 suspension points in total", "OS threads"]
ASSUMPTIONS = ["an isolated render on a fresh, identically configured environment is the reference"]

TPLS = {
    "helper.html": "{% set pre = af('p') %}{% macro greet(n) %}<b>{{ n }}{{ af('g') }}</b>{% endmacro %}{% set post = af('q') %}{{ af('body') }}",
    "plain.txt": "{% macro link(u) %}<a href=\"{{ u }}\">{{ af(u) }}</a>{% endmacro %}",
    "a.html": "{% import 'helper.html' as h %}A:{{ h.greet(name) }}|{{ h.pre }}{{ h.post }}",
    "b.html": "{% from 'helper.html' import greet %}B:{{ greet('<' ~ name) }}{% include 'helper.html' without context %}",
    "c.html": "{% import 'plain.txt' as p %}C:{{ p.link('/x?a&b') }} {{ '<' + p.link(name) }}",
    "d.txt": "{% import 'plain.txt' as p %}D:{{ p.link('/x?a&b') }} {{ '<' + p.link(name) }}",
    "e.html": "{% set ns = namespace(n=0) %}{% for i in ait(items) %}{% set ns.n = ns.n + i %}{{ af(i) }}{% endfor %}={{ ns.n }}{% include 'inc.html' %}",
    "inc.html": "[{{ name }}{{ af('i') }}{{ name }}]",
    "f.html": "{% extends 'base.html' %}{% block body %}F{{ af(name) }}{{ super() }}{% endblock %}",
    "g.html": "{% extends 'base.html' %}{% block body %}G{{ name }}{% endblock %}{% block tail %}{{ af('t') }}{{ super() }}{% endblock %}",
    "base.html": "<{% block body %}b{{ af('bb') }}{% endblock %}|{% block tail %}t{% endblock %}>{{ gl }}",
    "h.html": "{% import 'helper.html' as h with context %}H:{{ h.greet(name) }}{{ h.pre }}",
    # per-render state that must not be shared between tasks: the autoescape flag of a region and the block stack
    "i.html": "{{ name }}{{ af(1) }}{% autoescape false %}{{ name }}{{ af(2) }}{{ name }}{% endautoescape %}{{ af(3) }}{{ name }}"
              "{% autoescape flag %}{{ name }}{{ af(4) }}{{ name }}{% endautoescape %}{{ name }}",
    "j.html": "{% extends layout %}{% block body %}J{{ af(name) }}{{ super() }}{% endblock %}{% block tail %}{{ super() }}{{ af('jt') }}{% endblock %}",
    "base2.html": "({% block body %}b2{{ af('b2') }}{% endblock %}~{% block tail %}t2{% endblock %}){{ gl }}",
    "k.html": "{% if flag %}{% extends 'base.html' %}{% else %}{% extends 'base2.html' %}{% endif %}{% block body %}K{{ af(name) }}{{ super() }}{% endblock %}",
    # process-wide state must not be keyed by something two renders can share: a namespace built from a dict global, and
    # data whose *type* is shared by an awaitable (generator-based coroutine) and a non-awaitable (plain generator) value.
    # Their expected output is written down (ORACLE) instead of taken from a reference run, which module-level state could taint.
    "l.html": "{% set ns = namespace(defaults) %}{% for i in ait(items) %}{% set ns.n = ns.n + i %}{{ af(i) }}{% endfor %}={{ ns.n }}",
    "m.html": "{{ cg(name) }}|{{ af(1) }}|{{ cg(7) }}",
    "n.html": "{{ pg(items)|join('-') }}|{{ af(2) }}|{{ pg(items)|list|length }}",
    # known finding (see known_module_autoescape_flag_ok): a macro of a cached module with a runtime-decided autoescape region
    "flaglib.html": "{% macro m(f, v) %}{% autoescape f %}{{ af(v) }}{{ v }}{% endautoescape %}{% endmacro %}",
    "flaguse.html": "{% import 'flaglib.html' as lib %}{{ lib.m(flag, name) }}",
}
MAINS = ["a.html", "b.html", "c.html", "d.txt", "e.html", "f.html", "g.html", "h.html", "i.html", "j.html", "k.html", "l.html", "m.html", "n.html"]
ORACLE = {"l.html": lambda c: "12=3", "m.html": lambda c: c["name"].replace("<", "&lt;") + "|1|7", "n.html": lambda c: "1-2|2|2"}
P = {}


class Gate:
    def __await__(self):
        yield self


def _mkenv():
    async def af(v):
        await Gate()
        return v

    def ait(xs):
        async def gen():
            for x in xs:
                await Gate()
                yield x
        return gen()
    @types.coroutine
    def cg(v):
        yield Gate()
        return v

    def pg(xs):
        return (x for x in xs)
    env = Environment(loader=CodeLoader(), enable_async=True, autoescape=select_autoescape())
    env.globals.update(af=af, ait=ait, gl="GL", cg=cg, pg=pg, defaults={"n": 0})
    return env


CODE = {}


class CodeLoader(BaseLoader):
    """Serves code compiled once per process (compilation is not the subject; every environment is otherwise fresh)."""

    def load(self, environment, name, globals=None):
        if name not in TPLS:
            raise TemplateNotFound(name)
        if name not in CODE:
            CODE[name] = environment.compile(TPLS[name], name, name)
        return environment.template_class.from_code(environment, CODE[name], environment.make_globals(globals), None)


EXPECTED = {}
STEPS = {}


def _alone(env, name, ctx):
    coro = env.get_template(name).render_async(**ctx)
    try:
        while True:
            coro.send(None)
    except StopIteration as e:
        return ("ok", e.value)
    except Exception as e:
        return ("exc", type(e).__name__)


def setup(param):
    global P
    P = dict(param or {})


def _ctx(i):
    return dict(name="n%d<" % i, items=[1, 2], flag=(i % 2 == 0), layout=["base.html", "base2.html"][i % 2])


def sched_native(names, warm, picks):
    ctxs = [_ctx(i) for i in range(len(names))]
    expected = []
    for i, (n, c) in enumerate(zip(names, ctxs)):
        if (n, i) not in EXPECTED:
            EXPECTED[(n, i)] = ("ok", ORACLE[n](c)) if n in ORACLE else _alone(_mkenv(), n, c)
        expected.append(EXPECTED[(n, i)])
    env = _mkenv()
    if warm:
        for n, c in zip(names, ctxs):
            _alone(env, n, c)
    coros = [env.get_template(n).render_async(**c) for n, c in zip(names, ctxs)]
    results = [None] * len(names)
    live = list(range(len(names)))
    step = 0
    while live:
        sel = picks[step] if step < len(picks) else 0
        step += 1
        i = live[sel % len(live)]
        try:
            coros[i].send(None)
        except StopIteration as e:
            results[i] = ("ok", e.value)
            live.remove(i)
        except Exception as e:
            results[i] = ("exc", type(e).__name__)
            live.remove(i)
    return results == expected


def conc_ok(t1: int, t2: int, warm: bool, picks: List[bool]) -> bool:
    """
    pre: 0 <= t1 < len(MAINS) and 0 <= t2 < len(MAINS) and len(picks) == NPICKS()
    post: _
    """
    a = pick(t1, len(MAINS))
    b = pick(t2, len(MAINS))
    w = pickb(warm)
    lo = P.get("lo", 0)
    if not (lo <= a < lo + P.get("n", len(MAINS))):
        return True   # another condition's slice of the first task's template
    names = [MAINS[a], MAINS[b]]
    # decode the schedule lazily: a selector is only consulted (forked on) while both tasks are alive
    with NoTracing():
        need = _steps_needed(names, w)
    pk = [1 if pickb(picks[i]) else 0 for i in range(min(need, len(picks)))]
    with NoTracing():
        return sched_native(names, w, pk)


def _steps_needed(names, warm):
    """Upper bound on the number of scheduling decisions: total suspensions of both tasks when run alone."""
    key = tuple(names)
    if key in STEPS:
        return STEPS[key]
    total = 0
    for i, n in enumerate(names):
        env = _mkenv()
        coro = env.get_template(n).render_async(**_ctx(i))
        try:
            while True:
                coro.send(None)
                total += 1
        except (StopIteration, Exception):
            pass
    STEPS[key] = total
    return total


def NPICKS():
    return P.get("npicks", 8)


def three_ok(t1: int, t2: int, t3: int, picks: List[int]) -> bool:
    """
    pre: t1 == 0 and t2 == 1 and t3 == 2 and len(picks) == 6 and all(0 <= p <= 2 for p in picks)
    post: _
    """
    trio = P.get("trio", ["a.html", "b.html", "h.html"])
    names = list(trio)
    pk = [pick(p, 3) for p in picks]
    with NoTracing():
        # after the 6 explicit choices the remaining steps are round-robin
        return sched_native(names, False, pk + [0] * 40)


def known_module_autoescape_flag_ok():
    """Known-finding witness: two tasks calling a macro of a cached imported module whose body has a runtime-decided
    autoescape region share the module's eval context; the flag set by one is seen by the other."""
    return sched_native(["flaguse.html", "flaguse.html"], True, [1, 0, 1, 0, 1, 0])


def conditions(tier, seed):
    th = tier == "thorough"
    to = 300 if th else 150
    out = []
    npk = 10 if th else 7
    for lo in range(len(MAINS)):
        out.append(Cond(f"two tasks[first={MAINS[lo]}]", "conc_ok", mode="B", param={"lo": lo, "n": 1, "npicks": npk}, timeout=to,
                        witnesses=[[lo, 1, False, [True, False] * 5][:3] + [[True, False, True, True, False, True, False, False, True, True][:npk]], [lo, lo, True, [False] * npk]],
                        bounds=f"first task fixed, second task any of {len(MAINS)} templates, cold or warm caches, every choice of which task runs at each of the first {npk} suspensions (then round-robin)"))
    for trio in (["a.html", "b.html", "h.html"], ["c.html", "d.txt", "e.html"], ["f.html", "g.html", "b.html"], ["j.html", "j.html", "k.html"], ["i.html", "i.html", "i.html"]):
        out.append(Cond(f"three tasks{trio}", "three_ok", mode="B", param={"trio": trio}, timeout=to,
                        witnesses=[[0, 1, 2, [0, 1, 2, 0, 1, 2]], [0, 1, 2, [2, 2, 1, 1, 0, 0]]],
                        bounds="3 concurrent renders from a trio, every choice of the running task at the first 6 suspensions"))
    return out
