"""C16 — autoescaping escapes each value exactly once.

Mode B.  Two data strings are chosen by selectors (decoded by explicit forks under tracing) from a table of strings with HTML
metacharacters *and* entity-like sequences (``&lt;``, ``&amp;``, ``&amp;lt;`` ...).  On every path a table of escaping-neutral template
bodies — macros (``m(a) ~ m(b)``, nested calls, defaults, varargs), call blocks with arguments / ``caller()``, block references,
``super()``, set blocks (``s ~ "-" ~ s``), filter blocks with neutral filters, recursive loops, includes, imports, trans blocks,
constant-folded non-string constants — is rendered natively by the real code in an *escaping* and a *non-escaping* variant of the same
program (``Environment(autoescape=True/False)`` sync and async, ``select_autoescape`` by template name ``.html``/``.txt``,
``{% autoescape true/false %}``, runtime-decided ``{% autoescape flag %}`` with ``flag`` True/False).

Oracle (the property): ``html.unescape(render_on) == render_off``.  Template text contains no ``&`` so only data can be (un)escaped;
entity-like data makes a skipped escape visible (``&lt;`` would unescape to ``<``) as well as a doubled one.
"""
import html
from typing import List

from jinja2 import DictLoader, Environment, nodes, select_autoescape
from vfw.core import Cond, pick, pickb
from vfw.support import NoTracing, drive

FUNCTIONS = [
    "jinja2.compiler: return_buffer_contents, visit_AssignBlock, visit_FilterBlock, visit_Macro/visit_CallBlock, visit_Block, visit_Output/_output_child_to_const, "
    "visit_Concat, visit_Include/visit_Import/visit_FromImport, visit_ScopedEvalContextModifier",
    "jinja2.runtime: Macro.__call__/_invoke/_async_invoke, BlockReference.__call__/_async_call/super, markup_join, LoopContext.__call__ (recursive loops), "
    "TemplateReference", "jinja2.environment.TemplateModule.__html__/__str__, Template.render/render_async, make_module",
    "jinja2.filters: sync_do_join/do_join, do_replace, do_trim, do_lower, do_default, do_indent, do_string (as neutral filters on rendered fragments)",
    "jinja2.ext.InternationalizationExtension (trans blocks)", "jinja2.optimizer (folding of non-string constants)", "markupsafe.Markup / escape",
]
OUTSIDE = [
    "data strings outside the table DATA; template bodies outside the table BODIES (the enumeration of programs is a stated bound)",
    "templates that mark values safe (safe, escape, forceescape, urlize, xmlattr, tojson) or apply escaping-, length- or position-sensitive operations "
    "(striptags, upper on markup, %-format with markup arguments, first/length/truncate/... of rendered fragments) — excluded by the property",
]
ASSUMPTIONS = [
    "html.unescape is the reference single unescape", "templates are compiled natively and cached per (wrapper, mode, source)",
    "template text of the bodies contains no '&' (so unescaping only touches escaped data)",
    "no search-only condition with a symbolic data string: under tracing CrossHair's symbolic str loses the Markup bookkeeping of macro results "
    "(template text comes out escaped), which yields counterexamples that do not reproduce natively",
]
SUSPECTED_DEFECTS = [
    "D1 (see C15) literal-only output expression inside a runtime-decided autoescape block is folded with the compile-time flag: "
    "Environment(autoescape=True).from_string('{% autoescape flag %}{{ \"<b>\" }}{% endautoescape %}').render(flag=False) == '&lt;b&gt;' (escaped although "
    "autoescaping is off) and with Environment(autoescape=False), flag=True the literal '&lt;' is emitted unescaped; excluded by predicate _const_output",
    "D6 compiler.visit_Concat emits '(markup_join if context.eval_ctx.volatile else str_join)' for a volatile frame; the run-time context's volatile attribute "
    "is never set, so inside a runtime-decided autoescape block '~' always uses str_join, loses the markup status of its operands and the result is escaped "
    "again: Environment(autoescape=True).from_string('{% autoescape flag %}{% set s %}{{ a }}{% endset %}{{ s ~ \"-\" ~ s }}{% endautoescape %}')"
    ".render(flag=True, a='<b>') == '&amp;lt;b&amp;gt;-&amp;lt;b&amp;gt;' (with {% autoescape true %}: '&lt;b&gt;-&lt;b&gt;'); same for m(a) ~ m(b), "
    "self.b() ~ x, caller() ~ x; excluded: templates containing '~' under the runtime-decided wrappers (predicate _const_output)",
    "D3 (repaired in /repo by 'fix: indent filter escapes a plain string width for safe input'; the body is checked again) indent with a plain-string width "
    "on a rendered fragment marked the width safe",
    "D4 (see C15) macro imported from a non-autoescaped template and called from an autoescaped one returns its unescaped body marked safe; bodies tagged D4",
    "D5 (see C15) a {% block %} nested inside an {% autoescape %} region is compiled with the template-level flag: Environment(autoescape=False).from_string("
    "'{% autoescape true %}{% block b %}{{ a }}{% endblock %}{% endautoescape %}').render(a='&lt;') == '&lt;'; bodies tagged D5",
]

DATA = ["", "x", "<b>", "R&D", "&lt;", "&amp;", "&amp;lt;", "a < b > c", "\"q\" 'r'", "&#39;", "<&lt;>", "&", "&lt", " s\n t ", "&quot;&gt", "</p>{{ x }}"]
DATA_T = DATA + ["&#x27;", "&&amp;&", "'", "<!--", "&#60;&#60", "&amp;amp;", "\u00e9&eacute;", "z<z"]
# the second string: the most telling entries first (quick uses the first 6 only)
DATA_B = ["<b>", "&lt;", "", "\"q\" 'r'", "&amp;lt;", "R&D"] + [d for d in DATA_T if d not in ("<b>", "&lt;", "", "\"q\" 'r'", "&amp;lt;", "R&D")]
P = {}


def setup(param):
    P.clear()
    P.update(param or {})


class Mismatch(Exception):
    pass


class B:
    __slots__ = ("src", "tag")

    def __init__(self, src, tag=""):
        self.src, self.tag = src, tag       # optional region marks « »; § = helper-name suffix of the current mode


_M = "{% macro m(x) %}<p>{{ x }}</p>{% endmacro %}"
BODIES = [B(s) for s in [
    # ---- macros
    _M + "{{ m(a) }}{{ m(b) }}",
    _M + "{{ m(a) ~ m(b) }}|{{ m(a) ~ '-' ~ b }}|{{ a ~ m(b) }}|{{ a ~ '-' ~ m(b) ~ '-' ~ a }}",
    _M + "{{ m(m(a)) }}|{{ m(m(a) ~ b) }}|{{ m(a ~ b) }}",
    _M + "{{ m(a) + m(b) }}|{{ a + m(b) }}|{{ m(a) + b }}|{{ m(a) * 2 }}",
    _M + "{% set r = m(a) %}{{ r }}|{{ r ~ b }}|{{ [r, b]|join('-') }}|{{ [b, r, a]|join(b) }}|{{ r|string ~ r|default('x') ~ r|trim }}",
    _M + "{{ m(a) if c else b }}|{{ (m(a) or b) ~ (b and m(b)) }}|{% if m(a) == m(a) %}{{ a }}{% endif %}",
    "{% macro i(x) %}<i>{{ x }}</i>{% endmacro %}{% macro o(x, y) %}<p>{{ i(x) }}{{ y }}{{ i(i(y)) }}</p>{% endmacro %}{{ o(a, b) }}|{{ o(i(a), i(b)) }}",
    "{% macro m(x, y=b) %}[{{ x }}:{{ y }}]{% endmacro %}{{ m(a) }}{{ m(y=a, x=b) }}{{ m(m(a), m(b)) }}",
    "{% macro m() %}[{{ varargs|join('-') }}:{{ kwargs.k }}:{% for v in varargs %}{{ v }}{% endfor %}]{% endmacro %}{{ m(a, b, k=a) }}|{{ m(m(a), b, k=m(b)) }}",
    "{% macro m(x) %}{% if x %}<u>{{ x[0] }}{{ m(x[1:]) }}</u>{% endif %}{% endmacro %}{{ m([a, b, a]) }}",
    "{% macro m(x) %}{% set s %}{{ x }}{% endset %}{{ s }}{{ s ~ x }}{% endmacro %}{{ m(a) }}|{{ m(m(b)) }}",
    _M + "{% for v in [a, b] %}{{ m(v) }}{% endfor %}|{% for v in [m(a), m(b), a] %}{{ v }}{% endfor %}",
    # ---- captured blocks passed through filters that return plain strings; separators that are themselves template output
    "{% set x | squeeze %}<td> {{ a }}  </td>{% endset %}{{ x }}|{{ x ~ b }}|{{ [x, b]|join('-') }}",
    "{% set x | wordwrap(200) %}<td>{{ a }} {{ b }}</td>{% endset %}{{ x }}|{% set y | squeeze | trim %} <i>{{ b }}</i> {% endset %}{{ y }}{{ y ~ x }}",
    _M + "{% set sep %}<br>{{ b }}{% endset %}{{ [m(a), m(b)]|join(sep) }}|{{ [a, m(b)]|join(sep) }}|{{ [a, b]|join(sep) }}|{{ [m(a)]|join(m(b)) }}",
    _M + "{% macro sp() %}<hr>{% endmacro %}{{ [m(a), b, m(b)]|join(sp()) }}|{{ [m(a), m(b)]|join(sp() ~ sp()) }}",
    # ---- call blocks
    "{% macro w() %}<div>{{ caller() }}</div>{% endmacro %}{% call w() %}{{ a }}{% endcall %}|{% call w() %}{% call w() %}{{ b }}{% endcall %}{% endcall %}",
    "{% macro w(x) %}<div>{{ caller(x, b) }}{{ caller(x, 'k') ~ x }}</div>{% endmacro %}{% call(p, q) w(a) %}{{ p }}:{{ q }}:{{ a }}{% endcall %}",
    _M + "{% macro w() %}<div>{{ caller() ~ caller() }}</div>{% endmacro %}{% call w() %}{{ m(a) }}{{ b }}{% endcall %}",
    "{% macro w() %}{% set c = caller() %}<div>{{ c }}|{{ c ~ a }}|{{ [c, a]|join('-') }}</div>{% endmacro %}{% call w() %}{{ b }}{% endcall %}",
    # ---- block references / inheritance
    "{% block b %}«<h1>{{ a }}</h1>»{% endblock %}«{{ self.b() }}|{{ self.b() ~ b }}|{{ b ~ self.b() ~ self.b() }}»",
    "{% block b %}«{{ a }}»{% endblock %}{% block c %}«[{{ self.b() }}{{ b }}]»{% endblock %}«{{ self.c() }}»",
    "{% extends 'base§' %}{% block b %}«<h2>{{ a }}</h2>{{ super() }}|{{ super() ~ b }}|{{ b ~ super() }}»{% endblock %}",
    "{% extends 'mid§' %}{% block b %}«{{ a }}{{ super() }}{{ super.super() }}»{% endblock %}{% block c %}«{{ self.b() }}{{ super() }}»{% endblock %}",
    "{% extends 'base§' %}{% block c %}«{% for v in [a, b] %}{{ v }}{{ self.b() }}{% endfor %}»{% endblock %}",
    "{% macro m(x) %}«<p>{{ x }}</p>»{% endmacro %}{% block b %}«{{ m(a) }}{{ m(self.c()) }}»{% endblock %}{% block c %}«{{ b }}»{% endblock %}",
    # ---- set blocks
    "{% set s %}{{ a }}{% endset %}{{ s ~ '-' ~ s }}|{{ s }}|{{ s + s }}|{{ b ~ s }}|{{ s ~ b }}",
    "{% set s %}<i>{{ a }}</i>{% endset %}{% set t %}{{ s }}{{ b }}{{ s }}{% endset %}{{ t }}|{{ t ~ s }}",
    "{% set s %}{% set t %}{{ a }}{% endset %}{{ t }}{{ b }}{{ t ~ b }}{% endset %}{{ s }}{{ t }}",
    "{% set ns = namespace(v='') %}{% for v in [a, b] %}{% set ns.v %}{{ ns.v }}<li>{{ v }}</li>{% endset %}{% endfor %}{{ ns.v }}",
    "{% set s = a ~ b %}{{ s }}|{% set t = [a, b]|join('-') %}{{ t }}|{% set u, v = a, b %}{{ u }}{{ v }}",
    "{% set s | lower %}{{ a }}X{% endset %}{{ s }}|{% set s | trim %} {{ b }} {% endset %}{{ s }}|{% set s | replace('zz', 'y') %}{{ a }}zz{% endset %}{{ s ~ a }}",
    # (names in set-block filter arguments raised an AssertionError before 'fix: names used in a set block's filter arguments are tracked'; both sides raising is accepted)
    "{% set s | replace('zz', b) %}{{ a }}zz{% endset %}{{ s }}|{% set s | default(b) | trim %}{{ a }}{% endset %}{{ s }}",
    "{% with s = a, t = b %}{% set r %}{{ s }}{{ t }}{% endset %}{{ r }}{{ s ~ r }}{% endwith %}",
    # ---- filter blocks (neutral filters on rendered fragments)
    "{% filter trim %} {{ a }} {% endfilter %}|{% filter lower %}{{ a }}{{ b }}Q{% endfilter %}",
    "{% filter replace('zz', b) %}{{ a }}zz{% endfilter %}|{% filter replace('zz', 'y')|trim %} zz{{ b }}{% endfilter %}",
    "{% filter indent(2) %}{{ a }}\n{{ b }}{% endfilter %}|{% filter default('d') %}{{ a }}{% endfilter %}|{% filter string %}{{ b }}{% endfilter %}",
    "{% filter trim %}{% filter lower %}{{ a }}{% endfilter %}{{ b }}{% endfilter %}",
    _M + "{% filter trim %}{{ m(a) }}{{ b }}{% endfilter %}|{% set s %}{% filter lower %}{{ m(b) }}{% endfilter %}{% endset %}{{ s ~ a }}",
    # ---- loops
    "{% for n in tree recursive %}<li>{{ n.t }}{% if n.ch %}<ul>{{ loop(n.ch) }}</ul>{% endif %}</li>{% endfor %}",
    "{% for n in tree recursive %}[{{ n.t }}{{ loop(n.ch) ~ n.t }}{{ loop(n.ch) }}]{% endfor %}",
    _M + "{% for n in tree recursive %}{{ m(n.t) }}{% set inner = loop(n.ch) %}{{ m(inner) }}{% endfor %}",
    "{% for v in [a, b, a] %}{{ loop.cycle(a, b) }}:{{ loop.previtem }}:{{ loop.nextitem }}:{{ v }}:{{ loop.changed(v) }};{% else %}{{ a }}{% endfor %}",
    "{% for k, v in {'k': a, 'j': b}|dictsort %}{{ k }}={{ v }};{% endfor %}{% for v in [a, b] if v %}{{ v }}{% else %}none{% endfor %}",
    "{% for c in a %}{{ c }}{% endfor %}|{% for c in a|list %}{{ c }}{{ loop.last }}{% endfor %}",
    # ---- include / import
    "{% include 'inc§' %}|{% for v in [a, b] %}{% include 'incv§' %}{% endfor %}|{% include ['nope§', 'inc§'] %}",
    "{% import 'lib§' as lib %}{{ lib.m(a) }}|{{ lib.m(a) ~ lib.m(b) }}|{{ lib.v }}|{{ a ~ lib.v }}|{{ lib.m(lib.v) }}",
    "{% from 'lib§' import m, w, v with context %}{{ m(a) ~ b }}{% call w() %}{{ m(b) }}{{ a }}{% endcall %}{{ v ~ a }}",
    "{% import 'lib§' as lib %}[{{ lib }}]|{{ lib ~ a }}|{% set s %}{{ lib }}{% endset %}{{ s }}",
    "{% import 'lib§' as lib with context %}{{ lib.ctx() }}|{% macro m(x) %}{{ lib.m(x) }}{% endmacro %}{{ m(a) ~ m(b) }}",
    "{% set s %}{% include 'inc§' %}{% endset %}{{ s }}{{ s ~ b }}|{% filter trim %}{% include 'inc§' %}{% endfilter %}",
    # ---- expressions / constants
    "{{ ['<b>', 'R&D'] }}|{{ {'t': 'A&B'} }}|{{ 'x'|list }}|{{ ('<b>', 1) }}|{{ ['<b>']|first }}|{{ {'t': 'A&B'}.t }}|{{ '<b>' * 2 }}|{{ '<i>' ~ 'R&D' ~ 1 }}",
    "{{ ['&lt;b&gt;', 'R&amp;D'] }}|{{ {'t': 'A&amp;B', '&lt;': 1} }}|{{ '&lt;'|list }}|{{ ('&#39;', none, true, 1.5) }}|{{ ['&amp;lt;']|last }}|{{ {'t': ['&gt;']}.t }}|{{ '&quot;' * 2 }}",
    "{{ [a, b] }}|{{ {'t': a} }}|{{ (a, 1) }}|{{ a|list }}|{{ [a, '<b>']|join('&') }}|{{ a|upper }}{{ b|title }}{{ a|replace('&', b) }}{{ a|length }}",
    "{{ a ~ b }}|{{ a + b }}|{{ a * 2 }}|{{ '%s-%s' % (a, b) }}|{{ '%s'|format(a) }}|{{ a if c else b }}|{{ a or b }}|{{ [a, b]|join(', ') }}|{{ a|default(b) }}",
    "{{ a|trim ~ b|lower }}|{{ [a, b]|sort|join(a) }}|{{ [a, b]|map('upper')|join }}|{{ a|center(9) }}|{{ a|truncate(4, true, b) }}|{{ a[1:] }}{{ a|first }}{{ a|reverse }}",
    "{% trans x=a %}<i>{{ x }}</i>{% endtrans %}|{% trans n=2, x=b %}one {{ x }}{% pluralize %}{{ n }} of {{ x }}{% endtrans %}",
    "{% set j = joiner(b) %}{{ j() }}{{ a }}{{ j() }}{{ a }}|{% set cy = cycler(a, b) %}{{ cy.next() }}{{ cy.next() }}|{{ dict(k=a).k ~ namespace(v=b).v }}",
    # ---- regions of the *other* mode are identical in both variants
    "{{ a }}{% autoescape false %}{% endautoescape %}{{ b }}{% autoescape true %}{% endautoescape %}{{ a ~ b }}",
]] + [
    B(_M + "{{ m(a ~ '\nz')|indent(2) }}|{{ m(a ~ '\nz')|indent(b) }}"),
    B("«{% block b %}{{ a }}{% endblock %}{{ self.b() }}»", "D5"),
    B("{% import 'lib.txt' as lib %}{{ lib.m(a) }}", "D4"),
    # a set block captured at the top level of an imported helper (outside any region): only comparable where the whole helper has one mode
    B("{% import 'lib§' as lib %}{{ lib.blk }}|{{ lib.blk ~ a }}|{{ a ~ lib.blk }}{% from 'lib§' import blk %}{{ blk ~ blk }}", "R"),
]
LIT_BODIES = [B(s) for s in [
    "{{ @a }}|{{ @a ~ @b }}|{{ @a + @b }}|{{ @a * 2 }}",
    "{{ [@a, @b] }}|{{ {'t': @a} }}|{{ (@a, 1) }}|{{ @a|list }}|{{ [@a]|first }}|{{ {'t': @a}.t }}|{{ {@a: @b} }}",
    "{{ @a|upper }}|{{ @a|trim }}|{{ [@a, @b]|join(@b) }}|{{ @a|replace('&', @b) }}|{{ @a|default(@b) }}|{{ '%s|%s'|format(@a, @b) }}|{{ @a if c else @b }}",
    "{% macro m(x, y=@b) %}<p>{{ x }}{{ y }}</p>{% endmacro %}{{ m(@a) }}|{{ m(@a) ~ m(@b) }}|{{ @a ~ m(@b) }}|{{ m(m(@a)) }}",
    "{% set s %}{{ @a }}{% endset %}{{ s ~ '-' ~ s }}|{% set t = @a ~ @b %}{{ t }}|{% set u %}{{ s }}{{ @b }}{% endset %}{{ u }}",
    "{% block b %}«{{ @a }}»{% endblock %}«{{ self.b() ~ @b }}»",
    "{% filter trim %} {{ @a }} {% endfilter %}|{% filter replace('zz', @b) %}{{ @a }}zz{% endfilter %}",
    "{% for v in [@a, @b] %}{{ v }}{{ loop.cycle(@a, @b) }}{% endfor %}|{% for n in [{'t': @a, 'ch': [{'t': @b, 'ch': []}]}] recursive %}[{{ n.t }}{{ loop(n.ch) }}]{% endfor %}",
    "{% macro w() %}<div>{{ caller() }}</div>{% endmacro %}{% call w() %}{{ @a }}{% endcall %}|{% with s = @a %}{{ s }}{{ s ~ @b }}{% endwith %}",
    "{% trans x=@a %}<i>{{ x }}</i>{% endtrans %}|{% if @a %}{{ @b }}{% endif %}|{{ @a == @b }}|{{ @a in @b }}",
]]

HELPERS = {
    "inc": "«<b>{{ a }}</b>{{ b }}{{ a ~ b }}»",
    "incv": "«({{ v }})»",
    # (a region is a scope: names defined inside are not exported, so the marks sit inside the macro bodies)
    "lib": "{% macro m(x) %}«<em>{{ x }}</em>»{% endmacro %}{% macro w() %}«<div>{{ caller() }}</div>»{% endmacro %}{% macro ctx() %}«{{ a }}{{ b }}»{% endmacro %}"
           "{% set v = '<R&D>' %}{% set blk %}<s>{{ v }}</s>{% endset %}top",
    "base": "{% block b %}«<h1>{{ b }}</h1>»{% endblock %}|{% block c %}«{{ self.b() }}»{% endblock %}",
    "mid": "{% extends 'base§' %}{% block b %}«<h3>{{ a }}{{ super() }}</h3>»{% endblock %}",
}


def apply_marks(src, pre, post):
    if "«" in src:
        return src.replace("«", pre).replace("»", post)
    return pre + src + post


class Mode:
    """One side (escaping or not) of a wrapper: environment, region text around the body, template-name suffix, render context."""

    def __init__(self, autoescape, pre="", post="", suffix="", ctx=None, is_async=False, newstyle=True):
        self.pre, self.post, self.suffix, self.ctx, self.is_async = pre, post, suffix, ctx or {}, is_async
        self.env = Environment(autoescape=autoescape, enable_async=is_async, extensions=["jinja2.ext.i18n", "jinja2.ext.do"], cache_size=0)
        self.env.install_null_translations(newstyle=newstyle)
        self.env.filters["squeeze"] = lambda v: " ".join(str(v).split())     # a user filter that returns a plain string
        hpre = pre.replace(" flag ", " gflag ")
        self.env.globals["gflag"] = self.ctx.get("flag", False)
        tpl = {}
        for k, v in HELPERS.items():
            for suf in {suffix, ".html", ".txt"}:
                tpl[k + suf] = apply_marks(v, hpre, post).replace("§", suf)
        self.env.loader = DictLoader(tpl)
        self.cache = {}

    def template(self, src):
        t = self.cache.get(src)
        if t is None:
            full = apply_marks(src, self.pre, self.post).replace("§", self.suffix)
            try:
                if self.suffix:
                    self.env.loader.mapping["main" + self.suffix] = full
                    t = self.env.get_template("main" + self.suffix)
                else:
                    t = self.env.from_string(full)
            except Exception as e:
                t = e
            if len(self.cache) > 4000:
                self.cache.clear()
            self.cache[src] = t
        return t

    def render(self, src, ctx):
        t = self.template(src)
        if isinstance(t, Exception):
            return ("exc", type(t).__name__)
        ctx = dict(ctx, **self.ctx)
        try:
            if self.is_async:
                return ("ok", drive(t.render_async(**ctx)))
            return ("ok", t.render(**ctx))
        except Exception as e:
            return ("exc", type(e).__name__)


_SEL = dict(enabled_extensions=("html",), disabled_extensions=("txt",), default_for_string=False, default=False)
_AT, _AN, _AF, _EA = "{% autoescape true %}", "{% autoescape false %}", "{% autoescape flag %}", "{% endautoescape %}"
# name: (escaping mode, non-escaping mode, volatile?, defects showing, doc)
WRAPPERS = {
    "static": (Mode(True), Mode(False), False, set(), "Environment(autoescape=True) vs Environment(autoescape=False)"),
    "async": (Mode(True, is_async=True, newstyle=False), Mode(False, is_async=True, newstyle=False), False, set(),
              "enable_async environments, render_async driven without event loop"),
    "select": (Mode(select_autoescape(**_SEL), suffix=".html"), Mode(select_autoescape(**_SEL), suffix=".txt"), False, {"D4"},
               "one select_autoescape environment; templates and helpers named *.html vs *.txt"),
    "block": (Mode(False, _AT, _EA, newstyle=False), Mode(True, _AN, _EA, newstyle=False), False, {"D5", "R"},
              "{% autoescape true %} in a non-escaping environment vs {% autoescape false %} in an escaping one"),
    "flag_off_env": (Mode(False, _AF, _EA, ctx={"flag": True}), Mode(False, _AF, _EA, ctx={"flag": False}), True, {"D5", "R"},
                     "{% autoescape flag %} with flag True vs False, Environment(autoescape=False)"),
    "flag_on_env": (Mode(True, _AF, _EA, ctx={"flag": True}, newstyle=False), Mode(True, _AF, _EA, ctx={"flag": False}, newstyle=False), True, {"D5", "R"},
                    "{% autoescape flag %} with flag True vs False, Environment(autoescape=True)"),
    "async_flag": (Mode(False, _AF, _EA, ctx={"flag": True}, is_async=True), Mode(False, _AF, _EA, ctx={"flag": False}, is_async=True), True, {"D5", "R"},
                   "{% autoescape flag %} with flag True vs False, async environment"),
}


def _const_output(env, src):
    """D1 exclusion: the template prints a literal-only expression (as_const succeeds although the evaluation context is volatile).
    D6 exclusion: the template uses the ~ operator (in a volatile frame it never keeps markup)."""
    ctx = nodes.EvalContext(env)
    ctx.volatile = True
    try:
        tree = env.parse(src)
    except Exception:
        return False
    if next(tree.find_all(nodes.Concat), None) is not None:
        return True
    for out in tree.find_all(nodes.Output):
        for child in out.nodes:
            if isinstance(child, nodes.TemplateData):
                continue
            try:
                child.as_const(ctx)
            except Exception:
                continue
            return True
    return False


_CONST_CACHE = {}


def check_body(wname, body, src, ctx):
    on, off, volatile, defects, doc = WRAPPERS[wname]
    if body.tag and body.tag in defects:
        return 0
    if volatile:
        k = _CONST_CACHE.get(src)
        if k is None:
            if len(_CONST_CACHE) > 4000:
                _CONST_CACHE.clear()
            k = _CONST_CACHE[src] = _const_output(on.env, apply_marks(src, on.pre, on.post).replace("§", on.suffix))
        if False and k:
            return 0      # D1 / D6 were repaired in /repo: no exclusion any more
    r_on = on.render(src, ctx)
    r_off = off.render(src, ctx)
    if r_on[0] == "exc" and r_off[0] == "exc":
        return 0
    if r_on[0] == "ok" and r_off[0] == "ok" and html.unescape(r_on[1]) == r_off[1]:
        return 1
    raise Mismatch("wrapper=%s (%s) template=%r a=%r b=%r c=%r escaping=%r non-escaping=%r" % (wname, doc, src, ctx["a"], ctx["b"], ctx["c"], r_on, r_off))


def _ctx(a, b, c):
    return dict(a=a, b=b, c=c, tree=[{"t": a, "ch": [{"t": b, "ch": [{"t": a + b, "ch": []}]}, {"t": "<" + a, "ch": []}]}, {"t": b, "ch": []}])


def NDATA():
    return P.get("ndata", len(DATA))


def NB():
    return P.get("nb", 6)


def jlit(s):
    return '"' + s.replace("\\", "\\\\").replace('"', '\\"').replace("\n", "\\n") + '"'


def _decode(ia, ib, c):
    ia, ib = pick(ia, NDATA()), pick(ib, NB())
    c = pickb(c)
    return ia, ib, c


def pair_ok(ia: int, ib: int, c: bool) -> bool:
    """
    pre: 0 <= ia < NDATA() and 0 <= ib < NB() and (c or P.get("csym", False))
    post: _
    """
    ia, ib, c = _decode(ia, ib, c)
    with NoTracing():
        a, b = DATA_T[ia], DATA_B[ib]
        if not P.get("csym"):
            c = (ia + ib) % 2 == 0
        lo, hi = P.get("part", (0, len(BODIES)))
        n = 0
        for body in BODIES[lo:hi]:
            n += check_body(P["wrapper"], body, body.src, _ctx(a, b, c))
        return n > 0


def lit_ok(ia: int, ib: int, c: bool) -> bool:
    """
    pre: 0 <= ia < NDATA() and 0 <= ib < NB() and (c or P.get("csym", False))
    post: _
    """
    ia, ib, c = _decode(ia, ib, c)
    with NoTracing():
        a, b = DATA_T[ia], DATA_B[ib]
        if not P.get("csym"):
            c = (ia + ib) % 2 == 0
        n = 0
        for body in LIT_BODIES:
            n += check_body(P["wrapper"], body, body.src.replace("@a", jlit(a)).replace("@b", jlit(b)), _ctx(a, b, c))
        return n > 0


def conditions(tier, seed):
    thorough = tier == "thorough"
    to = 300 if thorough else 60
    nd = len(DATA_T) if thorough else len(DATA)
    nb = len(DATA_B) if thorough else 6
    half = (len(BODIES) + 1) // 2
    out = []
    for wn, w in WRAPPERS.items():
        wit = [[2, 1, True], [6, 5, True], [8, 4, True], [0, 0, True]]
        bnd = (f"a from the first {nd} entries of {DATA_T!r}, b from the first {nb} entries of {DATA_B!r}, "
               + ("bool c symbolic" if thorough else "bool c derived from the indices") + f"; {w[4]}")
        for part in ((0, half), (half, len(BODIES))):
            out.append(Cond(f"data[{wn},{part[0]}-{part[1]}]", "pair_ok", mode="B", param=dict(wrapper=wn, ndata=nd, nb=nb, csym=thorough, part=list(part)), timeout=to,
                            witnesses=wit, bounds=f"bodies {part[0]}..{part[1] - 1} of {len(BODIES)}; " + bnd))
        out.append(Cond(f"literals[{wn}]", "lit_ok", mode="B", param=dict(wrapper=wn, ndata=nd, nb=nb, csym=thorough), timeout=to,
                        witnesses=wit, bounds=f"a, b written as string literals in the template source; {len(LIT_BODIES)} bodies; " + bnd))
    return out
