"""C19 — the immutable sandbox never modifies list, dict, set or deque data.

Oracle computed at run time from Python itself: every public name of the four
builtin container types is applied to copies of sample containers with
arguments from a small table; a name is a *mutator* when any application
changes the container.

* mode A  ``attr_ok``: for every string ``attr`` with ``attr in MUTATORS[type]``
  (the membership is the precondition) the real
  ``ImmutableSandboxedEnvironment.is_safe_attribute`` rejects it, also after a
  plain ``SandboxedEnvironment`` answered the same question (no verdict may leak
  between environments).
* mode A  ``data_ok``: compiled templates calling a (selector-chosen) list /
  deque / dict method on containers of *symbolic* ints with symbolic arguments.
* mode B  ``meth_ok``: compiled templates reaching every public method and
  every mutating underscore method (``__setitem__``, ``__iadd__``, ``__init__``
  ...) (selector) with every applicable argument tuple (selector) through 13
  access routes (selector); sync and async; each selector tuple is evaluated
  from a fresh shared state and again after a plain ``SandboxedEnvironment``
  rendered the same template (state shared between environments -- module
  globals / class attributes of jinja2.sandbox -- is put back to its import
  time contents before each evaluation, so every verdict replays natively).
* mode B  ``filt_ok``: every filter registered in the environment (read from
  ``env.filters`` at run time) x generated argument shapes incl. one
  container-valued keyword argument per declared parameter x container data,
  with and without autoescape, sync and async.

After every render the whole context is compared with a deep copy taken
before; attempts on mutators must produce an undefined value / SecurityError.
"""
import copy
import inspect
import os
from collections import deque
from typing import List

from jinja2.sandbox import ImmutableSandboxedEnvironment, SandboxedEnvironment
from markupsafe import Markup
from vfw.core import Cond, pick, pickb
from vfw.support import NoTracing, Rec, drive

FUNCTIONS = [
    "jinja2.sandbox.modifies_known_mutable / _mutable_spec", "ImmutableSandboxedEnvironment.is_safe_attribute",
    "SandboxedEnvironment.getattr/getitem/call/unsafe_undefined/wrap_str_format, SandboxedFormatter.get_field",
    "jinja2.filters: every registered filter (incl. do_attr, make_attrgetter, do_join, do_sum, do_map, do_batch, do_slice) and async variants",
    "generated sandboxed code for Getattr/Getitem/Call/Filter (compiler)", "jinja2.runtime.Undefined (SecurityError undefined)",
]
OUTSIDE = ["subclasses of the four container types and other mutable types", "argument tuples outside the 10-entry table",
           "underscore names that do not mutate (they are the subject of C17)",
           "bound methods placed in the context by the application itself (the sandbox only guards attribute access)",
           "filter argument shapes outside the generated ones (no args, int, string, container, one keyword per declared parameter)"]
ASSUMPTIONS = ["templates are compiled natively at setup; only rendering runs under the solver",
               "state shared between environments lives in mutable containers / functools caches held by the jinja2.sandbox module "
               "or by class attributes of the sandbox environment / formatter classes (these are reset between evaluations)",
               "the mutator table is derived from CPython's own behaviour on sample containers"]

# Genuine defects of the unchanged tree found by these conditions (attr_ok / meth_ok counterexamples,
# reproduced natively).  They are excluded -- exactly these (type, method) pairs -- in the `pre:` of
# attr_ok and meth_ok so the rest of the check stays green.  VERIF_C19_NOEXCLUDE=1 disables the exclusion
# (the solver then reports them again).
# All three defects below were repaired in /repo by "fix:" commits (see known_findings.json); nothing is
# excluded any more, so a regression is reported as a VIOLATION.
EXCLUDED = []
FIXED_DEFECTS = [
    "ImmutableSandboxedEnvironment allows deque.appendleft / extendleft / popleft / rotate: modifies_known_mutable matches "
    "deque against the abc.MutableSequence row first (its method set lacks them); e.g. "
    "ImmutableSandboxedEnvironment().from_string('{{ dq.appendleft(9) }}').render(dq=deque([3,1,2])) mutates dq "
    "(attr_ok[deque]('appendleft', False); meth_ok[deque,*] selectors for those methods)",
    "ImmutableSandboxedEnvironment allows set.intersection_update (missing from the MutableSet row): "
    "'{{ st.intersection_update([1]) }}' with st={1,2,3} leaves st == {1} (attr_ok[set]('intersection_update', False))",
    "the indent filter mutates list/deque input: do_indent does `s += newline`, which extends a list or deque in place before "
    "failing with AttributeError: ImmutableSandboxedEnvironment().from_string('{{ xs|indent }}').render(xs=xs) with xs=[3,1,2] "
    "raises AttributeError and leaves xs == [3, 1, 2, '\\n'] (same through xs_of_lists|map('indent'), sync and async; "
    "filt_ok selectors for D|indent* on list/deque data)",
]
if os.environ.get("VERIF_C19_NOEXCLUDE"):
    EXCLUDED = []

TYPES = {"list": list, "dict": dict, "set": set, "deque": deque}
SAMPLES = {
    "list": [lambda: [3, 1, 2], lambda: [1, 1, 5]],
    "dict": [lambda: {"k": 1, "b": 2}, lambda: {"k": [1]}],
    "set": [lambda: {1, 2, 3}, lambda: {1}],
    "deque": [lambda: deque([3, 1, 2]), lambda: deque([1, 5], maxlen=2)],
}
ARGS = [
    lambda: ((), {}), lambda: ((1,), {}), lambda: ((9,), {}), lambda: (([7, 8],), {}), lambda: ((0, 9), {}),
    lambda: (("k",), {}), lambda: (("z", 5), {}), lambda: (({"z": 5},), {}), lambda: (({1, 9},), {}), lambda: ((), {"z": 5}),
]


def _public(tname):
    """Every public name of the type, plus every underscore name in dir() that the oracle marks as a mutator
    (__setitem__, __delitem__, __iadd__, __ior__, __init__, ...): those are mutating methods too."""
    return sorted(n for n in dir(TYPES[tname]) if not n.startswith("_") or _mutates(tname, n))


def _mutates(tname, name):
    """Python itself decides: does any application of the method change a sample container?"""
    for mk in SAMPLES[tname]:
        for am in ARGS:
            obj = mk()
            before = copy.deepcopy(obj)
            a, kw = am()
            try:
                m = getattr(obj, name)
                if not callable(m):
                    return False
                m(*a, **kw)
            except Exception:
                pass
            if obj != before or list(_seq(obj)) != list(_seq(before)):
                return True
    return False


def _seq(o):
    return o.items() if isinstance(o, dict) else (sorted(o, key=repr) if isinstance(o, set) else o)


def _applicable(tname, name):
    """Argument tuples the method accepts on some sample, plus the first one it rejects."""
    ok, bad = [], []
    for i, am in enumerate(ARGS):
        good = False
        for mk in SAMPLES[tname]:
            obj = mk()
            a, kw = am()
            try:
                m = getattr(obj, name)
                if callable(m):
                    m(*a, **kw)
                    good = True
            except Exception:
                pass
        (ok if good else bad).append(i)
    return ok + bad[:1]


PUBLIC = {t: _public(t) for t in TYPES}
MUT = {t: [n for n in PUBLIC[t] if _mutates(t, n)] for t in TYPES}
APPL = {t: [_applicable(t, n) for n in PUBLIC[t]] for t in TYPES}
MAXA = max(len(a) for t in TYPES for a in APPL[t])

ROUTES = [
    ("direct", "{{ rec('v', c.@M) }}{{ rec('r', c.@M(*a, **kw)) }}"),
    ("alias", "{% set f = c.@M %}{{ rec('v', f) }}{{ rec('r', f(*a, **kw)) }}"),
    ("subscript", "{{ rec('v', c['@M']) }}{{ rec('r', c['@M'](*a, **kw)) }}"),
    ("subscript-var", "{{ rec('v', c[mname]) }}{{ rec('r', c[mname](*a, **kw)) }}"),
    ("attr-filter", "{% set f = c|attr('@M') %}{{ rec('v', f) }}{{ rec('r', f(*a, **kw)) }}"),
    ("map-attribute", "{% set f = [c]|map(attribute='@M')|first %}{{ rec('v', f) }}{{ rec('r', f(*a, **kw)) }}"),
    ("map-attr-filter", "{% set f = [c]|map('attr', '@M')|first %}{{ rec('v', f) }}{{ rec('r', f(*a, **kw)) }}"),
    ("do", "{% do c.@M(*a, **kw) %}"),
    ("stored", "{% set h = {'f': c.@M} %}{{ rec('v', h.f) }}{{ rec('r', h.f(*a, **kw)) }}"),
    ("loopvar", "{% for f in [c.@M] %}{{ rec('v', f) }}{{ rec('r', f(*a, **kw)) }}{% endfor %}"),
    ("macro-arg", "{% macro run(f) %}{{ rec('v', f) }}{{ rec('r', f(*a, **kw)) }}{% endmacro %}{{ run(c.@M) }}"),
    ("nested", "{{ rec('v', holder.inner.@M) }}{{ rec('r', holder.inner.@M(*a, **kw)) }}"),
    ("format", "{{ rec('s', '{0.@M}'.format(c)) }}{{ rec('s', '{x.@M}'.format_map({'x': c})) }}{{ rec('s', '{0[@M]}'.format(c)) }}"
               "{{ rec('s', ('{0.@M}'|safe).format(c)) }}"),
]

P = {}
ENVS = {}
TPL = {}
TNAME = "list"
EXCL_IDX = []
FEXPRS = []
FT = []
EXCL_F = []
DATA_NAMES = ["xs", "ss", "mixed", "lm", "d", "st", "dq", "nest", "recs", "nestd", "ys"]


# non-default policy values: filters that consult env.policies must not fold them into their arguments
POLICIES_ALT = {"urlize.rel": "nofollow", "urlize.target": "_blank", "urlize.extra_schemes": ["tel:", "x:"], "truncate.leeway": 0,
                "json.dumps_kwargs": {"sort_keys": False}}


def _env(cls, asyncm, autoescape=False, pol=0):
    key = (cls.__name__, bool(asyncm), bool(autoescape), pol)
    if key not in ENVS:
        e = ENVS[key] = cls(enable_async=bool(asyncm), autoescape=bool(autoescape), extensions=["jinja2.ext.do"])
        if pol:
            e.policies.update(copy.deepcopy(POLICIES_ALT))
    return ENVS[key]


_SHARED = []


def _snapshot_shared():
    """State shared between environments: every mutable container held by the jinja2.sandbox module or as a class
    attribute of a class on the MRO of the two sandbox environments, plus functools caches.  Recorded once (import
    time contents) so that _reset_shared() can put the process back into the state of a fresh interpreter: every
    evaluated selector tuple then has a defined history (fresh / plain sandbox first) that the native replay reproduces."""
    import jinja2.sandbox as sb

    seen = set()
    holders = [vars(sb)]
    for cls in (ImmutableSandboxedEnvironment, SandboxedEnvironment, sb.SandboxedFormatter, sb.SandboxedEscapeFormatter):
        for k in cls.__mro__:
            if k.__module__.startswith("jinja2"):
                holders.append(vars(k))
    for h in holders:
        for name, v in list(h.items()):
            if id(v) in seen or (name.startswith("__") and name.endswith("__")):
                continue
            seen.add(id(v))
            if type(v) in (dict, set, list, deque):
                _SHARED.append((v, copy.copy(v)))
            elif callable(getattr(v, "cache_clear", None)):
                _SHARED.append((v, None))


def _reset_shared():
    for obj, snap in _SHARED:
        if snap is None:
            obj.cache_clear()
        elif type(obj) is dict:
            obj.clear()
            obj.update(snap)
        elif type(obj) is set:
            obj.clear()
            obj.update(snap)
        else:
            obj.clear()
            obj.extend(snap)


_snapshot_shared()


def _render(t, asyncm, ctx):
    if asyncm:
        return drive(t.render_async(**ctx))
    return t.render(**ctx)


# ------------------------------------------------------------------ mode A: is_safe_attribute on symbolic names
def IS_MUT(attr):
    for n in MUT[TNAME]:
        if attr == n:
            return True
    return False


def NOT_EXCL(attr):
    for t, n in EXCLUDED:
        if t == TNAME and attr == n:
            return False
    return True


def attr_ok(attr: str, prime: bool) -> bool:
    """
    pre: len(attr) <= 28 and IS_MUT(attr) and NOT_EXCL(attr)
    post: _
    """
    name = None
    for n in MUT[TNAME]:
        if attr == n:
            name = n
            break
    ok = True
    for mk in SAMPLES[TNAME]:
        obj = mk()
        value = getattr(obj, name)
        with NoTracing():
            _reset_shared()
        if prime:
            # a plain sandbox answers the same (type, attr) question first; its verdict must not leak
            _env(SandboxedEnvironment, False).is_safe_attribute(obj, attr, value)
        if _env(ImmutableSandboxedEnvironment, P.get("asyncm")).is_safe_attribute(obj, attr, value):
            ok = False
    return ok


# ------------------------------------------------------------------ mode B: methods through templates
def _ctx(tname, si, ai):
    c = SAMPLES[tname][si]()
    a, kw = ARGS[ai]()
    return dict(c=c, a=a, kw=kw, holder={"inner": c})


def _meth_one(mi, ai, ri, si):
    """One immutable-sandbox render of route ri / method mi on a fresh sample; True iff the property holds."""
    name = PUBLIC[TNAME][mi]
    asyncm = P.get("asyncm")
    ctx = _ctx(TNAME, si, ai)
    ctx["mname"] = name
    before = copy.deepcopy(ctx)
    rec = Rec()
    exc = None
    try:
        _render(TPL[("imm", mi, ri)], asyncm, dict(ctx, rec=rec))
    except Exception as e:
        exc = type(e).__name__
    if ctx != before:
        return False
    if name in MUT[TNAME]:
        # the attempt yields an undefined value or raises SecurityError
        for entry in rec.log:
            if entry[0] in ("v", "r") and entry[1] != ("<undefined>",):
                return False
            if entry[0] == "s" and "method" in entry[1]:
                return False
        if exc is not None and exc != "SecurityError":
            return False
        if exc is None and ROUTES[ri][0] == "do":
            return False
    return True


def _meth_native(mi, ai, ri):
    """Both sample containers; each: immutable render from a fresh shared state, then (fresh state again) a plain
    SandboxedEnvironment renders the same template (same (type, attr) pairs) on a copy followed by the immutable
    render -- a verdict of the plain sandbox must not leak into the immutable one."""
    asyncm = P.get("asyncm")
    for si in range(2):
        _reset_shared()
        if not _meth_one(mi, ai, ri, si):
            return False
        _reset_shared()
        pctx = _ctx(TNAME, si, ai)
        pctx["mname"] = PUBLIC[TNAME][mi]
        try:
            _render(TPL[("plain", mi, ri)], asyncm, dict(pctx, rec=Rec()))
        except Exception:
            pass
        if not _meth_one(mi, ai, ri, si):
            return False
    return True


_DEC = {}


def _dec(key, v, n):
    """pick() once per path: the decoding done inside the precondition is reused by the body."""
    c = _DEC.get(key)
    if c is not None and c[0] is v and c[2] == n:
        return c[1]
    r = pick(v, n)
    _DEC[key] = (v, r, n)
    return r


def NOT_EXCL_IDX(m):
    return _dec("m", m, NM()) not in EXCL_IDX


def NM():
    return len(PUBLIC[TNAME])


def meth_ok(m: int, a: int, r: int) -> bool:
    """
    pre: 0 <= m < NM() and 0 <= a < MAXA and 0 <= r < len(ROUTES) and NOT_EXCL_IDX(m)
    post: _
    """
    # NOT_EXCL_IDX: the (type, method) pairs of SUSPECTED_DEFECTS are excluded (exactly those)
    mi = _dec("m", m, NM())
    appl = APPL[TNAME][mi]
    ai = pick(a, MAXA)
    if ai >= len(appl):
        return True
    ri = pick(r, len(ROUTES))
    with NoTracing():
        return _meth_native(mi, appl[ai], ri)


# ------------------------------------------------------------------ mode A: symbolic container contents
DATA_METHODS = {
    "list": ["append", "extend", "insert", "pop", "remove", "reverse", "sort", "clear", "copy", "count", "index"],
    "deque": ["append", "extend", "insert", "pop", "remove", "reverse", "clear", "copy", "count"],
    "dict": ["pop", "popitem", "setdefault", "update", "clear", "get", "copy", "keys"],
}
DATA_SRC = {
    "append": "c.append(x)", "extend": "c.extend([x, y])", "insert": "c.insert(x, y)", "pop": "c.pop()", "remove": "c.remove(x)",
    "reverse": "c.reverse()", "sort": "c.sort()", "clear": "c.clear()", "copy": "c.copy()", "count": "c.count(x)", "index": "c.index(x)",
    "popitem": "c.popitem()", "setdefault": "c.setdefault(x, y)", "update": "c.update({0: x, 7: y})", "get": "c.get(x)", "keys": "c.keys()|list",
}


def MAXLEN():
    return P.get("maxlen", 3)


def data_ok(xs: List[int], x: int, y: int, m: int) -> bool:
    """
    pre: len(xs) <= MAXLEN() and 0 <= m < len(DATA_METHODS[TNAME])
    post: _
    """
    mi = pick(m, len(DATA_METHODS[TNAME]))
    name = DATA_METHODS[TNAME][mi]
    if TNAME == "list":
        c = [v for v in xs]
        before = [v for v in xs]
    elif TNAME == "deque":
        c = deque(xs)
        before = deque(xs)
    else:
        c = {}
        before = {}
        for i, v in enumerate(xs):
            c[i] = v
            before[i] = v
    t = TPL[("data", name)]
    exc = None
    try:
        _render(t, P.get("asyncm"), dict(c=c, x=x, y=y, rec=Rec()))
    except Exception as e:
        exc = type(e).__name__
    if name in MUT[TNAME] and exc != "SecurityError":
        return False
    return c == before and len(c) == len(before)


# ------------------------------------------------------------------ mode B: every registered filter on container data
def _filter_exprs(env):
    """(filter name, expression over D/ys/zs) generated from the live filter table and signatures."""
    out = []
    names = sorted(env.filters)
    for name in names:
        shapes = ["", "(ys)", "(2)", "(2, ys)", "('k')", "('k', ys)"]
        try:
            params = list(inspect.signature(env.filters[name]).parameters.values())
        except (TypeError, ValueError):
            params = []
        for p in params:
            if p.kind in (p.POSITIONAL_OR_KEYWORD, p.KEYWORD_ONLY):
                shapes.append("(%s=ys)" % p.name)
                # the same keyword with a string as the filter input (string filters reject or stringify containers early)
                out.append((name, "ST|%s(%s=ys)" % (name, p.name)))
                out.append((name, "ST|%s(%s=ss)" % (name, p.name)))
                if any(q.name == "attribute" for q in params) and p.name != "attribute":
                    shapes.append("(attribute='k', %s=ys)" % p.name)
        if any(p.kind == p.VAR_KEYWORD for p in params) or name in ("map", "groupby", "unique", "sort", "min", "max", "sum", "join"):
            shapes += ["(attribute='k')", "(attribute='v', default=ys)", "(attribute='append')", "(attribute='v.append')"]
        for s in shapes:
            out.append((name, "D|%s%s" % (name, s)))
        # the filter applied to every element of a container of containers
        out.append(("map", "D|map('%s')" % name))
        out.append(("map", "D|map('%s', ys)" % name))
    for test_args in ["('odd')", "('in', ys)", "('sameas', ys)", "('eq', zs)"]:
        for f in ("select", "reject"):
            out.append((f, "D|%s%s" % (f, test_args)))
    for test_args in ["('k')", "('k', 'in', ys)", "('v', 'eq', ys)", "('append')", "('v.append')"]:
        for f in ("selectattr", "rejectattr"):
            out.append((f, "D|%s%s" % (f, test_args)))
    out += [("format", "'%s-%s'|format(D, ys)"), ("format", "'%(k)s'|format(**d)"), ("replace", "'abc'|replace('b', D)"),
            ("default", "missing|default(D)"), ("default", "missing|d(ys)|list"), ("join", "D|join(ys)"), ("join", "D|join(ss|first)"),
            ("join", "D|join('<', 'v')"), ("batch", "D|batch(2, fill_with=ys)|map('list')"), ("slice", "D|slice(2, zs)|map('list')"),
            ("sum", "D|sum(start=ys)|list"), ("sum", "nest|sum(start=D)"), ("sum", "recs|sum('v', D)"),
            ("sum", "recs|sum(attribute='v', start=D)"), ("groupby", "recs|groupby('k', default=D)"),
            ("map", "recs|map(attribute='zz', default=D)"), ("dictsort", "D|dictsort(by='value')"), ("items", "D|items|map('last')"),
            ("xmlattr", "{'a': D}|xmlattr"), ("tojson", "D|tojson(indent=2)"), ("attr", "D|attr('append')"), ("attr", "(D|attr('copy'))()")]
    return out


FILTER_SRC = "{%% set r = %s %%}{%% if r is string or r is number %%}{{ r }}{%% else %%}{{ r|list|length }}{%% endif %%}{{ r|string|length }}"


def _fdata():
    return dict(
        xs=[3, 1, 2], ss=["b", "<a>", "c"], mixed=[1, None, 2.5, [4], ("t",)], lm=[Markup("<b>"), 1, [2], "<i>"],
        d={"k": 1, "b": [1, 2], "<": "&"}, st={1, 2, 3}, dq=deque([3, 1, 2]), nest=[[2, 1], [3], deque([5, 4]), {7, 6}],
        recs=[{"k": 2, "v": [1]}, {"k": 1, "v": [2]}, {"k": 2, "v": [3]}], nestd={"a": [1], "b": {"c": [2]}},
        ys=[7, 8], zs=[9], ST="see http://a.b/<x> tel:12 www.c.d mailto:e@f.gh now and\n  then",
    )


def _filt_native(ei, di):
    asyncm = P.get("asyncm")
    ok = True
    _reset_shared()
    for ae in (False, True, (False, 1), (True, 1)):
        t = FT[ei][ae]
        ctx = _fdata()
        ctx["D"] = ctx[DATA_NAMES[di]]
        before = copy.deepcopy(ctx)
        try:
            _render(t, asyncm, ctx)
        except Exception:
            pass
        if ctx != before or ctx["D"] is not ctx[DATA_NAMES[di]]:
            ok = False
    return ok


def NF():
    return len(FT)


def _excluded_filter_input(expr, value):
    """Suspected defect 3: do_indent does `s += newline`, which extends a list/deque argument in place."""
    return False  # repaired in /repo: the indent filter no longer modifies its input
    if expr.startswith("D|indent"):
        return isinstance(value, (list, deque))
    if expr.startswith("D|map('indent'"):
        return isinstance(value, (list, deque)) and any(isinstance(el, (list, deque)) for el in value)
    return False


def NOT_EXCL_F(e, d):
    return (_dec("e", e, NF()), _dec("d", d, len(DATA_NAMES))) not in EXCL_F


def filt_ok(e: int, d: int) -> bool:
    """
    pre: 0 <= e < NF() and 0 <= d < len(DATA_NAMES) and NOT_EXCL_F(e, d)
    post: _
    """
    # NOT_EXCL_F: the (expression, data) pairs of suspected defect 3 (indent on list/deque) are excluded
    ei = _dec("e", e, NF())
    di = _dec("d", d, len(DATA_NAMES))
    with NoTracing():
        return _filt_native(ei, di)


# ------------------------------------------------------------------ mode B: statements and globals handling context containers
STMTS = [
    "{% set ns = namespace(D) %}{% set ns.k = 5 %}{% set ns.fresh = ys %}{{ ns.k }}",
    "{% set ns = namespace(D, z=1) %}{% set ns.k = 5 %}{% set ns.z %}blk{% endset %}{{ ns.z }}",
    "{% set ns = namespace(D) %}{% set ns.k %}blk{% endset %}{% for i in xs %}{% set ns.k = ns.k ~ i %}{% endfor %}{{ ns.k }}",
    "{% set ns = namespace(**D) %}{% set ns.k = 5 %}",
    "{% set ns = namespace(a=D) %}{% set ns.a = 5 %}{% set ns.b = D %}{% set ns.b = ns.b|list %}",
    "{% set c = dict(D) %}{% set ns = namespace(c) %}{% set ns.k = 2 %}{{ c|length }}",
    "{% set c = dict(D, extra=ys) %}{{ c|length }}{% set c2 = dict(**D) %}{{ c2|length }}",
    "{% set a = D %}{% set a = a|list + [1] %}{% with w = D %}{% set w = 1 %}{{ w }}{% endwith %}",
    "{% macro m(a=D) %}{% set a = a|list + [1] %}{{ a|length }}{% endmacro %}{{ m() }}{{ m(ys) }}{{ m(a=xs) }}",
    "{% macro m() %}{{ varargs|length }}{{ kwargs|length }}{% endmacro %}{{ m(D, ys, k=D, j=xs) }}{{ m(*ys, **{'a': D}) }}",
    "{% set c = cycler(D, ys) %}{{ c.next() is defined }}{{ c.next() is defined }}{% set c2 = cycler(*xs) %}{{ c2.next() }}{{ c2.current }}",
    "{% set j = joiner(ss|first) %}{{ j() }}{{ j() }}{% for i in D %}{{ loop.cycle(ys, xs)|length }}{{ loop.changed(D) }}{% endfor %}",
    "{% for i in D %}{% set inner = namespace(v=i) %}{% set inner.v = 0 %}{% endfor %}{% for i in D|reverse if i %}{{ loop.length }}{% endfor %}",
    "{% for k, v in d|items %}{% set v = 0 %}{% endfor %}{% for k in d %}{% set k = 0 %}{% endfor %}{{ d|length }}",
    "{% filter replace('a', 'b') %}{{ D|string }}{% endfilter %}{% set s %}{{ D|string }}{% endset %}{{ s|length }}",
    "{% do D|list|length %}{% set t = (D, ys) %}{% set t2 = t + (1,) %}{% set u, v = ys %}{% set u = 0 %}{{ ys|length }}",
    "{{ range(ys|first)|list|length }}{{ lipsum(n=1, html=false)|length > 0 }}{{ dict(a=D).a is defined }}{{ (D, ys)|tojson|length }}",
    "{% call(x) cm(D) %}{% set x = 0 %}{{ x }}{% endcall %}{% call cm2() %}{{ D|length }}{% endcall %}",
    # attribute assignment and set blocks aimed directly at the data
    "{% set D.k %}v{% endset %}", "{% set D.k = 1 %}", "{% set d.k, D.j = 1, 2 %}", "{% for i in ys %}{% set D.k %}{{ i }}{% endset %}{% endfor %}",
    "{% macro m(t) %}{% set t.k %}v{% endset %}{% endmacro %}{{ m(D) }}{{ m(d) }}", "{% set D.k | upper %}v{% endset %}",
    # a tuple assignment that rebinds the namespace name to the data before an attribute target of the same name is stored
    "{% set ns = namespace() %}{% set ns, ns.k = D, 1 %}", "{% set ns = namespace() %}{% set ns.j, ns, ns.k = 0, D, 1 %}",
    "{% set ns = namespace() %}{% set ns, ns.a, ns.b = D, 1, 2 %}{{ ns|length }}", "{% set ns = namespace(o=namespace()) %}{% set ns, ns.k = d, 1 %}{% set ns, ns.k = D, 1 %}",
    "{% macro m(t) %}{% set ns = namespace() %}{% set ns, ns.k = t, 1 %}{% endmacro %}{{ m(D) }}{{ m(d) }}",
]
STMT_PRE = "{% macro cm(v) %}{{ caller(v) }}{% endmacro %}{% macro cm2() %}{{ caller() }}{% endmacro %}"
ST_T = []


def _stmt_native(si, di):
    asyncm = P.get("asyncm")
    ok = True
    _reset_shared()
    for t in ST_T[si]:
        ctx = _fdata()
        ctx["D"] = ctx[DATA_NAMES[di]]
        before = copy.deepcopy(ctx)
        try:
            _render(t, asyncm, ctx)
        except Exception:
            pass
        if ctx != before or ctx["D"] is not ctx[DATA_NAMES[di]]:
            ok = False
    return ok


def stmt_ok(s: int, d: int) -> bool:
    """
    pre: 0 <= s < len(STMTS) and 0 <= d < len(DATA_NAMES)
    post: _
    """
    si = _dec("s", s, len(STMTS))
    di = _dec("d", d, len(DATA_NAMES))
    with NoTracing():
        return _stmt_native(si, di)


def _all_exprs():
    return _filter_exprs(_env(ImmutableSandboxedEnvironment, False))


NCHUNK = 4


# ------------------------------------------------------------------ setup / conditions
def setup(param):
    global P, TNAME, EXCL_IDX, FEXPRS, FT, EXCL_F
    P = dict(param or {})
    TNAME = P.get("type", "list")
    TPL.clear()
    ENVS.clear()
    _DEC.clear()
    FT = []
    EXCL_F = []
    EXCL_IDX = [PUBLIC[t].index(n) for t, n in EXCLUDED if t == TNAME and n in PUBLIC[t]]
    asyncm = P.get("asyncm")
    kind = P.get("kind")
    if kind == "meth":
        imm = _env(ImmutableSandboxedEnvironment, asyncm)
        plain = _env(SandboxedEnvironment, asyncm)
        for mi, name in enumerate(PUBLIC[TNAME]):
            for ri, (_, src) in enumerate(ROUTES):
                s = src.replace("@M", name)
                TPL[("imm", mi, ri)] = imm.from_string(s)
                TPL[("plain", mi, ri)] = plain.from_string(s)
    elif kind == "data":
        imm = _env(ImmutableSandboxedEnvironment, asyncm)
        for name in DATA_METHODS[TNAME]:
            src = "c.pop(x)" if (TNAME, name) == ("dict", "pop") else DATA_SRC[name]
            TPL[("data", name)] = imm.from_string("{%% set r = %s %%}{{ rec('r', r) }}" % src)
    elif kind == "stmt":
        del ST_T[:]
        for src in STMTS:
            ST_T.append([_env(ImmutableSandboxedEnvironment, asyncm, ae, pol).from_string(STMT_PRE + src) for ae in (False, True) for pol in (0, 1)])
    elif kind == "filt":
        exprs = _all_exprs()
        k = P.get("chunk", 0)
        FEXPRS = exprs[k::NCHUNK]
        for _, ex in FEXPRS:
            d = {ae: _env(ImmutableSandboxedEnvironment, asyncm, ae).from_string(FILTER_SRC % ex) for ae in (False, True)}
            d.update({(ae, 1): _env(ImmutableSandboxedEnvironment, asyncm, ae, 1).from_string(FILTER_SRC % ex) for ae in (False, True)})
            FT.append(d)
        data = _fdata()
        EXCL_F = [(ei, di) for ei, (_, ex) in enumerate(FEXPRS) for di, dn in enumerate(DATA_NAMES)
                  if _excluded_filter_input(ex, data[dn])]


def conditions(tier, seed):
    th = tier == "thorough"
    to = 300 if th else 60
    out = []
    for t in TYPES:
        out.append(Cond(f"attr_ok[{t}]", "attr_ok", mode="A", param={"type": t, "kind": "attr"}, timeout=to,
                        witnesses=[[n, i % 2 == 1] for i, n in enumerate(n for n in MUT[t] if (t, n) not in EXCLUDED)][:4],
                        bounds=f"all strings attr (len <= 28) that Python's own behaviour marks as mutating methods of {t} "
                               f"({len(MUT[t])} names computed at run time), minus the listed suspected defects; "
                               "with/without a plain SandboxedEnvironment consulted first"))
    for t in ("list", "deque", "dict"):
        for asyncm in (False, True):
            out.append(Cond(f"data_ok[{t},{'async' if asyncm else 'sync'}]", "data_ok", mode="A",
                            param={"type": t, "kind": "data", "asyncm": asyncm, "maxlen": 4 if th else 3}, timeout=to,
                            witnesses=[[[3, 1, 2], 1, 5, 0], [[], 0, 0, 3], [[4, 4], 4, 1, 4], [[2, 1], 0, 7, 1]],
                            bounds=f"{t} built from <= {4 if th else 3} arbitrary ints, arbitrary int arguments, method selector over {DATA_METHODS[t]}"))
    for t in TYPES:
        for asyncm in (False, True):
            nm = len(PUBLIC[t])
            wit = [[0, 0, 0], [nm - 1, 0, 1], [min(3, nm - 1), 1, 4], [1, 0, 7], [2, 0, 12]]
            excl = [PUBLIC[t].index(n) for tt, n in EXCLUDED if tt == t]
            wit = [w for w in wit if w[0] not in excl]
            out.append(Cond(f"meth_ok[{t},{'async' if asyncm else 'sync'}]", "meth_ok", mode="B",
                            param={"type": t, "kind": "meth", "asyncm": asyncm}, timeout=to * 2 if not th else to, witnesses=wit,
                            bounds=f"every public name of {t} ({nm}, from dir()) x applicable argument tuples (<= {MAXA} of {len(ARGS)}) x "
                                   f"{len(ROUTES)} access routes; per selector both sample containers, each rendered before and after a plain "
                                   "SandboxedEnvironment rendered the same template"))
    for asyncm in (False, True):
        out.append(Cond(f"stmt_ok[{'async' if asyncm else 'sync'}]", "stmt_ok", mode="B", param={"kind": "stmt", "asyncm": asyncm}, timeout=to * 2 if not th else to,
                        witnesses=[[0, 4], [3, 4], [5, 9], [8, 0], [len(STMTS) - 1, 7]],
                        bounds=f"{len(STMTS)} statement templates (namespace()/dict()/cycler()/joiner() built from context containers, attribute assignment, set blocks, "
                               f"macro defaults/varargs/kwargs, loops, call blocks) x {len(DATA_NAMES)} container data values x autoescape on/off x default/non-default policies"))
    nf = len(_all_exprs())
    for asyncm in (False, True):
        for k in range(NCHUNK):
            n = len(range(k, nf, NCHUNK))
            out.append(Cond(f"filt_ok[{'async' if asyncm else 'sync'},chunk{k}]", "filt_ok", mode="B",
                            param={"kind": "filt", "asyncm": asyncm, "chunk": k}, timeout=to * 2 if not th else to,
                            witnesses=[[0, 0], [n - 1, 7], [n // 2, 3], [n // 3, 10]],
                            bounds=f"{n} of {nf} generated filter expressions (every registered filter x argument shapes) x "
                                   f"{len(DATA_NAMES)} container data values x autoescape on/off x default/non-default policies"))
    return out
