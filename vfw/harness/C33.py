"""C33 — translation blocks render like their source text and are fully extractable.

Mode B (``block_ok``, ``call_ok``): a ``{% trans %}`` block is assembled by selectors from parts — context
string, ``trimmed``/``notrimmed`` modifier (first or last in the tag) and the ``ext.i18n.trimmed`` policy,
variables declared in the tag (incl. a variable literally called ``num`` that is or is not the counter, ``count``,
a bare name, a call expression), body pieces (plain text, whitespace and line breaks, ``%``, ``%%``, ``%(a)s`` /
``%s`` look-alikes, braces, markup, ``{{ name }}`` references to declared and free names), an optional
``{% pluralize %}`` with implicit or explicit counter, the value of ``x`` (metacharacter table) and of the counter.
The selectors are decoded by forks under tracing; the real lexer, parser, i18n extension, compiler and runtime then
run natively on the decoded source in an environment whose translations are identity functions installed through
``install_gettext_callables`` / ``install_gettext_translations`` (recording) or ``install_null_translations`` in old
and new style, with autoescaping decided by the environment flag, ``select_autoescape`` and the template name,
``{% autoescape true/false/<runtime flag> %}`` blocks.

Oracle (independent reference model, ``model``): the text of the chosen (singular iff counter == 1) body with
every reference replaced by the variable's value, escaped iff autoescaping is *effective* at the block and the
value is not markup; trimming (strip, line breaks with surrounding whitespace -> one space) applied to the
template text, not to the values.  Every call recorded by the translation callables must be found (same function,
same message/plural/context strings) among ``extract_from_ast`` (babel style and plain) and ``babel_extract``
results for the same source and the same options (new-style flag, trimmed policy).

Mode A (``plural_count_ok``): compiled pluralising blocks rendered under tracing with the counter an unbounded
symbolic int: the translation function receives exactly that int and the output is the singular text iff n == 1.
"""
import io
import re
from typing import List

from jinja2 import Environment, FunctionLoader, select_autoescape
from jinja2.ext import GETTEXT_FUNCTIONS, babel_extract, extract_from_ast
from markupsafe import Markup
from vfw.core import Cond, pick, pickb
from vfw.support import NoTracing

FUNCTIONS = [
    "jinja2.ext.InternationalizationExtension.parse / _parse_block / _trim_whitespace / _make_node",
    "jinja2.ext._make_new_gettext / _make_new_ngettext / _make_new_pgettext / _make_new_npgettext / _gettext_alias",
    "jinja2.ext.InternationalizationExtension._install / _install_null / _install_callables",
    "jinja2.ext.extract_from_ast / babel_extract",
    "generated code for MarkSafeIfAutoescape, Mod, Call with keyword arguments, ScopedEvalContextModifier (compiler) and "
    "Context.call / EvalContext (runtime) as reached from trans blocks",
]
OUTSIDE = [
    "body text outside the piece tables and longer than the stated number of pieces; pieces ending in '{' (would form a delimiter "
    "with the next piece); whitespace control signs inside the block ({{- a -}}), trim_blocks/lstrip_blocks, custom delimiters",
    "non-identity translations (a translator reordering or dropping placeholders)",
    "gettext calls whose message argument is not a single string literal (extraction yields None for them by design)",
    "ill-formed blocks (pluralize naming an undeclared variable, pluralize without any variable): skipped, decided by the model",
    "mode A: blocks that print the symbolic counter, and mode A without effective autoescaping (CrossHair's str.__mod__ model realises every value of "
    "the mapping, also unused ones) — both covered in mode B with a counter table",
    "values of the variables outside the 6-entry table; undefined variables",
]
ASSUMPTIONS = [
    "identity translations: gettext(m) == m, ngettext(s, p, n) == (s if n == 1 else p), same with a context argument",
    "the reference escape (& < > ' \" -> &amp; &lt; &gt; &#39; &#34;) is what 'autoescaping applied' means",
    "templates of mode-B conditions are compiled natively per decoded selector tuple; mode-A templates at setup",
]
SUSPECTED_DEFECTS = [
    "old-style gettext, variables declared in the tag but none referenced in the body, literal '%' in the body: the message is "
    "un-doubled ('%%' -> '%') because no variable is referenced, but '% {vars}' formatting is still applied because variables "
    "were declared.  Environment(extensions=['jinja2.ext.i18n']) + install_null_translations(): "
    "'{% trans a=x %}100%{% endtrans %}' raises ValueError('incomplete format'); "
    "'{% trans count=n %}one 100%{% pluralize %}many 100%{% endtrans %}' likewise; '{% trans a=x %}%(a)s{% endtrans %}' renders the "
    "value of x instead of the text '%(a)s'; '{% trans a=x %}%s{% endtrans %}' renders the dict repr.  New style is correct.  "
    "Excluded from block_ok by KNOWN_PERCENT (old style, declared variables, no reference in either body, '%' in the body that is shown); known_percent_ok() is the native witness.",
]


def ESC(s):
    out = []
    for ch in s:
        out.append({"&": "&amp;", "<": "&lt;", ">": "&gt;", "'": "&#39;", '"': "&#34;"}.get(ch, ch))
    return "".join(out)


# ------------------------------------------------------------------------------------------------ part tables
CTXS = [None, "ctx", "c%s<&>x"]
# (modifier, position): position 'first' = right after the tag name / context string, 'last' = after the variables
TRIMS = [(None, None), ("trimmed", "first"), ("notrimmed", "first"), ("trimmed", "last"), ("notrimmed", "last")]
# declared variables: (name, expression source or None for a bare name, key of the value in the render context)
DECLS = [
    [],
    [("a", "x", "x")],
    [("count", "n", "n")],
    [("count", "n", "n"), ("a", "x", "x")],
    [("a", "x", "x"), ("count", "n", "n")],
    [("num", "x", "x"), ("count", "n", "n")],     # 'num' is not the counter when pluralize names count; it is when implicit
    [("count", "n", "n"), ("num", "x", "x")],
    [("num", "n", "n")],                          # 'num' is the counter
    [("n", None, "n")],
    [("count", "ident(n)", "n")],                 # call expression: evaluated once through the _trans assignment
    [("num", "n", "n"), ("a", "x", "x")],
    [("a", "x", "x"), ("num", "n", "n")],
]
# pluralize: None = no plural, ("",) implicit counter, (name,) explicit
PLZ = [None, ("",), ("count",), ("num",), ("a",), ("n",)]
TEXTS = ["x", " ", "\n", " \n\t ", "%", "%%", "%(a)s", "%s", "5%d", "{x}", "}", "<b>", "&amp;", "é '\"", "  y", "%(count)s", "%(num)s"]
REFS = ["a", "count", "num", "b", "context", "n"]
PIECES = [("t", s) for s in TEXTS] + [("v", r) for r in REFS]
XV = ["v", "<b>&'\"", Markup("<i>s</i>"), "%s %(a)s %%", 7, "a\n  b"]
NV = [1, 0, 2, 11]
# free names (not declared in the tag) come from the render context
FREE = dict(a="ctxA<", b="ctxB", count=3, num="ctxNUM&", context="CTX>", ident=lambda v: v)

# install variants: (how, newstyle)
INSTALLS = [("callables", False), ("callables", True), ("null", False), ("null", True), ("translations", False), ("translations", True),
            ("callables_envflag", True)]
# autoescape variants: env flag (False/True/'select'/'select_nostr'), template name (None = from_string), wrapper, effective
AES = [
    dict(env=False, name=None, wrap=None, eff=False),
    dict(env=True, name=None, wrap=None, eff=True),
    dict(env="select", name="t.html", wrap=None, eff=True),
    dict(env="select", name="t.txt", wrap=None, eff=False),
    dict(env="select", name=None, wrap=None, eff=True),
    dict(env="select_nostr", name=None, wrap=None, eff=False),
    dict(env=False, name=None, wrap="true", eff=True),
    dict(env=True, name=None, wrap="false", eff=False),
    dict(env=False, name=None, wrap="flag", flag=True, eff=True),
    dict(env=True, name=None, wrap="flag", flag=False, eff=False),
    dict(env="select", name="t.txt", wrap="true", eff=True),
    dict(env="select", name="t.html", wrap="flag", flag=False, eff=False),
    dict(env="select", name="T.XML", wrap=None, eff=True),
    dict(env="select", name="t.html.j2", wrap="flag", flag=True, eff=True),   # '.j2' is not an enabled extension; the block decides
]

DIMS = ["ctx", "trim", "policy", "decl", "plz", "x", "n", "install", "ae"]
FULL = dict(ctx=len(CTXS), trim=len(TRIMS), policy=2, decl=len(DECLS), plz=len(PLZ), x=len(XV), n=len(NV), install=len(INSTALLS), ae=len(AES))

P = {}
LOG = []
_ENVS = {}
_SRC = {}
ND = [1] * 9        # domain sizes of the current condition (concrete; set by setup)
NP1 = NP2 = 1       # piece table sizes (singular / plural body)
LS = LP = 0         # maximal number of pieces in the singular / plural body
NS1 = NS2 = 1       # number of singular / plural bodies (sequences of <= LS / LP pieces)


def setup(param):
    global P, NP1, NP2, LS, LP, NS1, NS2
    P = dict(param or {})
    ND[:] = [len(DOM(dim)) for dim in DIMS]
    NP1, NP2 = NPIECE("pieces"), NPIECE("ppieces")
    LS, LP = P.get("ls", 2), P.get("lp", 1)
    NS1, NS2 = _nseq(NP1, LS), _nseq(NP2, LP)
    LOG.clear()
    _ENVS.clear()
    _SRC.clear()
    A_T.clear()
    if P.get("modeA"):
        _compile_A()


def DOM(dim):
    """Allowed values (indices into the dimension's table) of this condition."""
    return P.get("dom", {}).get(dim) or list(range(FULL[dim]))


def NPIECE(key="pieces"):
    return len(P.get(key) or P.get("pieces") or PIECES)


def _pidx(table, *pieces):
    return [table.index(PIECES.index(p)) for p in pieces]


def _pieces(idx, key="pieces"):
    table = P.get(key) or P.get("pieces")
    return [PIECES[table[i]] if table else PIECES[i] for i in idx]


def _decode(sel):
    """concrete positions inside the condition's domains -> table indices"""
    return {dim: DOM(dim)[sel[i]] for i, dim in enumerate(DIMS)}


# ------------------------------------------------------------------------------------------------ identity translations
def _g(m):
    LOG.append(("gettext", (m,), None))
    return m


def _ng(s, p, n):
    LOG.append(("ngettext", (s, p), n))
    return s if n == 1 else p


def _pg(c, m):
    LOG.append(("pgettext", (c, m), None))
    return m


def _npg(c, s, p, n):
    LOG.append(("npgettext", (c, s, p), n))
    return s if n == 1 else p


class _Translations:
    gettext = staticmethod(_g)
    ngettext = staticmethod(_ng)
    pgettext = staticmethod(_pg)
    npgettext = staticmethod(_npg)


def _loader(name):
    return _SRC[name]


def make_env(install, ae, policy):
    key = (install, ae, policy)
    if key in _ENVS:
        return _ENVS[key]
    how, newstyle = INSTALLS[install]
    a = AES[ae]["env"]
    if a == "select":
        a = select_autoescape(enabled_extensions=("html", "xml"))
    elif a == "select_nostr":
        a = select_autoescape(default_for_string=False)
    env = Environment(extensions=["jinja2.ext.i18n"], autoescape=a, loader=FunctionLoader(_loader), cache_size=0)
    env.policies["ext.i18n.trimmed"] = policy
    if how == "callables":
        env.install_gettext_callables(_g, _ng, newstyle=newstyle, pgettext=_pg, npgettext=_npg)
    elif how == "callables_envflag":
        env.newstyle_gettext = True
        env.install_gettext_callables(_g, _ng, pgettext=_pg, npgettext=_npg)
    elif how == "null":
        env.install_null_translations(newstyle=newstyle)
    else:
        env.install_gettext_translations(_Translations(), newstyle=newstyle)
    _ENVS[key] = env
    return env


# ------------------------------------------------------------------------------------------------ source + reference model
def body_src(pieces):
    return "".join(s if k == "t" else "{{ %s }}" % s for k, s in pieces)


def build_src(ctx, trim, decl, plz, sing, plur, wrap):
    parts = []
    mod, pos = TRIMS[trim]
    tag = "{% trans"
    if CTXS[ctx] is not None:
        tag += ' "%s"' % CTXS[ctx]
    if mod and pos == "first":
        tag += " " + mod
    decls = ", ".join(n if e is None else "%s=%s" % (n, e) for n, e, _ in DECLS[decl])
    if decls:
        tag += " " + decls
    if mod and pos == "last":
        tag += (", " if decls else " ") + mod
    tag += " %}"
    parts.append(tag)
    parts.append(body_src(sing))
    if PLZ[plz] is not None:
        parts.append("{% pluralize " + PLZ[plz][0] + " %}" if PLZ[plz][0] else "{% pluralize %}")
        parts.append(body_src(plur))
    parts.append("{% endtrans %}")
    block = "".join(parts)
    if wrap:
        block = "{% autoescape " + wrap + " %}" + block + "{% endautoescape %}"
    return "<p>" + block + "</p>"


_LB = re.compile(r"[ \t\r\f\v]*\n[ \t\r\f\v\n]*")


def ref_trim(s):
    """Documented: replace all line breaks and the whitespace surrounding them with one space, remove leading/trailing whitespace."""
    return _LB.sub(" ", s.strip(" \t\r\f\v\n"))


def model(ctx, trim, policy, decl, plz, sing, plur, values, eff):
    """None for an ill-formed block, else (expected text, counter or None, is_plural_block, body shown)."""
    declared = {}
    for name, _e, key in DECLS[decl]:
        declared[name] = values[key]

    def val(nm):
        return declared[nm] if nm in declared else values[nm]

    counter = None
    body = sing
    if PLZ[plz] is not None:
        nm = PLZ[plz][0]
        if nm:
            if nm not in declared:
                return None
            counter = declared[nm]
        elif declared:
            counter = next(iter(declared.values()))
        else:
            refs = [s for k, s in sing if k == "v"]
            if not refs:
                return None
            counter = val(refs[0])
        if not (counter == 1):
            body = plur
    mod = TRIMS[trim][0]
    trimmed = policy if mod is None else (mod == "trimmed")
    # template text with opaque placeholders, trimmed before substitution
    text = "".join(s if k == "t" else "\ue000" + s + "\ue001" for k, s in body)
    if trimmed:
        text = ref_trim(text)

    def show(m):
        v = val(m.group(1))
        if eff and not hasattr(v, "__html__"):
            return ESC(str(v))
        return str(v)

    return "<p>" + re.sub("\ue000(.*?)\ue001", show, text) + "</p>", counter, PLZ[plz] is not None, body


def _strings(msg):
    if msg is None:
        return ()
    if isinstance(msg, str):
        return (msg,)
    return tuple(m for m in msg if m is not None)


def extracted_sets(env, src, newstyle, policy):
    """Three extraction routes -> list of sets of (function, tuple of string arguments)."""
    ast = env.parse(src)
    r1 = {(f, _strings(m)) for _l, f, m in extract_from_ast(ast)}
    r2 = {(f, _strings(m)) for _l, f, m in extract_from_ast(ast, GETTEXT_FUNCTIONS, babel_style=False)}
    opts = {"silent": "false", "trimmed": "true" if policy else "false", "newstyle_gettext": "true" if newstyle else "false"}
    r3 = {(f, _strings(m)) for _l, f, m, _c in babel_extract(io.BytesIO(src.encode("utf-8")), GETTEXT_FUNCTIONS, [], opts)}
    r4 = {(f, _strings(m)) for _l, f, m in env.extract_translations(src)}
    return [r1, r2, r3, r4]


def KNOWN_PERCENT(install, decl, sing, plur, chosen):
    """SUSPECTED_DEFECTS[0]: old style + declared variables + no reference in either body + '%' in the text that is shown.
    Repaired in /repo ("fix: a literal percent sign in a trans block with unused declared variables"): nothing is excluded."""
    return False
    if INSTALLS[install][1]:
        return False
    if not DECLS[decl]:
        return False
    if any(k == "v" for k, _s in sing + plur):
        return False
    return any("%" in s for _k, s in chosen)


def known_percent_ok():
    """Witness for SUSPECTED_DEFECTS[0] (returns False while the defect is present)."""
    env = Environment(extensions=["jinja2.ext.i18n"])
    env.install_null_translations()
    try:
        return env.from_string("{% trans a=x %}100%{% endtrans %}").render(x=1) == "100%"
    except ValueError:
        return False


def run_block(ctx, trim, policy, decl, plz, x, n, install, ae, sing, plur):
    values = dict(FREE, x=XV[x], n=NV[n])
    a = AES[ae]
    exp = model(ctx, trim, policy, decl, plz, sing, plur, values, a["eff"])
    if exp is None:
        return True          # ill-formed block (decided by the model, not by the implementation)
    text, counter, is_plural, chosen = exp
    if KNOWN_PERCENT(install, decl, sing, plur if is_plural else [], chosen):
        return True
    env = make_env(install, ae, policy)
    src = build_src(ctx, trim, decl, plz, sing, plur, a["wrap"])
    if a["name"] is None:
        tmpl = env.from_string(src)
    else:
        _SRC[a["name"]] = src
        tmpl = env.get_template(a["name"])
    del LOG[:]
    out = tmpl.render(flag=a.get("flag"), **values)
    if out != text:
        return False
    how, newstyle = INSTALLS[install]
    if how == "null":
        return True
    calls = list(LOG)
    if len(calls) < 1:
        return False
    fn_expected = ("n" if is_plural else "") + ("p" if CTXS[ctx] is not None else "") + "gettext"
    fn_expected = {"npgettext": "npgettext", "ngettext": "ngettext", "pgettext": "pgettext", "gettext": "gettext"}[fn_expected]
    routes = extracted_sets(env, src, newstyle, policy)
    for fn, strings, num in calls:
        if fn != fn_expected:
            return False
        if CTXS[ctx] is not None and strings[0] != CTXS[ctx]:
            return False
        if is_plural and not (num == counter and type(num) is type(counter)):
            return False
        for r in routes:
            if (fn, strings) not in r:
                return False
    return True


# ------------------------------------------------------------------------------------------------ babel_extract options
# The extractor builds its own Environment from string options; with the same lexer options as the rendering environment it
# must see the same message strings the rendered template hands to gettext.
BX_SRC = [
    "{% trans %}\n    {{ a }} apple, 100% fresh\n    {% endtrans %}\n",
    "<p>\n  {% trans count=n %}\n    one {{ count }}\n  {% pluralize %}\n    many {{ count }}\n  {% endtrans %}\n</p>",
    "  {% trans trimmed %}\n  x {{ a }}\n   y\n  {% endtrans %}  \n{{ _('  lit\n') }}",
    "{% trans %}a{% endtrans %}\n   {%- trans %} b {% endtrans -%}   \n{% trans %}\nc{% endtrans %}\n",
    "    {% if a %}\n    {% trans %}\n      in if\n    {% endtrans %}\n    {% endif %}\n{{ ngettext('s', 'p', n) }}",
]
BX_DELIMS = [dict(), dict(variable_start_string="${", variable_end_string="}"), dict(line_statement_prefix="#", line_comment_prefix="//")]


def _bx_native(si, trim, lstrip, ktn, newstyle, di):
    d = BX_DELIMS[di]
    src = BX_SRC[si]
    if "variable_start_string" in d:
        src = src.replace("{{", "${").replace("}}", "}")
    env = Environment(extensions=["jinja2.ext.i18n"], trim_blocks=trim, lstrip_blocks=lstrip, keep_trailing_newline=ktn, **d)
    env.install_gettext_callables(_g, _ng, newstyle=newstyle, pgettext=_pg, npgettext=_npg)
    del LOG[:]
    env.from_string(src).render(a="A", n=3)
    calls = list(LOG)
    del LOG[:]
    opts = {"trim_blocks": str(trim).lower(), "lstrip_blocks": str(lstrip).lower(), "keep_trailing_newline": str(ktn).lower(),
            "newstyle_gettext": str(newstyle).lower(), "silent": "false"}
    opts.update(d)
    alias = lambda f: "gettext" if f == "_" else f      # noqa: E731  (_ is the conventional alias of gettext)
    got = {(alias(f), _strings(m)) for _l, f, m, _c in babel_extract(io.BytesIO(src.encode("utf-8")), GETTEXT_FUNCTIONS, [], opts)}
    got2 = {(alias(f), _strings(m)) for _l, f, m in env.extract_translations(src)}
    if not calls:
        return False
    for fn, strings, _num in calls:
        if (fn, strings) not in got or (fn, strings) not in got2:
            return False
    return got == got2


def babel_opts_ok(src: int, trim: bool, lstrip: bool, ktn: bool, newstyle: bool, delims: int) -> bool:
    """
    pre: 0 <= src < len(BX_SRC) and 0 <= delims < len(BX_DELIMS)
    post: _
    """
    si = pick(src, len(BX_SRC))
    t, l, k, ns = pickb(trim), pickb(lstrip), pickb(ktn), pickb(newstyle)
    di = pick(delims, len(BX_DELIMS))
    with NoTracing():
        return _bx_native(si, t, l, k, ns, di)


def _nseq(k, maxlen):
    return sum(k ** i for i in range(maxlen + 1))


def _unrank(code, k, maxlen):
    """code-th sequence (shorter first, then lexicographic) of <= maxlen symbols out of k"""
    for length in range(maxlen + 1):
        if code < k ** length:
            out = []
            for _ in range(length):
                code, r = divmod(code, k)
                out.append(r)
            return out[::-1]
        code -= k ** length
    raise AssertionError("code out of range")


def rank(seq, k):
    return sum(k ** i for i in range(len(seq))) + sum(c * k ** (len(seq) - 1 - i) for i, c in enumerate(seq))


def block_ok(sing: int, plur: int, ctx: int, trim: int, policy: int, decl: int, plz: int, x: int, n: int, install: int, ae: int) -> bool:
    """
    pre: 0 <= sing < NS1 and 0 <= plur < NS2 and 0 <= ctx < ND[0] and 0 <= trim < ND[1] and 0 <= policy < ND[2] and 0 <= decl < ND[3] and 0 <= plz < ND[4] and 0 <= x < ND[5] and 0 <= n < ND[6] and 0 <= install < ND[7] and 0 <= ae < ND[8]
    post: _
    """
    sel = (pick(ctx, ND[0]), pick(trim, ND[1]), pick(policy, ND[2]), pick(decl, ND[3]), pick(plz, ND[4]), pick(x, ND[5]), pick(n, ND[6]),
           pick(install, ND[7]), pick(ae, ND[8]))
    s = pick(sing, NS1)
    p = pick(plur, NS2)
    with NoTracing():
        d = _decode(sel)
        s = _pieces(_unrank(s, NP1, LS))
        p = _pieces(_unrank(p, NP2, LP), "ppieces")
        if PLZ[d["plz"]] is None and p:
            return True      # the plural body only exists with a pluralize tag
        return run_block(d["ctx"], d["trim"], bool(d["policy"]), d["decl"], d["plz"], d["x"], d["n"], d["install"], d["ae"], s, p)


# ------------------------------------------------------------------------------------------------ direct gettext calls
# (template source, required style or None); every message argument is a single string literal
CALLS = [
    ("{{ gettext('plain') }}", None),
    ("{{ _('al%%ias <b>') }}", None),
    ("{{ ngettext('%(num)s one', '%(num)s many', n) }}", "new"),
    ("{{ ngettext('one', 'many', n) }}", None),
    ("{{ pgettext('c1', 'msg') }}", None),
    ("{{ npgettext('c2', 's', 'p', n) }}", None),
    ("{{ gettext('hi %(a)s', a=x) }}", "new"),
    ("{{ ngettext('%(a)s s', '%(a)s p', n, a=x) }}", "new"),
    ("{{ pgettext('c3', 'm %(a)s', a=x) }}", "new"),
    ("{{ npgettext('c4', 's %(a)s', 'p %(a)s', n, a=x) }}", "new"),
    ("{{ _('x1') ~ _('y1') }}", None),
    ("{% if n == 1 %}{{ _('then') }}{% else %}{{ _('else') }}{% endif %}", None),
    ("{% for i in range(n) %}{{ gettext('loop') }}{% else %}{{ gettext('empty') }}{% endfor %}", None),
    ("{% macro m(t=gettext('default')) %}{{ t }}{{ gettext('body') }}{% endmacro %}{{ m() }}", None),
    ("{% set s = gettext('assigned') %}{{ s }}", None),
    ("{{ none|default(gettext('fallback')) }}", None),
    ("{% trans a=gettext('inner') %}outer {{ a }}{% endtrans %}", None),
    ("{{ gettext('old %(a)s')|format(a=x) }}", "old"),
    ("{% trans %}first{% endtrans %}\n{# c #}\n{% trans 'k' %}second{% endtrans %}\n{{ _('third') }}", None),
    ("{{ gettext(\"dq 'q'\") }}{{ gettext('uni é \\n nl') }}", None),
    ("{% macro m2() %}{{ caller(1) }}{% endmacro %}{% call(v) m2() %}{{ gettext('in call') }}{% endcall %}", None),
    ("{{ {'k': gettext('in dict')}['k'] }}{{ [ngettext('a', 'b', n)][0] }}", None),
]


def call_ok(c: int, n: int, install: int, ae: int) -> bool:
    """
    pre: 0 <= c < len(CALLS) and 0 <= n < ND[6] and 0 <= install < ND[7] and 0 <= ae < ND[8]
    post: _
    """
    c = pick(c, len(CALLS))
    sel = (0, 0, 0, 0, 0, 0, pick(n, ND[6]), pick(install, ND[7]), pick(ae, ND[8]))
    with NoTracing():
        d = _decode(sel)
        src, style = CALLS[c]
        how, newstyle = INSTALLS[d["install"]]
        if style is not None and style != ("new" if newstyle else "old"):
            return True      # keyword placeholders need new style; '|format' after gettext needs old style
        if how == "null":
            return True
        a = AES[d["ae"]]
        env = make_env(d["install"], d["ae"], bool(d["policy"]))
        if a["wrap"]:
            src = "{% autoescape " + a["wrap"] + " %}" + src + "{% endautoescape %}"
        if a["name"] is None:
            tmpl = env.from_string(src)
        else:
            _SRC[a["name"]] = src
            tmpl = env.get_template(a["name"])
        del LOG[:]
        tmpl.render(flag=a.get("flag"), x=XV[d["x"]], n=NV[d["n"]])
        calls = list(LOG)
        if not calls:
            return False
        routes = extracted_sets(env, src, newstyle, bool(d["policy"]))
        for fn, strings, _num in calls:
            for r in routes:
                if (fn, strings) not in r and not (fn == "gettext" and ("_", strings) in r):
                    return False
        return True


# ------------------------------------------------------------------------------------------------ mode A: symbolic counter
# (source, singular text, plural text, expected function, expected strings prefix); the counter is never printed
A_SRC = [
    ("{% trans count=n %}one{% pluralize %}many{% endtrans %}", "one", "many", "ngettext", None),
    ("{% trans a=x, count=n %}one {{ a }}{% pluralize count %}many {{ a }}{% endtrans %}", "one X", "many X", "ngettext", None),
    ("{% trans 'cx' num=n %}one {{ a }}{% pluralize %}many 5% {{ a }}{% endtrans %}", "one A", "many 5% A", "npgettext", "cx"),
    ("{% trans n %}{{ a }} one{% pluralize %}{{ a }} many{% endtrans %}", "A one", "A many", "ngettext", None),
    ("{% trans num=x, count=n %}{{ num }} one{% pluralize count %}{{ num }} many{% endtrans %}", "X one", "X many", "ngettext", None),
    ("{% trans 'cx' count=ident(n), a=x %}one{% pluralize %}{{ a }}{% endtrans %}", "one", "X", "npgettext", "cx"),
]
A_T = {}


A_INSTALLS = (0, 1, 2, 3, 4, 5)
# only variants where autoescaping is effective: with plain strings the generated '"..." % {"count": n}' is executed by
# CrossHair's str.__mod__ model, which realises every value of the mapping (the path tree is then no longer finite)
A_AES = (1, 6, 8)


def _compile_A():
    for install in A_INSTALLS:
        for ae in A_AES:
            env = make_env(install, ae, False)
            for i, row in enumerate(A_SRC):
                src = row[0]
                if AES[ae]["wrap"]:
                    src = "{% autoescape " + AES[ae]["wrap"] + " %}" + src + "{% endautoescape %}"
                A_T[install, ae, i] = env.from_string(src)


A_KEYS = [(i, a) for i in A_INSTALLS for a in A_AES]


def plural_count_ok(n: int, t: int, k: int) -> bool:
    """
    pre: 0 <= t < len(A_SRC) and 0 <= k < len(A_KEYS)
    post: _
    """
    t = pick(t, len(A_SRC))
    k = pick(k, len(A_KEYS))
    install, ae = A_KEYS[k]
    tmpl = A_T[install, ae, t]
    _src, sing, plur, fn, cx = A_SRC[t]
    del LOG[:]
    out = tmpl.render(n=n, x="X", a="A", flag=AES[ae].get("flag"), ident=FREE["ident"])
    if INSTALLS[install][0] != "null":
        if len(LOG) != 1:
            return False
        f, strings, num = LOG[0]
        if f != fn or (cx is not None and strings[0] != cx):
            return False
        if not (num == n):
            return False
    if n == 1:
        return out == sing
    return out == plur


# ------------------------------------------------------------------------------------------------ conditions
def _sel(dom, **kw):
    """positions inside a condition's domains of the given table values"""
    out = []
    for dim in DIMS:
        d = dom.get(dim) or list(range(FULL[dim]))
        out.append(d.index(kw[dim]) if dim in kw else 0)
    return out


def _reaches(param, args):
    """True when a concrete argument tuple reaches the oracle comparison (well-formed, not excluded)."""
    setup(param)
    d = _decode(args[2:])
    s = _pieces(_unrank(args[0], NP1, LS))
    p = _pieces(_unrank(args[1], NP2, LP), "ppieces")
    if PLZ[d["plz"]] is None and p:
        return False
    exp = model(d["ctx"], d["trim"], bool(d["policy"]), d["decl"], d["plz"], s, p, dict(FREE, x=XV[d["x"]], n=NV[d["n"]]), AES[d["ae"]]["eff"])
    if exp is None:
        return False
    return not KNOWN_PERCENT(d["install"], d["decl"], s, p if exp[2] else [], exp[3])


def _size(param):
    n = _nseq(len(param["pieces"]), param["ls"]) * _nseq(len(param["ppieces"]), param["lp"])
    for dim in DIMS:
        n *= len(param["dom"][dim])
    return n


def _split(name, param, limit):
    """Split a selector space that is too large for one condition along its largest dimensions."""
    if _size(param) <= limit:
        return [(name, param)]
    dim = max((d for d in DIMS if len(param["dom"][d]) > 1), key=lambda d: len(param["dom"][d]), default=None)
    if dim is None:
        return [(name, param)]
    vals = param["dom"][dim]
    halves = [vals[: (len(vals) + 1) // 2], vals[(len(vals) + 1) // 2:]]
    out = []
    for h in halves:
        sub = dict(param, dom=dict(param["dom"], **{dim: h}))
        out.extend(_split(f"{name}/{dim}={h}", sub, limit))
    return out


def _witnesses(name, param, k=4):
    """k deterministic pseudo-random points of the space that reach the oracle comparison."""
    import random
    import zlib

    rnd = random.Random(zlib.crc32(name.encode()))
    sizes = [_nseq(len(param["pieces"]), param["ls"]), _nseq(len(param["ppieces"]), param["lp"])] + [len(param["dom"][d]) for d in DIMS]
    out = []
    for _ in range(400):
        args = [rnd.randrange(n) for n in sizes]
        if rnd.random() < 0.5:
            args[0] = sizes[0] - 1 - rnd.randrange(max(1, sizes[0] // 2))     # prefer long bodies
        if args not in out and _reaches(param, args):
            out.append(args)
            if len(out) == k:
                break
    return out


def conditions(tier, seed):
    th = tier == "thorough"
    to = 300 if th else 60
    limit = 5000 if th else 1000
    out = []
    pi = {p: i for i, p in enumerate(PIECES)}
    T = lambda s: pi[("t", s)]    # noqa: E731
    V = lambda s: pi[("v", s)]    # noqa: E731
    show = lambda tab: [PIECES[i][1] if PIECES[i][0] == "t" else "{{ %s }}" % PIECES[i][1] for i in tab]    # noqa: E731

    def describe(dom):
        return (f"context {[CTXS[i] for i in dom['ctx']]}; modifier {[TRIMS[i] for i in dom['trim']]}; trimmed policy {[bool(i) for i in dom['policy']]}; "
                f"declared {[', '.join(n if e is None else n + '=' + e for n, e, _k in DECLS[i]) for i in dom['decl']]}; pluralize {[PLZ[i] for i in dom['plz']]}; "
                f"x in {[XV[i] for i in dom['x']]!r}; n in {[NV[i] for i in dom['n']]}; install {[INSTALLS[i] for i in dom['install']]}; "
                f"autoescape variants {dom['ae']}")

    def cond(name, dom, pieces, ppieces, ls, lp, extra_wit=()):
        param0 = dict(dom=dom, pieces=pieces, ppieces=ppieces, ls=ls, lp=lp)
        for nm, param in _split(name, param0, limit):
            wit = _witnesses(nm, param)
            for w in extra_wit:      # hand-written regression samples: (sing pieces, plur pieces, table values)
                try:
                    args = [rank(_pidx(pieces, *w[0]), len(pieces)), rank(_pidx(ppieces, *w[1]), len(ppieces))] + _sel(param["dom"], **w[2])
                except ValueError:
                    continue         # not inside this part of the split
                if args not in wit and _reaches(param, args):
                    wit.append(args)
            out.append(Cond(nm, "block_ok", mode="B", param=param, timeout=to, witnesses=wit,
                            bounds=f"singular body <= {ls} pieces from {show(pieces)!r}, plural body <= {lp} pieces from {show(ppieces)!r}; " + describe(param["dom"])))

    # --- F1: text fidelity / percent signs / trimming: text pieces x style x declared variables, without and with plural
    txt_small = [T(s) for s in ["x", " ", "\n", " \n\t ", "%", "%%", "%(a)s", "%s", "{x}", "}", "<b>", "  y"]] + [V("a"), V("count")]
    txt_full = [T(s) for s in TEXTS] + [V("a"), V("b"), V("count")]
    ptxt = [T("%"), T("%%"), T("%(a)s"), T("x"), T("\n"), V("a"), V("count")] + ([T(" \n\t "), T("%s"), T("{x}")] if th else [])
    style_sets = [[0, 1], [4, 3], [5, 2, 6]] if th else [[0, 1]]
    for trim_dom, pol in ([([0], 0), ([0], 1), ([1, 4], 0), ([2, 3], 1)] if th else [([0, 1], 0), ([2], 1), ([4], 0)]):
        for st in style_sets:
            main = st == [0, 1]
            dom = dict(ctx=[0], trim=trim_dom, policy=[pol], decl=[0, 1], plz=[0], x=[1], n=[0], install=st, ae=[pol])
            wit = [([("t", "%"), ("v", "a")], [], dict(install=st[0])), ([("t", " \n\t "), ("t", "x")], [], dict(install=st[1], trim=trim_dom[-1], decl=1)),
                   ([("t", "%(a)s"), ("t", "{x}")], [], dict(install=st[-1], decl=0))]
            if th:
                cond(f"text[all pieces,trim={trim_dom},policy={pol},install={st}]", dom, txt_full, txt_full, 2, 0, wit)
            if main:
                cond(f"text[trim={trim_dom},policy={pol},install={st}]", dom, txt_small, txt_small, 3 if th else 2, 0, wit)
            for decl_dom in ([[2, 3], [8, 9]] if th and main else [[3]]):
                dom = dict(ctx=[0], trim=trim_dom if th else trim_dom[-1:], policy=[pol], decl=decl_dom, plz=[1], x=[1], n=[0, 1], install=st, ae=[pol])
                ls, lp = ((1, 2) if main else (1, 1)) if th else ((1, 2) if pol == 0 and trim_dom[-1] == 1 else (1, 1))
                cond(f"text+plural[trim={dom['trim']},policy={pol},decl={decl_dom},install={st}]", dom, ptxt, ptxt, ls, lp,
                     [([("t", "%")], [("t", "%%"), ("v", "a")][:lp], dict(install=st[0], n=0)), ([("v", "count")], [("t", "%(a)s")], dict(install=st[1], n=1)),
                      ([], [("t", "\n"), ("t", "x")][:lp], dict(install=st[-1], n=0, decl=decl_dom[-1]))])

    # --- F2: counters: declared variables x pluralize x counter value x references in both bodies
    refs = [V("count"), V("num"), V("a"), V("n"), T("x")] + ([T("%")] if th else [])

    def well_formed(plz):   # declaration lists for which the block is well-formed (others are skipped by the model anyway)
        return [i for i, d in enumerate(DECLS) if PLZ[plz][0] == "" or PLZ[plz][0] in [n for n, _e, _k in d]]

    for plz in range(1, len(PLZ)):
        for st in ([[0, 1], [4, 5, 6], [2, 3]] if th else [[0, 1]]):
            for cx in ([[0], [1]] if th else [[1] if plz == 3 else ([0, 1] if plz == 5 else [0])]):
                dom = dict(ctx=cx, trim=[0], policy=[0], decl=well_formed(plz), plz=[plz], x=[1, 4] if th and st == [0, 1] else [1],
                           n=[0, 1] if not th and plz != 5 else [0, 1, 2, 3], install=st, ae=[1])
                cond(f"counter[plz={PLZ[plz]},ctx={cx},install={st}]", dom, refs, refs, 1, 1,
                     [([("v", "count")], [("v", "num")], dict(n=0, install=st[0])), ([("v", "num")], [("v", "a")], dict(n=1, install=st[1])),
                      ([("v", "n")], [("t", "x")], dict(n=1, install=st[0], ctx=cx[-1]))])

    # --- F3: escaping: value table x every autoescape variant x every install x declared/free reference x plural or not
    for install in range(len(INSTALLS)):
        new = INSTALLS[install][1]
        for plz in ((0, 1) if th or install < 2 else (0,)):
            esc = [V("a"), V("num"), V("context"), T("<b>")] if th or not plz else [V("a"), V("num")]
            dom = dict(ctx=[0, 2] if th or (install in (0, 1, 5) and not plz) else ([2] if new else [0]), trim=[0], policy=[0],
                       decl=[1, 5] if plz == 0 else [3], plz=[plz],
                       x=list(range(len(XV))) if th or (install < 2 and not plz) else ([1, 2] if plz else [1, 2, 3, 4]), n=[0, 1] if plz else [0], install=[install],
                       ae=list(range(len(AES))))
            cond(f"escape[install={INSTALLS[install]},plz={PLZ[plz]}]", dom, esc, esc, 2 if th and not plz else 1, 1 if plz else 0,
                 [([("v", "a")], [("v", "num")] if plz else [], dict(x=1, ae=1)), ([("v", "num")], [("v", "a")] if plz else [], dict(x=2, ae=8, ctx=dom["ctx"][-1])),
                  ([("v", "a")], [("v", "a")] if plz else [], dict(x=1, ae=10)), ([("v", "a")], [("v", "a")] if plz else [], dict(x=2, ae=3))])

    # --- F4: trimmed policy x modifier x position x whitespace shapes, with extraction under the same policy
    ws = [T(" "), T("\n"), T(" \n\t "), T("x"), V("a")] + ([T("  y")] if th else [])
    for st in ([0, 1, 4, 5] if th else [0, 1]):
        dom = dict(ctx=[st % 2], trim=list(range(len(TRIMS))), policy=[0, 1], decl=[0, 1] if th else [1], plz=[0], x=[5], n=[0], install=[st], ae=[0])
        L = 4 if th and st < 2 else 3
        cond(f"trim[install={INSTALLS[st]}]", dom, ws, ws, L, 0,
             [([("t", "\n"), ("t", "x"), ("t", " \n\t ")], [], dict(trim=1, policy=0)), ([("t", " \n\t "), ("v", "a"), ("t", "\n")], [], dict(trim=0, policy=1)),
              ([("t", " "), ("t", "x"), ("t", "\n")], [], dict(trim=4, policy=1))])

    # --- F5: direct gettext calls: extraction covers every recorded message
    dom = dict(ctx=[0], trim=[0], policy=[0], decl=[0], plz=[0], x=[1], n=[0, 1, 2], install=[0, 1, 4, 5, 6], ae=[0, 1, 8] if not th else list(range(len(AES))))
    out.append(Cond("calls", "call_ok", mode="B", param=dict(dom=dom, pieces=[0], ppieces=[0], ls=0, lp=0), timeout=to,
                    witnesses=[[0] + _sel(dom)[6:], [2] + _sel(dom, install=1, n=1)[6:], [16] + _sel(dom, install=4, ae=8)[6:], [18] + _sel(dom, install=5, n=2)[6:],
                               [17] + _sel(dom, install=4, n=2)[6:]],
                    bounds=f"{len(CALLS)} templates with gettext/_/ngettext/pgettext/npgettext calls on string literals (in if/for/macro/set/filter argument/"
                           "trans variable/call block) x recording installs x autoescape variants x counter values"))

    # --- mode A: any integer counter
    out.append(Cond("plural[any int n]", "plural_count_ok", mode="A", param=dict(modeA=True), timeout=to,
                    witnesses=[[1, 0, 0], [0, 2, 4], [-7, 5, 11], [2 ** 70, 3, 7], [1, 4, 17]],
                    bounds=f"n: any int; {len(A_SRC)} pluralising blocks (counter not printed) x installs (callables/null/translations, old/new) x effective autoescape "
                           "(env flag, autoescape block, runtime flag)"))
    setup(None)
    out.append(Cond("babel_extract with lexer options", "babel_opts_ok", mode="B", param={}, timeout=120,
                    witnesses=[[0, False, True, False, True, 0], [1, True, False, False, False, 1], [2, True, True, True, True, 2], [4, False, False, True, False, 0]],
                    bounds=f"{len(BX_SRC)} multi-line templates x trim_blocks x lstrip_blocks x keep_trailing_newline x newstyle x {len(BX_DELIMS)} delimiter sets: every message handed to gettext at render time is among the messages babel_extract (same options as strings) and extract_translations report"))
    return out
