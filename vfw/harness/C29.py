"""C29 — rendering is repeatable and does not modify its inputs.

Property: rendering does not modify the data passed in, the environment globals or the template globals (other
than through callables the data itself provides), and rendering the same template again or after other templates
gives the same output as a single isolated render.

Every check builds *fresh* ``Environment`` objects (real ``DictLoader``, real loading) for each path; compiled code
is shared between them only through jinja2's own ``BytecodeCache`` interface (an in-memory store per configuration):

* one *isolated* environment in which the template under test ``T`` is loaded and rendered exactly once, and
* shared environments in which ``T`` and another template ``O`` are rendered in the sequences ``T O T T`` and
  ``O T T`` with the *same* data object.

Every render of ``T`` must give the isolated result (text, and the values observed through a recording callable,
frozen at the time of the call); afterwards the data object, the dict handed to ``render``, ``environment.globals``,
the dict given as ``globals=`` and the ``globals`` of every template in the environment's cache must be structurally
identical (types, order, contents) to deep snapshots taken before the first render.

* ``rep[...]`` (mode A): skeleton templates (container filters with container arguments, ``set``/namespaces,
  loops that assign, macros with mutable defaults, call blocks, imports with cached modules, includes,
  inheritance) on containers built from symbolic ``List[int]`` / ints / a flag: nested lists, dicts of ints,
  dicts of lists, lists of dicts; environment globals and template globals are containers of the same symbolic ints.
  Quick tier: ``T O T`` in one fresh environment whose first render is the isolated one; template globals given to
  the template (``tg``) or, for templates that import / include / extend, also to the environment (``notg``: the
  template then has no extra globals, so its imports use the *cached* modules).  Thorough: both sequences against a
  separate isolated environment, both ways of giving the globals.
* ``tab[...]`` (mode B): selectors (template, data row, combination of other template / order / globals placement)
  decoded by forks; natively: a table of one-expression templates using every built-in filter that takes container
  data or container-valued arguments, plus statement templates and the skeletons, on concrete rows (strings, Markup,
  objects, tuples, empties), autoescape on and off.
* ``imp[...]`` (mode B): module caching of imported templates versus template globals: importer A and importer B
  (import / from-import / with context / through include / through extends / through another module / include
  without context) each loaded without extra globals, with ``get_template(..., globals=)``,
  ``from_string(..., globals=)`` or by a cache hit that updates the globals; optionally the library's module
  pre-filled through ``Template.module``, optionally a render that fails first (a global callable raising inside the
  library body); rendered A B A B in one environment; each render equals the isolated one (so a library imported
  first without extra globals and then by a template that has them shows them, and the reverse; nothing leaks).

All of it sync, and async (``render_async`` driven without an event loop).
"""
from typing import List

from markupsafe import Markup

from jinja2 import DictLoader, Environment, meta
from jinja2.bccache import BytecodeCache
from jinja2.runtime import Undefined
from jinja2.utils import Namespace
from vfw.core import Cond, pick, pickb
from vfw.support import NoTracing, drive

FUNCTIONS = [
    "jinja2.runtime.new_context / Context.__init__ / get_all / get_exported / derived",
    "jinja2.environment.Template.render / render_async / new_context / make_module(_async) / _get_default_module(_async)",
    "jinja2.environment.Environment.get_template / _load_template / from_string / make_globals / select_template",
    "jinja2.environment.TemplateModule.__init__",
    "jinja2.runtime.Macro / LoopContext / AsyncLoopContext / BlockReference / TemplateReference / Namespace",
    "jinja2.filters: do_sum do_join do_sort do_reverse do_map select/reject/selectattr/rejectattr do_batch do_slice do_unique "
    "do_groupby do_dictsort do_list do_items do_xmlattr do_tojson do_attr do_first do_last do_min do_max do_length "
    "do_urlencode do_pprint do_format do_default do_forceescape (sync and async variants)",
    "generated code for set / namespace assignment / for / macro / call / import / from-import / include / extends / "
    "block / with / filter block / set block (sync and async)",
]
OUTSIDE = [
    "concurrent renders from several OS threads (CPython thread interleaving of C-implemented container operations "
    "cannot be encoded in per-path symbolic execution); only sequential histories are checked",
    "mode A: lists longer than the stated bound; mode B: data outside the concrete rows, templates outside the tables",
    "mutation through callables the data provides (list.append called from a template), generators/iterators as data "
    "(consumed by design), the random filter, lipsum, cycler/joiner objects kept across renders",
    "template globals changed through the API between two renders (get_template(name, globals=...) on a cache hit "
    "after the first render)",
]
ASSUMPTIONS = [
    "environments are created and templates compiled natively (inside NoTracing) on every path; only rendering and the "
    "comparisons run under tracing (mode A)",
    "an isolated render is a render in a fresh Environment with equal globals in which only that template was requested",
    "async code is driven with coroutine.send(None) (nothing in the data really suspends)",
]
SUSPECTED_DEFECTS = [
    "a namespace created at the top level of an imported template lives in the cached module (Template._module) and keeps "
    "its state across renders: with lib = \"{% set ns = namespace(c=0) %}{% macro bump() %}{% set ns.c = ns.c + 1 %}"
    "{{ ns.c }}{% endmacro %}\" and main = \"{% import 'lib' as lib %}{{ lib.bump() }}\", main renders '1' the first "
    "time and '2' the second time in the same Environment (no callable of the data involved).  Table entry s_nsmod is "
    "excluded from tab[...] by the precondition.",
]


# ------------------------------------------------------------------------------------------------ observation
def freeze(v):
    """Copy of a recorded value that later mutation cannot reach."""
    if isinstance(v, Undefined):
        return ("<undefined>",)
    if isinstance(v, (list, tuple)):
        return [freeze(x) for x in v]
    if isinstance(v, dict):
        return [("<dict>",)] + [[freeze(k), freeze(x)] for k, x in v.items()]
    if isinstance(v, Namespace):
        return [("<ns>",)] + [[k, freeze(x)] for k, x in v._Namespace__attrs.items()]
    if isinstance(v, Obj):
        return [("<obj>",), freeze(v.__dict__)]
    return v


class Log:
    def __init__(self):
        self.log = []

    def __call__(self, tag, *vals):
        self.log.append([tag] + [freeze(x) for x in vals])
        return ""


class Obj:
    def __init__(self, name, tags, meta):
        self.name = name
        self.tags = tags
        self.meta = meta

    def __eq__(self, o):
        return isinstance(o, Obj) and self.__dict__ == o.__dict__

    __hash__ = None

    def __repr__(self):
        return "Obj(%r, %r, %r)" % (self.name, self.tags, self.meta)


def clone(v):
    """Deep snapshot (containers copied, immutable leaves and callables shared)."""
    if isinstance(v, list):
        return [clone(x) for x in v]
    if isinstance(v, tuple):
        return tuple(clone(x) for x in v)
    if isinstance(v, dict):
        return {k: clone(x) for k, x in v.items()}
    if isinstance(v, Obj):
        return Obj(clone(v.name), clone(v.tags), clone(v.meta))
    return v


def same(a, b):
    """Structural identity: same types, same order, same contents."""
    if type(a) is not type(b):
        return False
    if isinstance(a, (list, tuple)):
        if len(a) != len(b):
            return False
        for x, y in zip(a, b):
            if not same(x, y):
                return False
        return True
    if isinstance(a, dict):
        if list(a.keys()) != list(b.keys()):
            return False
        for k in a:
            if not same(a[k], b[k]):
                return False
        return True
    if isinstance(a, Obj):
        return same(a.__dict__, b.__dict__)
    if isinstance(a, (int, float, str, bool)) or a is None:
        return a == b
    return a is b  # functions, classes: must be the very same object


# ------------------------------------------------------------------------------------------------ templates
def R(tag, *exprs):
    return "{{ rec('%s', %s) }}" % (tag, ", ".join(exprs))


SKEL = {
    "a_sum": R("s1", "nest|sum(start=acc)") + R("s2", "xs|sum(start=n)") + R("s3", "items|sum(attribute='v', start=GL)")
             + R("s4", "nest|sum(start=TL)") + R("s5", "nest|sum(start=[])") + R("s6", "nest|map('sum')|list", "GL|sort")
             + R("s7", "dl|dictsort|map('last')|sum(start=acc)") + "{% if nest|sum(start=acc)|length > 2 %}L{% endif %}",
    "a_sort": R("o1", "xs|sort") + R("o2", "xs|sort(reverse=b)") + R("o3", "xs|reverse|list") + R("o4", "items|sort(attribute='k')")
              + R("o5", "nest|sort") + R("o5b", "TD.k|sort(reverse=true)", "nest|first", "nest|last"),
    "a_minmax": R("o6", "xs|min", "xs|max", "xs|first", "xs|last") + R("o7", "d|dictsort")
                + R("o8", "d|dictsort(by='value', reverse=b)") + R("o9", "TL|reverse|list")
                + R("o10", "items|max(attribute='k')", "nest|min"),
    "a_map": R("m1", "xs|map('abs')|list") + R("m2", "items|map(attribute='v')|list") + R("m2b", "nest|map('sum')|list", "TD.k|map('abs')|list"),
    "a_map2": R("m7", "nest|map('first')|list", "nest|map('reverse')|map('list')|list")
              + R("m8", "items|map(attribute='zz', default=acc)|list") + R("m9", "xs|select('in', acc)|list", "nest|select|list"),
    "a_select": R("m3", "xs|select('gt', n)|list", "TD.k|reject('gt', n)|list"),
    "a_reject": R("m4", "xs|reject('ge', m)|list") + R("m5", "items|selectattr('k', 'ge', m)|list")
                + R("m6", "items|rejectattr('v')|list", "items|selectattr('v')|list"),
    "a_batch": R("b1", "xs|batch(2, acc)|list") + R("b2", "xs|slice(2, acc)|list") + R("b3", "xs|unique|list")
               + R("b4", "items|groupby('k')|map('list')|list") + R("b5", "items|unique(attribute='k')|list")
               + R("b6", "xs|list", "d|items|list", "dl|list", "dl|length", "nest|batch(1)|list")
               + R("b7", "dl|items|map('last')|list", "missing|default(acc)", "xs + acc", "[xs, acc]", "{'a': xs, 'd': d}", "xs[1:]", "dl.p"),
    "a_setns": "{% set ns = namespace(c=n, l=[], d={}) %}{% for x in xs %}{% set ns.c = ns.c + x %}{% set ns.l = ns.l + [x] %}"
               "{% if x > n %}{% set ns.big = x %}{% endif %}{% endfor %}" + R("ns", "ns.c", "ns.l", "ns.big|default(-1)")
               + "{% set q = xs %}{% set q = q + [n] %}{% set GL = GL + [m] %}{% set TL = [TL, acc] %}{% set a, bb = TL %}"
               + R("q", "q", "GL", "TL", "a", "bb") + "{% set blk %}" + R("blk", "acc") + "t{% endset %}" + R("blklen", "blk|length")
               + "{% with acc = acc + [1], w = d %}" + R("with", "acc", "w") + "{% endwith %}"
               + "{% filter upper %}f" + R("flt", "nest") + "{% endfilter %}" + R("end", "acc", "d", "ns"),
    "a_loops": "{% for x in xs %}{% set acc2 = acc + [x] %}"
               + R("l", "loop.index0", "loop.revindex", "loop.length", "loop.first", "loop.last", "acc2", "loop.previtem",
                   "loop.nextitem", "loop.cycle(TL, GL)", "loop.changed(x)")
               + "{% else %}" + R("empty", "xs") + "{% endfor %}"
               + "{% for x in xs if x > n %}" + R("f", "x", "loop.index") + "{% endfor %}"
               + "{% for a in nest recursive %}" + R("r", "a", "loop.depth") + "{% if a is sequence %}{{ loop(a) }}{% endif %}{% endfor %}"
               + "{% for k, v in d|dictsort %}" + R("kv", "k", "v") + "{% endfor %}"
               + "{% for k, v in dl.items() %}" + R("it", "k", "v") + "{% endfor %}"
               + "{% for x in xs|reverse %}{% for y in acc %}" + R("xy", "x", "y", "loop.index") + "{% endfor %}{% endfor %}"
               + "{% set acc = 0 %}{% for x in xs %}{% set acc = acc + x %}{% endfor %}" + R("acc", "acc"),
    "a_macros": "{% macro mm(a, l=[], dd={}) %}{% set l = l + [a] %}" + R("m", "a", "l", "dd", "varargs", "kwargs") + "{% endmacro %}"
                "{{ mm(n) }}{{ mm(m, acc) }}{{ mm(n, acc, d, 1, z=xs) }}{% for x in xs %}{{ mm(x, dd={'x': [x]}) }}{% endfor %}{{ mm(m) }}"
                "{% macro w(seq) %}{% for q in seq %}{{ caller(q, acc) }}{% endfor %}{% endmacro %}"
                "{% call(q, a2) w(xs) %}" + R("c", "q", "a2 + [q]") + "{% endcall %}"
                "{% macro dflt(a=acc, g=GL) %}" + R("dflt", "a", "g") + "{% endmacro %}{{ dflt() }}{{ dflt(xs) }}",
    # macros of an imported module cannot see rec (not in their context): the recorder is passed in
    "a_lib": "{% set LV = [1, 2] %}{% set LD = {'k': [3]} %}"
             "{% macro mm(r, a, l=[]) %}{% set l = l + [a] + LV %}{{ r('mm', a, l, LD) }}{% endmacro %}"
             "{% macro ctxm(r) %}{{ r('ctxm', xs|default(-1), GL, TL|default(-2)) }}{% endmacro %}lib",
    "a_import": "{% import 'a_lib' as lib %}{% from 'a_lib' import mm as mm2, LV, LD, ctxm as ctxm2 with context %}"
                "{{ lib.mm(rec, n) }}{{ mm2(rec, m, acc) }}{% for x in xs %}{{ lib.mm(rec, x, nest[0] if nest else []) }}{% endfor %}"
                "{{ lib.ctxm(rec) }}{{ ctxm2(rec) }}" + R("lv", "LV + xs", "LD", "lib.LV"),
    "a_inc": "{% set iv = acc + xs %}" + R("inc", "iv", "GL", "TL|default(0)", "loc|default(-1)")
             + "{% for x in xs %}{% set acc = [x] %}{% endfor %}i",
    "a_inc2": "inc2[{{ GL|length }}{{ xs|default([])|length }}{{ TL|default([])|length }}]",
    "a_include": "{% set loc = nest %}{% include 'a_inc' %}{% for x in xs %}{% include 'a_inc' %}{% endfor %}"
                 "{% include 'a_inc2' without context %}{% include ['nope', 'a_inc'] ignore missing %}"
                 "{% include 'nope' ignore missing %}" + R("after", "acc", "iv|default(-1)"),
    "a_base": "{% set bv = acc + [n] %}[{% block one %}" + R("b1", "xs", "bv|default(-1)") + "{% endblock %}"
              "{% for x in xs %}{% block two scoped %}" + R("b2", "x", "acc + [x]") + "{% endblock %}{% endfor %}"
              "{% block three %}{% endblock %}]",
    "a_extends": "{% extends 'a_base' %}{% set cv = nest|sum(start=acc) %}{% block one %}{{ super() }}"
                 + R("c1", "cv|default(-1)", "self.three()|length") + "{% endblock %}{% block three %}" + R("c3", "GL|reverse|list", "TD") + "x{% endblock %}",
    "a_other": "{% set xs = xs + [n] %}{% set acc = [] %}{% import 'a_lib' as lib %}{{ lib.mm(rec, m) }}{{ lib.ctxm(rec) }}"
               "{% set ns = namespace(l=acc) %}{% set ns.l = ns.l + [1] %}{% for x in xs %}{% set GL = [x] %}{% endfor %}"
               "{% include 'a_inc2' without context %}{% include 'a_inc' %}" + R("other", "xs", "nest|sum(start=acc)", "TL", "GL|reverse|list"),
}
A_TEMPLATES = ["a_sum", "a_sort", "a_minmax", "a_map", "a_map2", "a_select", "a_reject", "a_batch", "a_setns", "a_loops", "a_macros", "a_import", "a_include", "a_extends", "a_other"]

# one-expression templates for the mode B table (text output compared)
EXPRS = [
    "xs|sum", "nest|sum(start=acc)", "nest|sum(start=[])", "items|sum(attribute='v', start=acc)", "items|sum(attribute='v', start=GL)",
    "nest|sum(start=TL)", "nest|map('list')|sum(start=acc)",
    "xs|join(',')", "xs|join", "ss|join('<')", "mk|join('|')", "mk|join(mk[0] if mk else '')", "items|join(', ', attribute='s')",
    "nest|join(';')", "tup|join('-')", "d|join('+')", "objs|join(',', attribute='tags')",
    "xs|sort", "xs|sort(reverse=true)", "ss|sort", "ss|sort(case_sensitive=true)", "items|sort(attribute='k')",
    "items|sort(attribute='s,k')", "nest|sort", "objs|sort(attribute='name', reverse=true)|map(attribute='tags')|list", "tup[1]|sort",
    "xs|reverse|list", "ss|reverse|list", "nest|reverse|list", "'abc'|reverse", "tup|reverse|list",
    "xs|map('string')|list", "items|map(attribute='v')|list", "items|map(attribute='zz', default=acc)|list", "nest|map('sum')|list",
    "nest|map('sort', reverse=true)|list", "nest|map('join', ',')|list", "objs|map(attribute='tags')|map('length')|list",
    "ss|map('upper')|list", "nest|map('first')|list", "nest|map('last')|list", "items|map(attribute='v.0')|list",
    "xs|select('gt', n)|list", "xs|reject('odd')|list", "xs|select('in', acc + [1, 2])|list", "nest|select|list", "nest|reject|list",
    "items|selectattr('v')|list", "items|selectattr('k', 'eq', n)|list", "items|rejectattr('k')|list",
    "objs|selectattr('tags')|map(attribute='name')|list", "ss|select('string')|list", "items|selectattr('v', 'sameas', acc)|list",
    "xs|batch(2)|list", "xs|batch(2, acc)|list", "xs|batch(2, fill_with=nest)|list", "xs|slice(2)|list", "xs|slice(2, acc)|list",
    "ss|batch(3, 'f')|map('join')|list", "nest|batch(2, [])|list", "items|slice(2, d)|list",
    "xs|unique|list", "ss|unique|list", "(xs + xs)|unique|list", "items|unique(attribute='k')|list", "nest|map('length')|unique|list",
    "ss|unique(case_sensitive=true)|list",
    "items|groupby('k')", "items|groupby('k')|map(attribute='list')|list", "items|groupby('s', case_sensitive=true)|list",
    "items|groupby('zz', default=n)|list", "objs|groupby('name')|map('first')|list", "items|groupby('s')|map('last')|map('length')|list",
    "d|dictsort", "d|dictsort(reverse=true)", "d|dictsort(by='value')", "dl|dictsort", "dl|dictsort(false, 'value')", "attrs|dictsort(true)",
    "xs|list", "d|list", "tup|list", "'ab'|list", "d|items|list", "dl|items|list", "dl|items|map('last')|list", "missing|items|list",
    "attrs|xmlattr", "attrs|xmlattr(false)", "{'class': ss, 'k': xs}|xmlattr", "dl|xmlattr", "d|xmlattr",
    "d|tojson", "dl|tojson", "items|tojson", "nest|tojson(2)", "tup|tojson", "ss|tojson", "attrs|tojson",
    "objs|map('attr', 'tags')|list", "(objs|first)|attr('meta')", "xs|attr('nope')|default('u')", "d|attr('a')|default('noattr')",
    "xs|first", "xs|last", "nest|first", "nest|last", "d|first", "ss|last", "items|first", "tup|last",
    "xs|min", "xs|max", "ss|min", "ss|max(case_sensitive=true)", "items|max(attribute='k')", "items|min(attribute='s')", "nest|min", "nest|max",
    "xs|length", "d|count", "q|urlencode", "d|items|list|urlencode", "xs|pprint", "dl|pprint", "xs|string", "nest|string",
    "'%s-%s'|format(xs, d)", "'%(a)s'|format(**d)", "missing|default(acc)", "acc|default(xs, true)", "xs|safe", "nest|forceescape",
    "ss|e", "dl|escape", "ss|string|striptags", "ss|map('e')|join(',')",
    "xs + acc", "xs * 2", "[xs, acc]", "{'a': xs, 'b': d}", "(xs, acc)", "xs[0]", "xs[1:]", "nest[0]", "d['a']", "d.get('zz', acc)",
    "dl.p", "xs[::-1]", "acc if b else xs", "xs == acc", "1 in xs", "xs is sequence", "d is mapping", "nest|first is iterable",
    "range(n + 2)|list", "dict(a=xs)", "dict(d, z=acc)", "namespace(a=xs).a", "GL", "GD", "TL", "TD", "GD.l + TL", "GD|dictsort|list",
    "TD|items|list", "GL|map('string')|join(TL|join)", "tup[2]|dictsort", "tup[1] + xs", "ss|map('center', 5)|list", "xs|map('float')|list",
    "ss|join(mk|join)", "attrs|items|map('join', '=')|list", "objs|map(attribute='meta')|map('dictsort')|list",
]
STMTS = {
    "s_unpack": "{% set a, bb = (xs, acc) %}{{ a }}{{ bb }}{% for k, v in dl|dictsort %}{{ k }}={{ v|join(',') }};{% endfor %}",
    "s_setlist": "{% set l = acc %}{% set l = l + xs %}{{ l }}{{ acc }}{% set dd = d %}{% set dd = dict(dd, z=1) %}{{ dd|dictsort }}{{ d|dictsort }}",
    "s_nsglob": "{% set ns = namespace(l=GL, d=GD, t=TL) %}{% set ns.l = ns.l + [1] %}{% set ns.t = [] %}{{ ns.l }}{{ ns.d|dictsort }}{{ ns.t }}{{ GL }}{{ TL }}",
    "s_loopset": "{% set tot = [] %}{% for x in xs %}{% set tot = tot + [x] %}{{ tot }}{% endfor %}{{ tot }}"
                 "{% for row in nest %}{% for c in row|sort %}{{ c }}{% else %}e{% endfor %}|{% endfor %}",
    "s_macrodef": "{% macro mm(a, l=[], dd={'k': []}) %}{{ a }}{{ l }}{{ dd }}{% endmacro %}{{ mm(1) }}{{ mm(2, acc) }}{{ mm(3) }}"
                  "{{ mm.arguments }}{{ mm.name }}",
    "s_callblock": "{% macro tbl(rows) %}{% for r in rows %}<{{ caller(r) }}>{% endfor %}{% endmacro %}"
                   "{% call(r) tbl(nest) %}{{ r|sort|join(',') }}{% endcall %}",
    "s_filterblk": "{% filter upper|replace('A', xs|join) %}a{{ ss|join }}{% endfilter %}{% set b2 %}{{ mk|join }}{% endset %}{{ b2|length }}",
    "s_with": "{% with xs = xs + [0], d = dict(d, w=1) %}{{ xs }}{{ d|dictsort }}{% endwith %}{{ xs }}{{ d|dictsort }}",
    "s_autoesc": "{% autoescape true %}{{ ss|join(',') }}{{ mk|join }}{{ xs|join('<') }}{% endautoescape %}"
                 "{% autoescape false %}{{ ss|join(',') }}{{ mk|join }}{% endautoescape %}",
    "s_fromctx": "{% from 'a_lib' import LV, LD %}{{ LV + xs }}{{ LD }}{% import 'a_lib' as l2 %}{{ l2.LV }}{{ l2 }}",
    "s_inc2": "inc2[{{ GL }}{{ xs|default('nox') }}{{ TL|default('notl') }}]",
    "s_inc_nc": "{% include 's_inc2' without context %}{% include 's_inc2' %}{% include ['nope', 's_inc2'] without context %}",
    "s_module": "{% import 's_modlib' as ml %}{{ ml.hello(xs) }}{{ ml.cfg|dictsort }}{{ ml.lst + acc }}",
    "s_modlib": "{% set cfg = {'a': [1], 'b': GL} %}{% set lst = [1, 2] + GL %}{% macro hello(v) %}h{{ v|sort }}{{ lst }}{{ cfg.a }}{% endmacro %}",
    # unchanged tree: state of a namespace in a cached module leaks into the next render (SUSPECTED_DEFECTS) -- excluded
    "s_nslib": "{% set ns = namespace(c=0) %}{% macro bump() %}{% set ns.c = ns.c + 1 %}{{ ns.c }}{% endmacro %}",
    "s_nsmod": "{% import 's_nslib' as lib %}{{ lib.bump() }}",
    # containers handed to the namespace()/dict()/cycler() globals, attribute assignment and set blocks on them
    "s_nsalias": "{% set ns = namespace(d) %}{% set ns.a = 5 %}{% set ns.fresh = xs %}{% set ns.blk %}b{% endset %}{{ ns.a }}{{ ns.blk }}{{ d|dictsort }}"
                 "{% set n2 = namespace(dl, k=1) %}{% set n2.p = 0 %}{{ dl|dictsort }}{% set n3 = namespace(**d) %}{% set n3.a = 0 %}{{ d|dictsort }}",
    "s_dictset": "{% set c = dict(d) %}{% set ns = namespace(c) %}{% set ns.a = 2 %}{{ c|dictsort }}{{ d|dictsort }}{% set cy = cycler(xs, acc) %}{{ cy.next() }}{{ cy.next() }}{{ cy.current }}",
    "s_setdata": "{% set d.zz %}v{% endset %}{{ d|dictsort }}",
    "s_setdata2": "{% set dl.p = 1 %}{{ dl|dictsort }}",
    "s_policy": "{{ d|tojson }}{{ q|urlencode }}{{ ss|join(' ')|urlize }}{{ (ss|join(' ') ~ ' http://x.yz/abcdefghij')|urlize(8, true) }}{{ 'a b c d'|truncate(3) }}",
    "o_mix": "{{ nest|tojson(2)|length }}{{ d|tojson(indent=1)|length }}{{ 'http://a.b/c'|urlize(4, true, target='_top', rel='x', extra_schemes=['x:'])|length }}{{ 'abcdefghijkl'|truncate(5, true, '-', 0) }}"
             "{% set xs = [] %}{% set acc = acc + [0] %}{% from 'a_lib' import LV %}{% import 's_modlib' as ml %}{{ ml.hello(nest|sum(start=[])) }}"
             "{{ items|groupby('k')|list|length }}{{ nest|sum(start=acc) }}{{ GL|sort }}{{ TL|reverse|list }}{% include 's_inc2' without context %}"
             "{% for x in ss|sort %}{% set GL = x %}{% endfor %}{{ d|dictsort }}",
}
SOURCES = dict(SKEL)
SOURCES.update(STMTS)
for _i, _e in enumerate(EXPRS):
    SOURCES["e%03d" % _i] = "{{ " + _e + " }}"
B_TABLE = ["e%03d" % i for i in range(len(EXPRS))] + [
    "s_unpack", "s_setlist", "s_nsglob", "s_loopset", "s_macrodef", "s_callblock", "s_filterblk", "s_with", "s_autoesc", "s_fromctx",
    "s_inc_nc", "s_module", "s_nsmod", "o_mix", "s_nsalias", "s_dictset", "s_setdata", "s_setdata2", "s_policy"] + A_TEMPLATES
B_OTHERS = ["o_mix", "a_import", "a_extends"]

# ---- import scenario templates
_SHOW = "{% macro show(r, a) %}{{ r('show', a, g|default(-1), h|default(-2)) }}{% endmacro %}"
G_FORMS = [
    "{% import 'g_lib' as l %}{{ l.show(rec, 1) }}" + R("top", "l.top", "g|default(-1)"),
    "{% from 'g_lib' import show, top %}{{ show(rec, 2) }}" + R("top", "top"),
    "{% import 'g_lib' as l with context %}{{ l.show(rec, 3) }}" + R("top", "l.top"),
    "{% from 'g_lib' import show with context %}{{ show(rec, 4) }}",
    "{% include 'g_inc' %}" + R("me", "g|default(-1)"),
    "{% extends 'g_base' %}{% block b %}{{ super() }}{% import 'g_lib' as l %}{{ l.show(rec, 6) }}" + R("top", "l.top") + "{% endblock %}",
    "{% import 'g_mid' as mid %}{{ mid.via(rec) }}" + R("midl", "mid.l is defined", "mid.via is defined"),
    "{% include 'g_lib' without context %}{% import 'g_lib' as l %}{{ l.show(rec, 9) }}",
]
G_SOURCES = {
    "g_lib": "{% set top = g|default(-1) %}{% set z = chk() %}" + _SHOW + "[{{ 'G' if g is defined else 'nog' }}{{ 'H' if h is defined else 'noh' }}]",
    "g_inc": R("inc", "g|default(-1)") + "{% import 'g_lib' as l %}{{ l.show(rec, 5) }}" + R("inctop", "l.top"),
    "g_base": "{% import 'g_lib' as bl %}<{% block b %}{{ bl.show(rec, 7) }}" + R("base", "g|default(-1)", "bl.top") + "{% endblock %}>",
    "g_mid": "{% import 'g_lib' as l %}{% macro via(r) %}{{ l.show(r, 8) }}{{ r('mid', g|default(-1)) }}{% endmacro %}",
}
for _i, _s in enumerate(G_FORMS):
    G_SOURCES["g_A%d" % _i] = _s
    G_SOURCES["g_B%d" % _i] = _s
NFORM = len(G_FORMS)
NWAY = 4

P = {}


def setup(param):
    P.clear()
    P.update(param or {})
    CACHES.clear()


def _deps():
    env = Environment()
    direct = {}
    for name, src in SOURCES.items():
        direct[name] = {r for r in meta.find_referenced_templates(env.parse(src)) if r in SOURCES}
    out = {}
    for name in SOURCES:
        seen, todo = set(), [name]
        while todo:
            k = todo.pop()
            for r in direct[k]:
                if r not in seen:
                    seen.add(r)
                    todo.append(r)
        out[name] = sorted(seen)
    return out


DEPS = _deps()


# ------------------------------------------------------------------------------------------------ running
def render(t, data, log):
    """Render with the data dict passed positionally; ('ok', text, log) / ('exc', class name, log)."""
    ctx = dict(data)
    ctx["rec"] = log
    keys = list(ctx.keys())
    try:
        if t.environment.is_async:
            text = drive(t.render_async(ctx))
        else:
            text = t.render(ctx)
        out = ["ok", text, log.log]
    except Exception as e:
        out = ["exc", type(e).__name__, log.log]
    # the mapping handed to render is data too
    if list(ctx.keys()) != keys:
        return ["ctx-modified"]
    for k in data:
        if ctx[k] is not data[k]:
            return ["ctx-modified"]
    return out


class MemCache(BytecodeCache):
    """In-memory store behind jinja2's own bytecode cache interface: every path creates fresh Environments, the
    compiled code of a (name, source) is shared between them inside one worker process (one store per
    async/autoescape configuration, because the cache key does not include the configuration)."""

    def __init__(self):
        self.store = {}

    def load_bytecode(self, bucket):
        b = self.store.get(bucket.key)
        if b is not None:
            bucket.bytecode_from_string(b)

    def dump_bytecode(self, bucket):
        self.store[bucket.key] = bucket.bytecode_to_string()


CACHES = {}


import jinja2.defaults as _jd


# contents of the process-wide default policies at import time (fresh interpreter)
DEFAULT_POLICIES_SNAP = {k: (dict(x) if isinstance(x, dict) else x) for k, x in _jd.DEFAULT_POLICIES.items()}


class Case:
    """A fresh Environment with its own global containers; T and O loaded with template globals."""

    def __init__(self, sources, asyncm, autoescape, eg, loads, preload):
        # loads: list of (key, name, way, tg)
        self.eg_snap = clone(eg)
        self.t = {}
        self.tg = {}
        with NoTracing():
            bc = CACHES.setdefault((asyncm, autoescape), MemCache())
            env = Environment(loader=DictLoader(sources), enable_async=asyncm, autoescape=autoescape, bytecode_cache=bc)
            self.base_globals = dict(env.globals)
            self.pol_snap = clone(env.policies)
            env.globals.update(eg)
            self.env = env
            for key, name, way, tg in loads:
                self.tg[key] = (tg, clone(tg) if tg is not None else None)
                if way == 0 or tg is None:
                    t = env.get_template(name)
                elif way == 1:
                    t = env.get_template(name, globals=tg)
                elif way == 2:
                    t = env.from_string(sources[name], globals=tg)
                else:
                    env.get_template(name)
                    t = env.get_template(name, globals=tg)
                self.t[key] = t
            for name in preload:
                env.get_template(name)

    def globals_ok(self):
        env = self.env
        with NoTracing():
            cached = list(env.cache.values())
            eg_now = dict(env.globals)
            # rendering reads the policies, it never writes them (they are shared with jinja2.defaults)
            import jinja2.defaults as _defaults
            if not same(dict(env.policies), dict(self.pol_snap)) or not same(dict(_defaults.DEFAULT_POLICIES), DEFAULT_POLICIES_SNAP):
                return False
        exp = dict(self.base_globals)
        exp.update(self.eg_snap)
        if not same(eg_now, exp):
            return False
        seen = []
        for key, t in self.t.items():
            tg, snap = self.tg[key]
            seen.append(t)
            own = t.globals.maps[0]
            if t.globals.maps[1] is not env.globals or len(t.globals.maps) != 2:
                return False
            if tg is None:
                if len(own) != 0:
                    return False
            else:
                # the dict given as globals= is an input as well
                if not same(dict(own), snap) or not same(tg, snap):
                    return False
        for t in cached:
            if any(t is s for s in seen):
                continue
            if len(t.globals.maps) != 2 or t.globals.maps[1] is not env.globals or len(t.globals.maps[0]) != 0:
                return False
        return True


def check_repeat(asyncm, autoescape, tname, oname, plans, mkdata, mkeg, mktg, preload, iso_first=False):
    """plans: list of (sequence, notg); notg: T and O are loaded WITHOUT template globals (their imports then use the
    cached modules) and TL/TD are environment globals instead.  iso_first: the first plan starts with T and that first
    render in the fresh environment serves as the isolated render (nothing else was rendered there before)."""
    def case(notg):
        eg = mkeg()
        if notg:
            eg.update(mktg())
        loads = [("T", tname, 0 if notg else 1, None if notg else mktg())]
        if oname != tname:
            loads.append(("O", oname, 0 if notg else 1, None if notg else mktg()))
        return Case(SOURCES, asyncm, autoescape, eg, loads, preload)

    data = mkdata()
    snap = clone(data)
    wants = {}
    for seq, notg in plans:
        if notg not in wants and not (iso_first and not wants):
            iso = case(notg)
            d0 = mkdata()
            s0 = clone(d0)
            wants[notg] = render(iso.t["T"], d0, Log())
            if wants[notg][0] == "ctx-modified" or not same(d0, s0) or not iso.globals_ok():
                return False
        c = case(notg)
        for who in seq:
            if who == "T":
                got = render(c.t["T"], data, Log())
                if notg not in wants:
                    wants[notg] = got
                    if got[0] == "ctx-modified":
                        return False
                elif got != wants[notg]:
                    return False
            else:
                got = render(c.t.get("O", c.t["T"]), data, Log())
                if got[0] == "ctx-modified":
                    return False
        if not c.globals_ok():
            return False
    return same(data, snap)


SEQS = [["T", "O", "T", "T"], ["O", "T", "T"], ["T", "O", "T"]]


# ---- mode A
def MAXX():
    return P.get("maxx", 2)


def MAXY():
    return P.get("maxy", 2)


def rep_ok(xs: List[int], ys: List[int], n: int, m: int, b: bool) -> bool:
    """
    pre: len(xs) <= MAXX() and len(ys) <= MAXY()
    post: _
    """
    def mkdata():
        return dict(xs=[x for x in xs], nest=[[x, n] for x in xs], items=[{"k": x, "v": [x]} for x in xs],
                    d={"a": n, "b": m}, dl={"p": [y for y in ys], "q": [n]}, acc=[y for y in ys], n=n, m=m, b=b)

    def mkeg():
        return dict(GL=[y for y in ys] + [m], GD={"n": n, "l": [m]})

    def mktg():
        return dict(TL=[n, m], TD={"k": [x for x in xs]})

    tname, oname = P["tpl"], P["other"]
    plans = [(SEQS[i], bool(notg)) for i, notg in P["plans"]]
    return check_repeat(bool(P.get("asyncm")), False, tname, oname, plans, mkdata, mkeg, mktg, DEPS[tname] + DEPS[oname],
                        iso_first=bool(P.get("iso_first")))


# ---- mode B table
NROW = 3


def row(i):
    if i == 0:
        return dict(
            xs=[3, 1, 2], nest=[[2, 1], [0], []], acc=[9], n=1, m=5, b=True, d={"b": 2, "a": 1}, dl={"p": [1], "q": [3, 2]},
            items=[{"k": 1, "v": [1], "s": "b"}, {"k": 0, "v": [0, 5], "s": "A"}, {"k": 1, "v": [], "s": "<a>"}],
            ss=["b", "A", "<a>", "a"], mk=[Markup("<b>"), "<i>", 1, None], objs=[Obj("x", [1], {"a": [1]}), Obj("y", [], {})],
            attrs={"class": "a b", "id": 7, "data-x": "<&>", "none": None}, tup=(1, [2, 0], {"z": 3, "y": [4]}),
            q={"a": [1, 2], "b": "x y"})
    if i == 1:
        return dict(xs=[], nest=[], acc=[], n=0, m=0, b=False, d={}, dl={}, items=[], ss=[], mk=[], objs=[], attrs={}, tup=(0, [], {}), q={})
    return dict(
        xs=[-1, 4, 4, 0], nest=[[5], [5], [1, 7, 3]], acc=[0, 0], n=4, m=-2, b=False, d={"a": 7, "B": -1, "c": 7},
        dl={"q": [[1], [0]], "p": []}, items=[{"k": 4, "v": [[4]], "s": "Z"}, {"k": 4, "v": [2], "s": "z"}],
        ss=["&", "x", "X", "x"], mk=[Markup("&amp;"), Markup("<i>")], objs=[Obj("b", [2, 1], {"k": [0]}), Obj("a", [3], {"k": []}), Obj("b", [], {})],
        attrs={"b": [1, 2], "a": Markup("<x>"), "c": False, "d": ""}, tup=((1, 2), [9, 8], {"k": (1,)}), q=[("a", [1]), ("b", "&")])


def row_eg(i):
    return [dict(GL=[2, 1], GD={"n": 1, "l": [5]}), dict(GL=[], GD={}), dict(GL=[0, [1]], GD={"l": [], "k": {"z": [1]}})][i]


def row_tg(i):
    return [dict(TL=[7, 8], TD={"k": [3]}), dict(TL=[], TD={}), dict(TL=[[1], 0], TD={"a": [1], "b": {"c": []}})][i]


# (other template, order, notg) combinations: all 12 in the thorough tier, four in the quick tier
COMBOS_ALL = [(o, order, notg) for o in range(len(B_OTHERS)) for order in (False, True) for notg in (False, True)]
COMBOS_QUICK = [(0, False, False), (1, True, True), (2, False, True), (0, True, False)]
NSMOD = B_TABLE.index("s_nsmod")


def COMBOS():
    return COMBOS_ALL if P.get("allcombos") else COMBOS_QUICK


def TAB_PRE(t, r, c):
    if not (P["lo"] <= t < P["hi"] and 0 <= r < NROW and 0 <= c < len(COMBOS())):
        return False
    # unchanged tree: s_nsmod loaded without template globals uses the cached module of s_nslib whose namespace keeps
    # its state across renders (SUSPECTED_DEFECTS); excluded
    if t == NSMOD and COMBOS()[pick(c, len(COMBOS()))][2]:
        return False
    return True


def tab_ok(t: int, r: int, c: int) -> bool:
    """
    pre: TAB_PRE(t, r, c)
    post: _
    """
    t = pick(t, len(B_TABLE))
    r = pick(r, NROW)
    c = pick(c, len(COMBOS()))
    with NoTracing():
        o, order, notg = COMBOS()[c]
        return check_repeat(bool(P.get("asyncm")), bool(P.get("autoescape")), B_TABLE[t], B_OTHERS[o], [(SEQS[1 if order else 0], notg)],
                            lambda: row(r), lambda: row_eg(r), lambda: row_tg(r), [])


# ---- import / module cache scenario (mode B)
class Outage(Exception):
    pass


class Chk:
    """Environment global called by the body of g_lib; raises while ``down`` is set (a failed render in the history)."""

    def __init__(self):
        self.down = False

    def __call__(self):
        if self.down:
            raise Outage("down")
        return 7


def _imp_case(asyncm, loads, eglob, touch):
    eg = {"chk": Chk()}
    if eglob:
        eg["h"] = 33
    c = Case(G_SOURCES, asyncm, False, eg, loads, [])
    c.chk = eg["chk"]
    if touch:
        c.env.get_template("g_lib").module  # the Python-level API fills the module cache too
    return c


def imp_run(fa, wa, fb, wb, eglob, touch, fail, asyncm):
    def load_a():
        return ("A", "g_A%d" % fa, wa, {"g": 11} if wa else None)

    def load_b():
        return ("B", "g_B%d" % fb, wb, {"g": 22, "gb": [1]} if wb else None)

    want = {}
    for key, ld in (("A", load_a), ("B", load_b)):
        iso = _imp_case(asyncm, [ld()], eglob, False)
        want[key] = render(iso.t[key], {"d": [1]}, Log())
        if not iso.globals_ok() or want[key][0] != "ok":
            return False
    c = _imp_case(asyncm, [load_a(), load_b()], eglob, touch)
    data = {"d": [1]}
    if fail:
        # a render in the history that fails because a global callable raises; it must leave nothing behind
        key = "A" if fail == 1 else "B"
        c.chk.down = True
        got = render(c.t[key], data, Log())
        c.chk.down = False
        if got[0] == "exc":
            if got[1] != "Outage":
                return False
        elif got != want[key]:
            return False
    for key in ("A", "B", "A", "B"):
        if render(c.t[key], data, Log()) != want[key]:
            return False
    return c.globals_ok() and same(data, {"d": [1]})


NFAIL = 3


def IMP_PRE(fa, wa, fb, wb, eglob, touch, fail):
    if not (0 <= fa < NFORM and 0 <= fb < NFORM and 0 <= wa < NWAY and 0 <= wb < NWAY and 0 <= fail < NFAIL and fa == P.get("fa", fa)):
        return False
    if touch and P.get("asyncm"):
        return False  # Template.module is not available in async mode
    if P.get("quick"):
        # quick tier: the two flags are functions of the other selectors instead of free
        return eglob == (fb % 2 == 1) and touch == (wb % 2 == 1 and not P.get("asyncm"))
    return True


def imp_ok(fa: int, wa: int, fb: int, wb: int, eglob: bool, touch: bool, fail: int) -> bool:
    """
    pre: IMP_PRE(fa, wa, fb, wb, eglob, touch, fail)
    post: _
    """
    fa = pick(fa, NFORM)
    wa = pick(wa, NWAY)
    fb = pick(fb, NFORM)
    wb = pick(wb, NWAY)
    eglob = pickb(eglob)
    touch = pickb(touch)
    fail = pick(fail, NFAIL)
    with NoTracing():
        return imp_run(fa, wa, fb, wb, eglob, touch, fail, bool(P.get("asyncm")))


def conditions(tier, seed):
    thorough = tier == "thorough"
    out = []
    to = 300 if thorough else 60
    wits = [[[3, 1], [7], 2, 5, True], [[], [], 1, 0, False], [[2, 2], [0], 3, -1, True]]
    importish = ("a_import", "a_include", "a_extends", "a_other")
    rot = ["a_other", "a_import", "a_extends"]
    for i, tname in enumerate(A_TEMPLATES):
        k = (i + 1) % 3 if thorough else i % 3
        others = [rot[k] if rot[k] != tname else "a_sum"]
        for oname in others:
            for asyncm in (False, True):
                if thorough:
                    variants = [("both", [[0, 0], [1, 1]], False)]
                else:
                    # quick: one environment, T O T; the first render in the fresh environment is the isolated one
                    variants = [("tg", [[2, 0]], True)] + ([("notg", [[2, 1]], True)] if tname in importish else [])
                for vname, plans, iso_first in variants:
                    p = dict(tpl=tname, other=oname, asyncm=asyncm, maxx=3 if thorough else 2, maxy=1,
                             plans=plans, iso_first=iso_first)
                    out.append(Cond(f"rep[{tname},{oname},{vname},{'async' if asyncm else 'sync'}]", "rep_ok", mode="A", param=p, timeout=to,
                                    witnesses=wits,
                                    bounds=f"xs: <= {p['maxx']} arbitrary ints, ys: <= {p['maxy']} arbitrary ints, any ints n, m, any flag; "
                                           + ("sequences T O T T and O T T against a separate isolated render, template globals given to "
                                              "the template and to the environment" if thorough else
                                              "sequence T O T in a fresh environment (first render = isolated render), template globals "
                                              "given to the " + ("environment" if vname == "notg" else "template"))))
    chunk = 25 if thorough else 50
    for asyncm in (False, True):
        for autoescape in (False, True):
            for lo in range(0, len(B_TABLE), chunk):
                p = dict(lo=lo, hi=min(lo + chunk, len(B_TABLE)), asyncm=asyncm, autoescape=autoescape, allcombos=thorough)
                nc = len(COMBOS_ALL if thorough else COMBOS_QUICK)
                out.append(Cond(f"tab[{lo}-{p['hi']},{'async' if asyncm else 'sync'},{'esc' if autoescape else 'raw'}]", "tab_ok", mode="B",
                                param=p, timeout=to, witnesses=[[lo, 0, 0], [p["hi"] - 1, 2, 1], [lo + 7, 1, 2], [lo + 3, 2, 3]],
                                bounds=f"table templates {lo}..{p['hi'] - 1} x {NROW} data rows x {nc} combinations of (other template of "
                                       f"{len(B_OTHERS)}, order T-O-T-T / O-T-T, template globals given to the template / to the environment)"))
    for asyncm in (False, True):
        for fa in range(NFORM):
            p = dict(asyncm=asyncm, fa=fa, quick=not thorough)
            out.append(Cond(f"imp[A{fa},{'async' if asyncm else 'sync'}]", "imp_ok", mode="B", param=p, timeout=to,
                            witnesses=[[fa, 0, 1, 1, True, not asyncm, 0], [fa, 1, 0, 0, False, False, 1], [fa, 3, 5, 2, True, False, 2]],
                            bounds=f"importer form A={fa} x {NWAY} ways of giving template globals x {NFORM} forms B x {NWAY} ways x env global on/off"
                                   " x module pre-touched (sync) x a failing render (global callable raising in the library body) of A / of B / none first"))
    return out


def known_namespace_in_cached_module_ok():
    """Known-finding witness: a namespace created at the top level of an imported template keeps state across renders."""
    from jinja2 import DictLoader as _D, Environment as _E
    e = _E(loader=_D({"lib": "{% set ns = namespace(c=0) %}{% macro bump() %}{% set ns.c = ns.c + 1 %}{{ ns.c }}{% endmacro %}",
                      "main": "{% import 'lib' as lib %}{{ lib.bump() }}"}))
    t = e.get_template("main")
    return t.render() == t.render()
