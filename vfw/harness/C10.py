"""C10 — all rendering entry points produce the same text.

Property: for every template and data, ``render``, ``"".join(generate)``, ``"".join(stream)`` for every buffer
size, ``dump`` to a file object or a path (text and encoded) and ``str()`` of the template module produce the same
text; with buffering enabled every chunk except the last combines exactly the requested number of non-empty pieces.

* kernel (mode A): the real ``TemplateStream`` over a generator driven by a symbolic list of "piece is non-empty"
  flags and a symbolic buffer size.  Non-empty pieces are distinct one-character markers, so ``len(chunk)`` is the
  number of non-empty pieces a chunk combines and ``"".join(chunks) == "".join(pieces)`` shows that nothing is lost,
  duplicated or reordered (in particular an empty piece never ends the stream).  A second kernel condition runs
  ``dump`` (buffered with the symbolic size, or unbuffered) into text / bytes collectors with and without
  ``writelines``.
* template level (mode A): a set of natively compiled templates (plain, loops/conditions, extends + super, include,
  import + macros + call blocks, filter/set blocks, a template whose whole output can be empty) rendered with symbolic
  data (list of ints, flags, strings decoded from symbolic selectors including the empty string) through every
  entry point inside the same path; sync, and async (``render_async`` / ``generate_async`` / ``make_module_async``
  driven without an event loop).  The buffered stream is compared piece-for-piece with the partition of the
  ``generate`` pieces that the property prescribes, for a symbolic buffer size.
* files (mode B): selectors (template, data row, encoding/errors) decoded under tracing; natively: dump to
  ``StringIO`` / ``BytesIO`` / write-only objects / a real path for buffer sizes none,2,3,5,8; for async
  environments the synchronous API (``render`` / ``generate`` / ``stream`` / ``dump``, which run an event loop).
"""
import atexit
import io
import os
import shutil
import tempfile
from typing import List

from markupsafe import Markup

from jinja2 import DictLoader, Environment
from jinja2.environment import TemplateStream
from vfw.core import Cond, pick
from vfw.support import NoTracing, drive, drive_agen

FUNCTIONS = [
    "jinja2.environment.TemplateStream (__init__, __iter__/__next__, enable_buffering, disable_buffering, _buffered_generator, dump)",
    "jinja2.environment.Template.render / generate / stream / make_module / module / _get_default_module / new_context",
    "jinja2.environment.Template.render_async / generate_async / make_module_async",
    "jinja2.environment.TemplateModule.__init__ / __str__ / __html__",
    "generated root render functions and block functions of the template set (extends/super, include, import, macros, "
    "call blocks, filter and set blocks, loops, conditions), sync and async code generation",
]
OUTSIDE = [
    "streams with more than MAXP pieces, buffer sizes above MAXSIZE (kernel); lists longer than MAXXS (template level)",
    "templates that raise while rendering (the property speaks about produced text)",
    "buffer sizes <= 1 (enable_buffering documents ValueError)",
    "chunk sizes after buffering was switched in the middle of a stream (only the concatenation is checked there)",
]
ASSUMPTIONS = [
    "templates are compiled natively at import; only rendering / streaming / dumping runs under tracing",
    "async code is driven with coroutine.send(None) (no awaitable in the data really suspends)",
    "mode B: the real code runs natively on inputs decoded from symbolic selectors; file I/O uses a private temp dir",
]
SUSPECTED_DEFECTS = []  # the per-piece byte order mark of TemplateStream.dump was repaired in /repo; nothing is excluded

# ------------------------------------------------------------------------------------------------ template set
SOURCES = {
    "plain": "a{{ s }}b{% if f %}{{ t }}{% else %}{{ s }}{{ t }}{% endif %}"
             "{% for i in xs %}{% if i > 0 %}p{% else %}{{ e }}{% endif %}{% endfor %}{{ t }}",
    "empty": "{{ s }}{% for i in xs %}{{ 'q' if i > 1 else '' }}{% endfor %}{{ t }}{% if f %}{{ e }}{% endif %}",
    "base": "<{% block a %}A{{ s }}{% endblock %}|{% block b %}{% for i in xs %}{{ 'x' if i > 1 else '' }}{% endfor %}"
            "{% endblock %}{{ t }}>",
    "child": "{% extends 'base' %}{% block a %}c{{ super() }}{{ t }}{% if f %}{{ self.b() }}{% endif %}{% endblock %}",
    "inc": "{% for i in xs %}{{ 'y' if i else '' }}{% endfor %}{{ s }}",
    "include": "i[{% include 'inc' %}]{{ t }}{% if f %}{% include ['nope', 'inc'] %}{% endif %}"
               "{% include 'missing' ignore missing %}{{ e }}",
    "lib": "{% macro m(v) %}({{ v }}){% endmacro %}{% macro w() %}{{ caller() }}{% endmacro %}{% set k = 'K' %}libtext",
    "import": "{% import 'lib' as lib %}{% from 'lib' import w, k %}{{ lib.m(s) }}{% for i in xs %}{{ t if i > 2 else e }}"
              "{% endfor %}{% call w() %}{{ t }}{% endcall %}{{ k if f else e }}",
    "blocks": "{% filter upper %}{{ s }}k{% endfilter %}{% set v %}{{ t }}{% for i in xs %}{{ 'z' if i < 0 else '' }}"
              "{% endfor %}{% endset %}{{ v }}{% set n = 1 %}{% macro mm() %}M{{ s }}{% endmacro %}{{ mm() if f else e }}"
              "{% with u = t %}{{ u }}{% endwith %}",
}
TNAMES = ["plain", "empty", "child", "include", "import", "blocks"]
ENV = Environment(loader=DictLoader(SOURCES))
AENV = Environment(loader=DictLoader(SOURCES), enable_async=True)
TPLS = {}
for _env in (ENV, AENV):
    for _n in SOURCES:
        TPLS[_env.is_async, _n] = _env.get_template(_n)

STRS = ["", "x", "é€<"]  # decoded from selectors; index 0 = empty output
MARK = "abcdefghijklmnop"

P = {}
T = None
ASYNC = False
TMPDIR = None


def setup(param):
    global P, T, ASYNC
    P = dict(param or {})
    ASYNC = bool(P.get("async", False))
    T = TPLS[ASYNC, P.get("tpl", "plain")]
    for t in TPLS.values():
        t._module = None
        for k in ("xs", "f", "s", "t", "e"):
            t.globals.pop(k, None)


def MAXP():
    return P.get("maxp", 6)


def MAXSIZE():
    return P.get("maxsize", 8)


def MAXXS():
    return P.get("maxxs", 2)


def MAXSTR():
    return P.get("maxstr", 1)


# ------------------------------------------------------------------------------------------------ oracle helpers
def partition(pieces, size):
    """The chunking the property prescribes: consecutive pieces, every chunk but the last holds exactly ``size``
    non-empty pieces, the last one at least one; no chunk at all if there is no non-empty piece."""
    out = []
    buf = []
    n = 0
    for p in pieces:
        buf.append(p)
        if p:
            n += 1
            if n == size:
                out.append("".join(buf))
                buf = []
                n = 0
    if n:
        out.append("".join(buf))
    return out


def chunks_match(chunks, pieces, size):
    if not any(pieces):
        return "".join(chunks) == ""
    exp = partition(pieces, size)
    # trailing empty pieces carry no text; chunk texts are what is compared
    return chunks == exp


# ------------------------------------------------------------------------------------------------ kernel (mode A)
def _gen(flags):
    i = 0
    for fl in flags:
        if fl:
            yield MARK[i]
        else:
            yield ""
        i += 1


def chunks_ok(flags: List[bool], size: int) -> bool:
    """
    pre: len(flags) <= MAXP() and 2 <= size <= MAXSIZE()
    post: _
    """
    pieces = list(_gen(flags))
    text = "".join(pieces)
    # unbuffered: one item per piece
    st = TemplateStream(_gen(flags))
    if st.buffered:
        return False
    if list(st) != pieces:
        return False
    # buffered
    st = TemplateStream(_gen(flags))
    st.enable_buffering(size)
    if not st.buffered:
        return False
    chunks = list(st)
    if "".join(chunks) != text:
        return False
    if not text:
        return True
    k = 0
    last = len(chunks) - 1
    for c in chunks:
        n = len(c)  # markers are single characters: n = number of non-empty pieces combined
        if k < last:
            if n != size:
                return False
        elif n < 1 or n > size:
            return False
        k += 1
    # buffering switched off again before the first item: plain stream
    st = TemplateStream(_gen(flags))
    st.enable_buffering(size)
    st.disable_buffering()
    return (not st.buffered) and list(st) == pieces


def toggle_ok(flags: List[bool], size1: int, k: int, size2: int, off: bool, again: bool) -> bool:
    """
    pre: len(flags) <= MAXP() and 2 <= size1 <= MAXSIZE() and 2 <= size2 <= MAXSIZE() and 0 <= k <= 3
    post: _
    """
    # buffering switched in the middle: k items taken with buffer size1, then buffering is switched to size2 or off
    # (optionally after one more item, back to size1); whatever the schedule, the concatenation is the rendered text
    text = "".join(_gen(flags))
    st = TemplateStream(_gen(flags))
    st.enable_buffering(size1)
    got = []
    n = 0
    while n < k:
        try:
            got.append(next(st))
        except StopIteration:
            return "".join(got) == text
        n += 1
    if off:
        st.disable_buffering()
    else:
        st.enable_buffering(size2)
    if again:
        try:
            got.append(next(st))
        except StopIteration:
            return "".join(got) == text
        st.enable_buffering(size1)
    for c in st:
        got.append(c)
    return "".join(got) == text


class WText:
    """file-like object without writelines"""

    def __init__(self):
        self.items = []

    def write(self, x):
        self.items.append(x)


class WLines(WText):
    def writelines(self, it):
        for x in it:
            self.items.append(x)


def _mk_stream(flags, size, buffered):
    st = TemplateStream(_gen(flags))
    if buffered:
        st.enable_buffering(size)
    return st


def dump_kernel_ok(flags: List[bool], size: int, buffered: bool) -> bool:
    """
    pre: len(flags) <= MAXP() and 2 <= size <= MAXSIZE()
    post: _
    """
    text = "".join(_gen(flags))
    for cls in (WText, WLines):
        fp = cls()
        _mk_stream(flags, size, buffered).dump(fp)
        for x in fp.items:
            if not isinstance(x, str):
                return False
        if "".join(fp.items) != text:
            return False
        fp = cls()
        _mk_stream(flags, size, buffered).dump(fp, encoding="utf-8")
        for x in fp.items:
            if not isinstance(x, bytes):
                return False
        if b"".join(fp.items) != text.encode("utf-8"):
            return False
    fp = io.StringIO()
    _mk_stream(flags, size, buffered).dump(fp)
    if fp.getvalue() != text:
        return False
    fp = io.BytesIO()
    _mk_stream(flags, size, buffered).dump(fp, "utf-16-le")
    return fp.getvalue() == text.encode("utf-16-le")


# ------------------------------------------------------------------------------------------------ template level (mode A)
def _data(xs, f, si, ti):
    s = "" if si == 0 else ("x" if si == 1 else STRS[2])
    t = "" if ti == 0 else ("x" if ti == 1 else STRS[2])
    return {"xs": xs, "f": f, "s": s, "t": t, "e": ""}


def _set_globals(t, data):
    for k in data:
        t.globals[k] = data[k]
    t._module = None


def _clear_globals(t):
    for k in ("xs", "f", "s", "t", "e"):
        t.globals.pop(k, None)
    t._module = None


def _sync_entry_points(t, data, sizes):
    """All synchronous entry points on one template; returns the list of produced texts (first = render)."""
    out = [t.render(data), t.render(**data)]
    pieces = list(t.generate(data))
    out.append("".join(pieces))
    out.append("".join(t.stream(data)))
    for size in sizes:
        st = t.stream(data)
        st.enable_buffering(size)
        chunks = list(st)
        if not chunks_match(chunks, pieces, size):
            return None
        out.append("".join(chunks))
    fp = WText()
    t.stream(data).dump(fp)
    out.append("".join(fp.items))
    fp = WLines()
    st = t.stream(data)
    st.enable_buffering(2)
    st.dump(fp, encoding="utf-8")
    out.append(b"".join(fp.items).decode("utf-8"))
    mod = t.make_module(data)
    out.append(str(mod))
    out.append(str(mod.__html__()))
    if type(mod.__html__()) is not Markup:
        return None
    # template.module / render() without arguments: the data comes from the template globals
    _set_globals(t, data)
    try:
        m1 = t.module
        out.append(str(m1))
        out.append(t.render())
        out.append("".join(t.generate()))
        if t.module is not m1:
            return None
    finally:
        _clear_globals(t)
    return out


def _async_entry_points(t, data):
    out = [drive(t.render_async(data)), drive(t.render_async(**data))]
    out.append("".join(drive_agen(t.generate_async(data))))
    mod = drive(t.make_module_async(data))
    out.append(str(mod))
    out.append(str(mod.__html__()))
    _set_globals(t, data)
    try:
        out.append(drive(t.render_async()))
        out.append(str(drive(t._get_default_module_async())))
    finally:
        _clear_globals(t)
    return out


def _all_same(out):
    if out is None:
        return False
    first = out[0]
    if not isinstance(first, str):
        return False
    for o in out:
        if o != first:
            return False
    return True


def parity_ok(xs: List[int], f: bool, si: int, ti: int) -> bool:
    """
    pre: len(xs) <= MAXXS() and 0 <= si <= MAXSTR() and 0 <= ti <= MAXSTR()
    post: _
    """
    data = _data(xs, f, si, ti)
    if ASYNC:
        return _all_same(_async_entry_points(T, data))
    return _all_same(_sync_entry_points(T, data, P.get("sizes", (2,))))


def stream_ok(xs: List[int], f: bool, si: int, ti: int, size: int) -> bool:
    """
    pre: len(xs) <= MAXXS() and 0 <= si <= 1 and 0 <= ti <= 1 and 2 <= size <= MAXSIZE()
    post: _
    """
    data = _data(xs, f, si, ti)
    pieces = list(T.generate(data))
    st = T.stream(data)
    st.enable_buffering(size)
    chunks = list(st)
    return chunks_match(chunks, pieces, size) and "".join(chunks) == "".join(pieces)


# ------------------------------------------------------------------------------------------------ files (mode B)
ROWS = [
    {"xs": [], "f": False, "s": "", "t": "", "e": ""},
    {"xs": [], "f": True, "s": "x", "t": "", "e": ""},
    {"xs": [3], "f": False, "s": "", "t": "é€<", "e": ""},
    {"xs": [0, 2, 5], "f": True, "s": "é€<", "t": "x", "e": ""},
    {"xs": [0, 0, 0], "f": True, "s": "", "t": "", "e": ""},
    {"xs": [1, -1, 3, 0, 7, 2, 9], "f": False, "s": "s", "t": "tt", "e": ""},
    {"xs": [4, 4, 4, 4, 4, 4, 4, 4, 4, 4, 4], "f": True, "s": "\U0001f600", "t": "Ж", "e": ""},
    {"xs": [2, 3], "f": True, "s": "日本語です\u304b", "t": "+a\u304b", "e": ""},
]
# (encoding, errors); None = text target
ENCODINGS = [(None, None), ("utf-8", "strict"), ("utf-16-le", "strict"), ("utf-32-be", "strict"), ("latin-1", "replace"),
             ("ascii", "xmlcharrefreplace"), ("ascii", "ignore"), ("cp1251", "backslashreplace"),
             ("utf-16", "strict"), ("utf-8-sig", "strict"), ("utf-32", "strict"),
             # stateful encoders: pending input / shift state at the end of the stream
             ("shift_jisx0213", "replace"), ("iso2022_jp_2004", "replace"), ("utf-7", "strict"), ("euc_jis_2004", "replace")]
BOM_FROM = 8  # indexes >= BOM_FROM: byte order marks and stateful encoders
SIZES = [None, 2, 3, 5, 8]


def NENC():
    return len(ENCODINGS)


def NROWS():
    return len(ROWS)


def NTPL():
    return len(TNAMES)


def BOM(enc):
    return False  # repaired in /repo (fix: TemplateStream.dump encodes the stream as one text); nothing excluded


def _tmp():
    global TMPDIR
    if TMPDIR is None or not os.path.isdir(TMPDIR):
        TMPDIR = tempfile.mkdtemp(prefix="vfw-c10-")
        atexit.register(shutil.rmtree, TMPDIR, True)
    return TMPDIR


def _streams(t, row):
    for size in SIZES:
        st = t.stream(row)
        if size is not None:
            st.enable_buffering(size)
        yield size, st


STATEFUL = {"shift_jisx0213", "iso2022_jp_2004", "utf-7", "euc_jis_2004"}


def _same_bytes(enc, want):
    """Stateless encodings: the very bytes of text.encode().  Encodings with shift states have several byte spellings
    of one text (a piece boundary may close and reopen a shift sequence): there the written bytes must decode to the
    same text as the one-shot encoding does."""
    if enc not in STATEFUL:
        return lambda got: got == want
    ref = want.decode(enc)

    def same(got):
        try:
            return got.decode(enc) == ref
        except UnicodeDecodeError:
            return False
    return same


def _files_native(ti, ri, ei):
    t = TPLS[ASYNC, TNAMES[ti]]
    row = dict(ROWS[ri])
    enc, errors = ENCODINGS[ei]
    if ASYNC:
        text = drive(t.render_async(row))
        if t.render(row) != text:  # synchronous API of an async environment
            return False
    else:
        text = t.render(row)
    pieces = list(t.generate(row))
    if "".join(pieces) != text:
        return False
    if ASYNC:
        if pieces != drive_agen(t.generate_async(row)):
            return False
        if str(drive(t.make_module_async(row))) != text:
            return False
    else:
        if str(t.make_module(row)) != text:
            return False
    for size, st in _streams(t, row):
        chunks = list(st)
        if "".join(chunks) != text:
            return False
        if size is None:
            if chunks != pieces:
                return False
        elif not chunks_match(chunks, pieces, size):
            return False
    path = os.path.join(_tmp(), "out-%d" % os.getpid())
    if enc is None:
        for size, st in _streams(t, row):
            fp = io.StringIO()
            st.dump(fp)
            if fp.getvalue() != text:
                return False
        for size, st in _streams(t, row):
            fp = WText()
            st.dump(fp)
            if "".join(fp.items) != text:
                return False
        # a path target without encoding is documented to be written encoded (utf-8 by default)
        for size, st in _streams(t, row):
            st.dump(path)
            with open(path, "rb") as f:
                if f.read() != text.encode("utf-8"):
                    return False
        return True
    want = text.encode(enc, errors)
    same = _same_bytes(enc, want)
    for size, st in _streams(t, row):
        fp = io.BytesIO()
        st.dump(fp, enc, errors)
        if not same(fp.getvalue()):
            return False
    for size, st in _streams(t, row):
        fp = WText()
        st.dump(fp, encoding=enc, errors=errors)
        if not same(b"".join(fp.items)):
            return False
    for size, st in _streams(t, row):
        st.dump(path, enc, errors)
        with open(path, "rb") as f:
            if not same(f.read()):
                return False
    for size, st in _streams(t, row):
        with open(path, "wb") as f:
            st.dump(f, enc, errors)
        with open(path, "rb") as f:
            if not same(f.read()):
                return False
    return True


def files_ok(tpl: int, row: int, enc: int) -> bool:
    """
    pre: 0 <= tpl < NTPL() and 0 <= row < NROWS() and 0 <= enc < NENC() and not BOM(enc)
    post: _
    """
    ti = pick(tpl, NTPL())
    ri = pick(row, NROWS())
    ei = pick(enc, NENC())
    with NoTracing():
        return _files_native(ti, ri, ei)


# ------------------------------------------------------------------------------------------------ conditions
def conditions(tier, seed):
    th = tier == "thorough"
    to = 300 if th else 60
    maxp = 9 if th else 6
    maxsize = 12 if th else 8
    maxxs = 3 if th else 2
    maxstr = 2 if th else 1
    sizes = [2, 3, 5] if th else [2]
    out = [
        Cond("kernel_chunks", "chunks_ok", mode="A", param={"maxp": maxp, "maxsize": maxsize}, timeout=to,
             witnesses=[[[True, False, True, True, False], 2], [[False, False], 3], [[True, True, True, True, False, False], 2],
                        [[], 5], [[False, True, False, True, True], 4]],
             bounds=f"stream of <= {maxp} pieces, each empty or a distinct non-empty marker (symbolic flags); buffer size 2..{maxsize} symbolic"),
        Cond("kernel_toggle", "toggle_ok", mode="A", param={"maxp": 7 if th else 5, "maxsize": 5 if th else 3}, timeout=to,
             witnesses=[[[True, True, True, True, True], 2, 1, 3, False, False], [[True, False, True, True, True], 2, 1, 2, True, False],
                        [[True, True, True], 3, 0, 2, False, True], [[True, True, True, True, True], 2, 2, 3, False, True]],
             bounds=f"stream of <= {7 if th else 5} pieces (symbolic emptiness flags): buffer size 2..{5 if th else 3}, 0..3 items taken, then buffering switched to another symbolic size or off, "
                    "optionally one more item and back; concatenation == text"),
        Cond("kernel_dump", "dump_kernel_ok", mode="A", param={"maxp": maxp - 1, "maxsize": maxsize - 2}, timeout=to,
             witnesses=[[[True, False, True, True, False], 2, True], [[False, False], 3, False], [[True, True, True], 2, True], [[], 5, True]],
             bounds=f"stream of <= {maxp - 1} pieces (symbolic emptiness flags), unbuffered or buffered with symbolic size 2..{maxsize - 2}; "
                    "targets: write-only and writelines collectors (text and utf-8), StringIO, BytesIO (utf-16-le)"),
    ]
    for asyncm in (False, True):
        tag = "async" if asyncm else "sync"
        for tn in TNAMES:
            out.append(Cond(f"parity[{tn},{tag}]", "parity_ok", mode="A", param={"tpl": tn, "async": asyncm, "maxxs": maxxs, "maxstr": maxstr, "sizes": sizes}, timeout=to,
                            witnesses=[[[], False, 0, 0], [[3, 0], True, 1, 1], [[2], False, 1, 0], [[-1, 5], True, 0, 1]],
                            bounds=f"template '{tn}' ({tag}); xs any list of ints with len <= {maxxs}; f any bool; s, t in {STRS[:maxstr + 1]!r}; "
                                   + ("entry points render_async(dict / kwargs / globals), generate_async, make_module_async (str, __html__), default module"
                                      if asyncm else
                                      "entry points render(dict / kwargs / globals), generate, stream (unbuffered, sizes " + str(sizes) + "), dump (text, utf-8), "
                                      "make_module (str, __html__), module")))
    for tn in TNAMES:
        out.append(Cond(f"stream[{tn}]", "stream_ok", mode="A", param={"tpl": tn, "maxxs": maxxs, "maxsize": maxsize}, timeout=to,
                        witnesses=[[[], False, 0, 0, 2], [[3, 0], True, 1, 1, 3], [[2, 2], False, 1, 0, 2], [[-1, 5], True, 0, 1, 8]],
                        bounds=f"template '{tn}'; xs any list of ints with len <= {maxxs}; f any bool; s, t in ['', 'x']; buffer size 2..{maxsize} symbolic; "
                               "chunks of the buffered stream vs the prescribed partition of the generate() pieces"))
    for asyncm in (False, True):
        tag = "async-env" if asyncm else "sync"
        out.append(Cond(f"files[{tag}]", "files_ok", mode="B", param={"async": asyncm}, timeout=to,
                        witnesses=[[0, 0, 0], [2, 3, 2], [4, 6, 4], [3, 5, 5], [5, 2, 1], [1, 4, 7]],
                        bounds=f"templates {TNAMES}; {len(ROWS)} data rows (empty outputs, non-ASCII, long lists); encodings/errors "
                               f"{ENCODINGS} (incl. byte-order-mark and stateful encoders); buffer sizes {SIZES}; "
                               "targets StringIO / BytesIO / write-only object / path / binary file object"
                               + ("; synchronous API of an async environment" if asyncm else "")))
    setup(None)
    return out
