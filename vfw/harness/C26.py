"""C26 — LRUCache behaves like a least-recently-used map.

Mode A.  One inductive step from an arbitrary valid state, per operation, and
bounded histories from the empty cache.  States are built and observed through
the public API only (``__setitem__`` / ``items()`` / ``len``), so refactors of
the private representation raise no alarm.
"""
from typing import List

import copy
import pickle

from jinja2.utils import LRUCache
from vfw.core import Cond, pick

try:
    from crosshair import NoTracing
except ImportError:  # native replay without crosshair on the path
    import contextlib
    NoTracing = contextlib.nullcontext

FUNCTIONS = [
    "jinja2.utils.LRUCache.__init__/__getitem__/__setitem__/__delitem__/get/setdefault/"
    "__contains__/__len__/clear/copy/keys/values/items/__iter__/__reversed__/"
    "__getstate__/__setstate__/__getnewargs__",
]
OUTSIDE = [
    "capacity > 3 (quick) / > 4 (thorough); more than 4 (5) distinct keys",
    "real OS-thread interleavings at bytecode granularity (see conc_* conditions for the line-level model)",
    "non-int keys",
]
ASSUMPTIONS = [
    "keys are small ints (the dict hashes them, which makes CrossHair enumerate the key domain); values are unbounded symbolic ints",
]

OP = "set"
NK = 4
MAXCAP = 3


def setup(param):
    global OP, NK, MAXCAP
    if param:
        OP = param.get("op", OP)
        NK = param.get("nk", NK)
        MAXCAP = param.get("maxcap", MAXCAP)


class Ref:
    """Reference LRU map: list of (key, value), least recently used first."""

    def __init__(self, cap):
        self.cap = cap
        self.items = []

    def _find(self, k):
        for i, (kk, _) in enumerate(self.items):
            if kk == k:
                return i
        return -1

    def getitem(self, k):
        i = self._find(k)
        if i < 0:
            raise KeyError(k)
        it = self.items.pop(i)
        self.items.append(it)
        return it[1]

    def get(self, k, d=None):
        try:
            return self.getitem(k)
        except KeyError:
            return d

    def set(self, k, v):
        i = self._find(k)
        if i >= 0:
            self.items.pop(i)
        elif len(self.items) == self.cap:
            self.items.pop(0)
        self.items.append((k, v))

    def delete(self, k):
        i = self._find(k)
        if i < 0:
            raise KeyError(k)
        self.items.pop(i)

    def setdefault(self, k, d=None):
        try:
            return self.getitem(k)
        except KeyError:
            self.set(k, d)
            return d


def observe(c):
    # public observation: items() is documented most-recent-first
    its = list(c.items())
    return its[::-1], len(c), c.capacity


def build(cap, keys, vals, t1=-1, t2=-1):
    """State reached by inserting distinct keys in the given order and then reading up to two of them again:
    every relation between the mapping's insertion order and the recency order is reachable this way."""
    c = LRUCache(cap)
    r = Ref(cap)
    for k, v in zip(keys, vals):
        c[k] = v
        r.set(k, v)
    n = len(keys)
    for t in (t1, t2):
        if 0 <= t < n:
            c[keys[t]]
            r.getitem(keys[t])
    return c, r


def valid(cap: int, keys: List[int], vals: List[int]) -> bool:
    return (
        1 <= cap <= MAXCAP
        and len(keys) == len(vals)
        and len(keys) <= cap
        and all(0 <= k < NK for k in keys)
        and len(set(keys)) == len(keys)
    )


def apply(c, r, op, k, v):
    """Apply operation `op` to the real cache and the reference; return (a, b)."""
    def both(fc, fr):
        try:
            a = ("ok", fc())
        except KeyError:
            a = ("KeyError", None)
        try:
            b = ("ok", fr())
        except KeyError:
            b = ("KeyError", None)
        return a, b

    if op == "getitem":
        return both(lambda: c[k], lambda: r.getitem(k))
    if op == "get":
        return both(lambda: c.get(k, v), lambda: r.get(k, v))
    if op == "get_nodefault":
        return both(lambda: c.get(k), lambda: r.get(k))
    if op == "set":
        return both(lambda: c.__setitem__(k, v), lambda: r.set(k, v))
    if op == "del":
        return both(lambda: c.__delitem__(k), lambda: r.delete(k))
    if op == "setdefault":
        return both(lambda: c.setdefault(k, v), lambda: r.setdefault(k, v))
    if op == "contains":
        return both(lambda: k in c, lambda: r._find(k) >= 0)
    if op == "len":
        return both(lambda: len(c), lambda: len(r.items))
    if op == "clear":
        return both(lambda: c.clear(), lambda: r.items.clear())
    if op == "keys":
        return both(lambda: list(c.keys()), lambda: [kk for kk, _ in r.items][::-1])
    if op == "values":
        return both(lambda: list(c.values()), lambda: [vv for _, vv in r.items][::-1])
    if op == "items":
        return both(lambda: list(c.items()), lambda: list(r.items)[::-1])
    if op == "iter":
        return both(lambda: list(iter(c)), lambda: [kk for kk, _ in r.items][::-1])
    if op == "reversed":
        return both(lambda: list(reversed(c)), lambda: [kk for kk, _ in r.items])
    raise AssertionError(op)


TWO_FLAG = [False]


def TWO():
    return TWO_FLAG[0]


OPS = ["getitem", "get", "get_nodefault", "set", "del", "setdefault", "contains", "len", "clear",
       "keys", "values", "items", "iter", "reversed"]


def step(cap: int, keys: List[int], vals: List[int], k: int, v: int, t1: int, t2: int) -> bool:
    """
    pre: valid(cap, keys, vals) and 0 <= k < NK and -1 <= t1 < MAXCAP and -1 <= t2 < MAXCAP and (t2 == -1 or TWO())
    post: _
    """
    c, r = build(cap, keys, vals, t1, t2)
    a, b = apply(c, r, OP, k, v)
    st, n, capn = observe(c)
    return a == b and st == r.items and n == len(r.items) and n <= cap and capn == cap


def step_copy(cap: int, keys: List[int], vals: List[int], k: int, v: int, t1: int, t2: int) -> bool:
    """
    pre: valid(cap, keys, vals) and 0 <= k < NK and -1 <= t1 < MAXCAP and -1 <= t2 < MAXCAP and (t2 == -1 or TWO())
    post: _
    """
    c, r = build(cap, keys, vals, t1, t2)
    d = c.copy()
    ok = observe(d) == observe(c) and observe(c)[0] == r.items
    # the copy is independent, and still a working LRU of the same capacity
    d[k] = v
    r2 = Ref(cap)
    r2.items = list(r.items)
    r2.set(k, v)
    return ok and observe(d)[0] == r2.items and observe(c)[0] == r.items


def step_pickle(cap: int, keys: List[int], proto: int, how: int, t1: int) -> bool:
    """
    pre: 1 <= cap <= MAXCAP and len(keys) <= cap and all(0 <= k < NK for k in keys) and len(set(keys)) == len(keys) and 0 <= proto <= 5 and 0 <= how <= 2 and -1 <= t1 < MAXCAP
    post: _
    """
    capc = 1 + pick(cap - 1, MAXCAP)
    ks = [pick(k, NK) for k in keys]
    p = pick(proto, 6)
    h = pick(how, 3)
    tt = pick(t1 + 1, MAXCAP + 1) - 1
    with NoTracing():
        return _pickle_native(capc, ks, p, h, tt)


def _pickle_native(cap, keys, p, h, t1=-1):
    vals = [k * 10 + 1 for k in keys]
    c, r = build(cap, keys, vals, t1)
    if h == 0:
        d = pickle.loads(pickle.dumps(c, p))
    elif h == 1:
        d = copy.copy(c)
    else:
        d = copy.deepcopy(c)
    if observe(d) != observe(c) or observe(d)[0] != r.items:
        return False
    # still behaves like an LRU afterwards: inserting a fresh key evicts the oldest
    d[99] = 0
    r.set(99, 0)
    return observe(d)[0] == r.items


HLEN = 3


# ------------------------------------------------------------------ concurrency at line granularity (E4b)
import ast
import inspect
import textwrap

CONC_OPS = ["get", "getitem", "set", "del", "contains", "clear"]
_TARGETS = ["get", "clear", "__contains__", "__getitem__", "__setitem__", "__delitem__"]
_INSTR = {}


class ModelLock:
    def __init__(self):
        self.held = False


class _Tx(ast.NodeTransformer):
    """Turn each LRUCache method into a generator that yields at every statement boundary; `with self._wlock`
    becomes acquire (yield 'blocked' while held) / try / finally release; self[key] and self[key] = v call the
    instrumented __getitem__/__setitem__."""

    def func(self, node):
        node.name = "g_" + node.name.strip("_")
        node.decorator_list = []
        node.returns = None
        for a in node.args.args:
            a.annotation = None
        node.body = self.block(node.body)
        node.body.append(ast.parse("if 0: yield").body[0])
        return node

    def block(self, stmts):
        out = []
        for st in stmts:
            if isinstance(st, ast.Expr) and isinstance(st.value, ast.Constant) and isinstance(st.value.value, str):
                continue
            out.append(ast.Expr(ast.Yield(ast.Constant("step"))))
            out.extend(self.stmt(st))
        return out or [ast.Pass()]

    def stmt(self, st):
        if isinstance(st, ast.With) and ast.unparse(st.items[0].context_expr) == "self._wlock":
            body = self.block(st.body)
            acquire = ast.parse("while self._wlock.held:\n    yield 'blocked'\nself._wlock.held = True").body
            rel = ast.parse("self._wlock.held = False").body
            return acquire + [ast.Try(body=body, handlers=[], orelse=[], finalbody=rel)]
        if isinstance(st, ast.Try):
            st.body = self.block(st.body)
            for h in st.handlers:
                h.body = self.block(h.body)
            st.orelse = self.block(st.orelse) if st.orelse else []
            st.finalbody = self.block(st.finalbody) if st.finalbody else []
            return [self.calls(st)]
        if isinstance(st, ast.If):
            st.body = self.block(st.body)
            st.orelse = self.block(st.orelse) if st.orelse else []
            st.test = self.calls(st.test)
            return [st]
        return [self.calls(st)]

    def calls(self, node):
        class C(ast.NodeTransformer):
            def visit_Subscript(s, n):
                s.generic_visit(n)
                if isinstance(n.value, ast.Name) and n.value.id == "self" and isinstance(n.ctx, ast.Load):
                    return ast.parse(f"(yield from g_getitem(self, {ast.unparse(n.slice)}))", mode="eval").body
                return n

            def visit_Assign(s, n):
                t = n.targets[0]
                if isinstance(t, ast.Subscript) and isinstance(t.value, ast.Name) and t.value.id == "self":
                    return ast.parse(f"yield from g_setitem(self, {ast.unparse(t.slice)}, {ast.unparse(n.value)})").body[0]
                s.generic_visit(n)
                return n
        return ast.fix_missing_locations(C().visit(node))


def _instrument():
    if _INSTR:
        return _INSTR
    src = textwrap.dedent(inspect.getsource(LRUCache))
    cls = ast.parse(src).body[0]
    funcs = [_Tx().func(f) for f in cls.body if isinstance(f, ast.FunctionDef) and f.name in _TARGETS]
    mod = ast.Module(body=funcs, type_ignores=[])
    ast.fix_missing_locations(mod)
    ns = {}
    exec(compile(ast.unparse(mod), "<instrumented LRUCache from the current tree>", "exec"), ns)
    _INSTR.update(ns)
    return _INSTR


def _gen_for(ns, c, op, k, v):
    if op == "get":
        return ns["g_get"](c, k, -1)
    if op == "getitem":
        return ns["g_getitem"](c, k)
    if op == "set":
        return ns["g_setitem"](c, k, v)
    if op == "del":
        return ns["g_delitem"](c, k)
    if op == "contains":
        return ns["g_contains"](c, k)
    return ns["g_clear"](c)


def _ref_apply(r, op, k, v):
    try:
        if op == "get":
            return ("ok", r.get(k, -1))
        if op == "getitem":
            return ("ok", r.getitem(k))
        if op == "set":
            return ("ok", r.set(k, v))
        if op == "del":
            return ("ok", r.delete(k))
        if op == "contains":
            return ("ok", r._find(k) >= 0)
        r.items.clear()
        return ("ok", None)
    except KeyError:
        return ("KeyError", None)


INITS = [[], [(1, 10)], [(1, 10), (2, 20)], [(2, 20), (1, 10)]]


def conc_native(opa, ka, opb, kb, init, s1, s2):
    """Thread A runs s1 steps, then B runs s2 steps, then A to completion, then B to completion (blocked threads yield
    to the other).  The outcome must equal that of one of the two sequential orders on the reference LRU map."""
    ns = _instrument()
    c = LRUCache(2)
    for k, v in INITS[init]:
        c[k] = v
    c._wlock = ModelLock()
    gens = [_gen_for(ns, c, opa, ka, 100), _gen_for(ns, c, opb, kb, 200)]
    res = [None, None]
    plan = [(0, s1), (1, s2), (0, 10 ** 6), (1, 10 ** 6), (0, 10 ** 6)]
    for who, budget in plan:
        n = 0
        while res[who] is None and n < budget:
            try:
                y = next(gens[who])
            except StopIteration as e:
                res[who] = ("ok", e.value)
                break
            except KeyError:
                res[who] = ("KeyError", None)
                break
            except Exception as e:
                return False  # "no call raises": IndexError / ValueError / RuntimeError ...
            if y == "blocked":
                break  # waiting for the lock: let the other thread run
            n += 1
    if res[0] is None or res[1] is None:
        return False  # deadlock
    try:
        final = observe(c)[0]
    except Exception:
        return False
    for order in ((0, 1), (1, 0)):
        r = Ref(2)
        for k, v in INITS[init]:
            r.set(k, v)
        exp = [None, None]
        for who in order:
            op, k, v = ((opa, ka, 100), (opb, kb, 200))[who]
            exp[who] = _ref_apply(r, op, k, v)
        if exp == res and r.items == final:
            return True
    return False


def conc_ok(ka: int, kb: int, init: int, s1: int, s2: int) -> bool:
    """
    pre: 1 <= ka <= 2 and 1 <= kb <= 3 and (kb != 2 or P_CONC.get("allkeys")) and 0 <= init < NINIT() and 0 <= s1 <= MAXSTEP() and 0 <= s2 <= MAXSTEP()
    post: _
    """
    a = 1 + pick(ka - 1, 2)
    b = 1 + pick(kb - 1, 3)
    i = pick(init, NINIT())
    x = pick(s1, MAXSTEP() + 1)
    y = pick(s2, MAXSTEP() + 1)
    with NoTracing():
        return conc_native(P_CONC.get("opa", "getitem"), a, P_CONC.get("opb", "clear"), b, i, x, y)


P_CONC = {}


def MAXSTEP():
    return P_CONC.get("maxstep", 12)


def NINIT():
    return len(INITS) if P_CONC.get("allkeys") else 3


def conditions(tier, seed):
    global HLEN
    thorough = tier == "thorough"
    par = {"nk": 5 if thorough else 4, "maxcap": 4 if thorough else 3}
    b = f"capacity 1..{par['maxcap']}, distinct int keys 0..{par['nk']-1} inserted in symbolic order, then up to two of them read again (symbolic positions), values any int"
    out = []
    to = 240 if thorough else 60
    for op in OPS:
        out.append(Cond(f"step[{op}]", "step", mode="A", param=dict(par, op=op, two=thorough), timeout=to * (2 if op in ("set", "del", "setdefault") else 1),
                        witnesses=[[2, [1, 0], [5, 6], 1, 7, -1, -1], [1, [], [], 0, 0, -1, 0], [2, [3, 2], [1, 1], 0, 9, 0, -1], [3, [0, 1, 2], [4, 5, 6], 3, 1, 0, -1]],
                        bounds="one step from any valid state: " + b))
    out.append(Cond("step[copy]", "step_copy", mode="A", param=dict(par, two=thorough), timeout=to * 2,
                    witnesses=[[2, [1, 0], [5, 6], 3, 7, -1, -1], [3, [0, 1, 2], [4, 5, 6], 3, 7, 0, -1], [3, [0, 1, 2], [4, 5, 6], 0, 7, 1, 0]], bounds="copy() from any valid state: " + b))
    out.append(Cond("step[pickle/copy/deepcopy]", "step_pickle", mode="B", param=par, timeout=to * 3,
                    witnesses=[[2, [1, 0], 2, 0, -1], [3, [2, 0, 1], 5, 2, 0], [3, [0, 1, 2], 3, 1, 1]],
                    bounds="pickle protocols 0..5, copy.copy, copy.deepcopy from any valid state (values derived from keys)"))
    hl = 4 if thorough else 2
    for opa in CONC_OPS:
        for opb in CONC_OPS:
            out.append(Cond(f"concurrent[{opa} || {opb}]", "conc_ok", mode="B", param={"opa": opa, "opb": opb, "maxstep": 12 if thorough else 9, "allkeys": thorough}, timeout=to * 2,
                            witnesses=[[1, 1, 2, 3, 2], [2, 3, 0, 0, 0], [1, 2, 3, 5, 9]],
                            bounds="two threads, one call each on a capacity-2 cache in 4 initial states, keys 1..2 / 1..3; methods instrumented from the current source to yield at every statement, model lock; thread A runs s1 steps, B runs s2 steps, A finishes, B finishes (all s1, s2 up to the methods' length = every schedule with <= 2 preemptions); outcome must be one of the two sequential outcomes and no call may raise anything but KeyError"))
    out.append(Cond(f"history[len<={hl}]", "history_n", mode="A", param=dict(par, hlen=hl), timeout=(600 if thorough else 60),
                    witnesses=[[2, [2, 2, 2], [0, 1, 2], [1, 2, 3]], [1, [2, 0, 3], [0, 0, 0], [1, 2, 3]]],
                    bounds=f"histories of <= {hl} ops from empty over 7 operations; " + b))
    return out


def history_n(cap: int, ops: List[int], ks: List[int], vs: List[int]) -> bool:
    """
    pre: 1 <= cap <= MAXCAP and len(ops) == len(ks) == len(vs) and len(ops) <= HLEN and all(0 <= o < 7 for o in ops) and all(0 <= k < NK for k in ks)
    post: _
    """
    return _history(cap, ops, ks, vs)


def _history(cap, ops, ks, vs):
    c = LRUCache(cap)
    r = Ref(cap)
    names = ["getitem", "get", "set", "del", "setdefault", "contains", "clear"]
    for o, k, v in zip(ops, ks, vs):
        op = names[pick(o, 7)]
        a, b = apply(c, r, op, k, v)
        if a != b:
            return False
        st, n, _ = observe(c)
        if st != r.items or n > cap:
            return False
    return True


_setup0 = setup


def setup(param):  # noqa: F811
    global HLEN
    _setup0(param)
    TWO_FLAG[0] = bool((param or {}).get("two"))
    P_CONC.clear()
    P_CONC.update({k: v for k, v in (param or {}).items() if k in ("opa", "opb", "maxstep", "allkeys")})
    if param and "hlen" in param:
        HLEN = param["hlen"]
