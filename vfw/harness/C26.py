"""C26 — LRUCache behaves like a least-recently-used map.

Mode A.  One inductive step from an arbitrary valid state, per operation, and
bounded histories from the empty cache.  States are built and observed through
the public API only (``__setitem__`` / ``items()`` / ``len``), so refactors of
the private representation raise no alarm.
"""
from typing import List

import copy
import pickle

from jinja2.utils import LRUCache
from vfw.core import Cond, pick

try:
    from crosshair import NoTracing
except ImportError:  # native replay without crosshair on the path
    import contextlib
    NoTracing = contextlib.nullcontext

FUNCTIONS = [
    "jinja2.utils.LRUCache.__init__/__getitem__/__setitem__/__delitem__/get/setdefault/"
    "__contains__/__len__/clear/copy/keys/values/items/__iter__/__reversed__/"
    "__getstate__/__setstate__/__getnewargs__",
]
OUTSIDE = [
    "capacity > 3 (quick) / > 4 (thorough); more than 4 (5) distinct keys",
    "real OS-thread interleavings at bytecode granularity (see conc_* conditions for the line-level model)",
    "non-int keys",
]
ASSUMPTIONS = [
    "keys are small ints (the dict hashes them, which makes CrossHair enumerate the key domain); values are unbounded symbolic ints",
]

OP = "set"
NK = 4
MAXCAP = 3


def setup(param):
    global OP, NK, MAXCAP
    if param:
        OP = param.get("op", OP)
        NK = param.get("nk", NK)
        MAXCAP = param.get("maxcap", MAXCAP)


class Ref:
    """Reference LRU map: list of (key, value), least recently used first."""

    def __init__(self, cap):
        self.cap = cap
        self.items = []

    def _find(self, k):
        for i, (kk, _) in enumerate(self.items):
            if kk == k:
                return i
        return -1

    def getitem(self, k):
        i = self._find(k)
        if i < 0:
            raise KeyError(k)
        it = self.items.pop(i)
        self.items.append(it)
        return it[1]

    def get(self, k, d=None):
        try:
            return self.getitem(k)
        except KeyError:
            return d

    def set(self, k, v):
        i = self._find(k)
        if i >= 0:
            self.items.pop(i)
        elif len(self.items) == self.cap:
            self.items.pop(0)
        self.items.append((k, v))

    def delete(self, k):
        i = self._find(k)
        if i < 0:
            raise KeyError(k)
        self.items.pop(i)

    def setdefault(self, k, d=None):
        try:
            return self.getitem(k)
        except KeyError:
            self.set(k, d)
            return d


def observe(c):
    # public observation: items() is documented most-recent-first
    its = list(c.items())
    return its[::-1], len(c), c.capacity


def build(cap, keys, vals):
    c = LRUCache(cap)
    r = Ref(cap)
    for k, v in zip(keys, vals):
        c[k] = v
        r.set(k, v)
    return c, r


def valid(cap: int, keys: List[int], vals: List[int]) -> bool:
    return (
        1 <= cap <= MAXCAP
        and len(keys) == len(vals)
        and len(keys) <= cap
        and all(0 <= k < NK for k in keys)
        and len(set(keys)) == len(keys)
    )


def apply(c, r, op, k, v):
    """Apply operation `op` to the real cache and the reference; return (a, b)."""
    def both(fc, fr):
        try:
            a = ("ok", fc())
        except KeyError:
            a = ("KeyError", None)
        try:
            b = ("ok", fr())
        except KeyError:
            b = ("KeyError", None)
        return a, b

    if op == "getitem":
        return both(lambda: c[k], lambda: r.getitem(k))
    if op == "get":
        return both(lambda: c.get(k, v), lambda: r.get(k, v))
    if op == "get_nodefault":
        return both(lambda: c.get(k), lambda: r.get(k))
    if op == "set":
        return both(lambda: c.__setitem__(k, v), lambda: r.set(k, v))
    if op == "del":
        return both(lambda: c.__delitem__(k), lambda: r.delete(k))
    if op == "setdefault":
        return both(lambda: c.setdefault(k, v), lambda: r.setdefault(k, v))
    if op == "contains":
        return both(lambda: k in c, lambda: r._find(k) >= 0)
    if op == "len":
        return both(lambda: len(c), lambda: len(r.items))
    if op == "clear":
        return both(lambda: c.clear(), lambda: r.items.clear())
    if op == "keys":
        return both(lambda: list(c.keys()), lambda: [kk for kk, _ in r.items][::-1])
    if op == "values":
        return both(lambda: list(c.values()), lambda: [vv for _, vv in r.items][::-1])
    if op == "items":
        return both(lambda: list(c.items()), lambda: list(r.items)[::-1])
    if op == "iter":
        return both(lambda: list(iter(c)), lambda: [kk for kk, _ in r.items][::-1])
    if op == "reversed":
        return both(lambda: list(reversed(c)), lambda: [kk for kk, _ in r.items])
    raise AssertionError(op)


OPS = ["getitem", "get", "get_nodefault", "set", "del", "setdefault", "contains", "len", "clear",
       "keys", "values", "items", "iter", "reversed"]


def step(cap: int, keys: List[int], vals: List[int], k: int, v: int) -> bool:
    """
    pre: valid(cap, keys, vals) and 0 <= k < NK
    post: _
    """
    c, r = build(cap, keys, vals)
    a, b = apply(c, r, OP, k, v)
    st, n, capn = observe(c)
    return a == b and st == r.items and n == len(r.items) and n <= cap and capn == cap


def step_copy(cap: int, keys: List[int], vals: List[int], k: int, v: int) -> bool:
    """
    pre: valid(cap, keys, vals) and 0 <= k < NK
    post: _
    """
    c, r = build(cap, keys, vals)
    d = c.copy()
    ok = observe(d) == observe(c) and observe(c)[0] == r.items
    # the copy is independent, and still a working LRU of the same capacity
    d[k] = v
    r2 = Ref(cap)
    r2.items = list(r.items)
    r2.set(k, v)
    return ok and observe(d)[0] == r2.items and observe(c)[0] == r.items


def step_pickle(cap: int, keys: List[int], proto: int, how: int) -> bool:
    """
    pre: 1 <= cap <= MAXCAP and len(keys) <= cap and all(0 <= k < NK for k in keys) and len(set(keys)) == len(keys) and 0 <= proto <= 5 and 0 <= how <= 2
    post: _
    """
    capc = 1 + pick(cap - 1, MAXCAP)
    ks = [pick(k, NK) for k in keys]
    p = pick(proto, 6)
    h = pick(how, 3)
    with NoTracing():
        return _pickle_native(capc, ks, p, h)


def _pickle_native(cap, keys, p, h):
    vals = [k * 10 + 1 for k in keys]
    c, r = build(cap, keys, vals)
    if h == 0:
        d = pickle.loads(pickle.dumps(c, p))
    elif h == 1:
        d = copy.copy(c)
    else:
        d = copy.deepcopy(c)
    if observe(d) != observe(c) or observe(d)[0] != r.items:
        return False
    # still behaves like an LRU afterwards: inserting a fresh key evicts the oldest
    d[99] = 0
    r.set(99, 0)
    return observe(d)[0] == r.items


HLEN = 3


def conditions(tier, seed):
    global HLEN
    thorough = tier == "thorough"
    par = {"nk": 5 if thorough else 4, "maxcap": 4 if thorough else 3}
    b = f"capacity 1..{par['maxcap']}, distinct int keys 0..{par['nk']-1} inserted in symbolic order, values any int"
    out = []
    to = 240 if thorough else 45
    for op in OPS:
        out.append(Cond(f"step[{op}]", "step", mode="A", param=dict(par, op=op), timeout=to,
                        witnesses=[[2, [1, 0], [5, 6], 1, 7], [1, [], [], 0, 0], [2, [3, 2], [1, 1], 0, 9]],
                        bounds="one step from any valid state: " + b))
    out.append(Cond("step[copy]", "step_copy", mode="A", param=par, timeout=to,
                    witnesses=[[2, [1, 0], [5, 6], 3, 7]], bounds="copy() from any valid state: " + b))
    out.append(Cond("step[pickle/copy/deepcopy]", "step_pickle", mode="B", param=par, timeout=to,
                    witnesses=[[2, [1, 0], 2, 0], [3, [2, 0, 1], 5, 2]],
                    bounds="pickle protocols 0..5, copy.copy, copy.deepcopy from any valid state (values derived from keys)"))
    hl = 4 if thorough else 2
    out.append(Cond(f"history[len<={hl}]", "history_n", mode="A", param=dict(par, hlen=hl), timeout=(600 if thorough else 60),
                    witnesses=[[2, [2, 2, 2], [0, 1, 2], [1, 2, 3]], [1, [2, 0, 3], [0, 0, 0], [1, 2, 3]]],
                    bounds=f"histories of <= {hl} ops from empty over 7 operations; " + b))
    return out


def history_n(cap: int, ops: List[int], ks: List[int], vs: List[int]) -> bool:
    """
    pre: 1 <= cap <= MAXCAP and len(ops) == len(ks) == len(vs) and len(ops) <= HLEN and all(0 <= o < 7 for o in ops) and all(0 <= k < NK for k in ks)
    post: _
    """
    return _history(cap, ops, ks, vs)


def _history(cap, ops, ks, vs):
    c = LRUCache(cap)
    r = Ref(cap)
    names = ["getitem", "get", "set", "del", "setdefault", "contains", "clear"]
    for o, k, v in zip(ops, ks, vs):
        op = names[pick(o, 7)]
        a, b = apply(c, r, op, k, v)
        if a != b:
            return False
        st, n, _ = observe(c)
        if st != r.items or n > cap:
            return False
    return True


_setup0 = setup


def setup(param):  # noqa: F811
    global HLEN
    _setup0(param)
    if param and "hlen" in param:
        HLEN = param["hlen"]
