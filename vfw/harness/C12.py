"""C12 — whitespace control follows the documented trimming rules.

E2: the live end-of-tag rules of ``Lexer(env).rules`` are translated to z3 and
compared (language equality, two inclusion queries each) with the documented
grammar for every trim_blocks setting.

E1 mode B: cases ``pre A T B post`` (tag kinds x signs x a table of whitespace /
text runs, see vfw/wsmodel.py) are enumerated by the solver and pushed through
the real lexer/parser/compiler; the rendered output must equal the reference
trimming model transcribed from the documentation, and the raw token stream must
lose exactly the whitespace the model says is removed.
"""
from typing import List

import z3

from jinja2 import Environment
from jinja2.lexer import Lexer, TOKEN_BLOCK_BEGIN, TOKEN_COMMENT_BEGIN, TOKEN_RAW_BEGIN, TOKEN_VARIABLE_BEGIN
from vfw import rx, wsmodel as W
from vfw.core import Cond, pick
from vfw.support import NoTracing

FUNCTIONS = ["jinja2.lexer.Lexer.__init__ (rule table)", "Lexer.tokeniter (OptionalLStrip / '-' / '+' / lstrip_blocks / trim_blocks handling)",
             "Lexer.wrap", "jinja2.lexer.get_lexer", "Environment.from_string/render", "Environment.lex"]
OUTSIDE = ["texts outside the 14-entry table, more than one text run between two tags per case (effects are local to a run and its two neighbouring tags)",
           "tag bodies other than the fixed set/comment/variable/raw forms"]
ASSUMPTIONS = ["reference trimming model in vfw/wsmodel.py transcribes docs/templates.rst 'Whitespace Control' and docs/api.rst"]

P = {}
ENV = None


def setup(param):
    global P, ENV
    P = dict(param or {})
    d = W.DELIMS[P.get("delims", 0)]
    ENV = Environment(trim_blocks=P.get("trim", False), lstrip_blocks=P.get("lstrip", False),
                      block_start_string=d["bs"], block_end_string=d["be"], variable_start_string=d["vs"],
                      variable_end_string=d["ve"], comment_start_string=d["cs"], comment_end_string=d["ce"],
                      newline_sequence=P.get("nl", "\n"), keep_trailing_newline=P.get("ktn", False))


def ws_ok(ars: int, t: int, bk: int, bls: int) -> bool:
    """
    pre: 0 <= ars <= 2 and 0 <= t < len(W.TEXTS) and 0 <= bk < len(W.B_KINDS) and 0 <= bls <= 2
    post: _
    """
    a_rs = W.SIGNS[pick(ars, 3)]
    tt = W.TEXTS[pick(t, len(W.TEXTS))]
    bkind = W.B_KINDS[pick(bk, len(W.B_KINDS))]
    b_ls = W.SIGNS[pick(bls, 3)]
    with NoTracing():
        return case_ok(P.get("akind", "set"), a_rs, tt, bkind, b_ls)


def case_ok(akind, a_rs, tt, bkind, b_ls):
    # undocumented / meaningless combinations are outside the property
    if (akind == "rawbegin") != (bkind == "endraw"):
        return True
    if not W.valid_signs(akind, "r", a_rs) or (bkind != "end" and not W.valid_signs(bkind, "l", b_ls)):
        return True
    if akind == "start" and a_rs != "":
        return True
    if bkind == "end" and b_ls != "":
        return True
    d = W.DELIMS[P.get("delims", 0)]
    source, out, concat, dropped = W.expected(akind, a_rs, tt, bkind, b_ls, d, P.get("trim", False), P.get("lstrip", False),
                                              P.get("nl", "\n"), P.get("ktn", False))
    got = ENV.from_string(source).render()
    if got != out:
        return False
    toks = list(ENV.lex(source))
    if "".join(v for _, _, v in toks) != concat:
        return False
    ok, gaps = W.check_tokens(source, toks, P.get("ktn", False))
    return ok and gaps == dropped


# ---------------------------------------------------------------- E2 lemmas on the live rule table
def _esc(s):
    import re
    return re.escape(s)


def smt_rules(param):
    import re
    trim = param["trim"]
    d = W.DELIMS[param.get("delims", 0)]
    env = Environment(trim_blocks=trim, block_start_string=d["bs"], block_end_string=d["be"], variable_start_string=d["vs"],
                      variable_end_string=d["ve"], comment_start_string=d["cs"], comment_end_string=d["ce"])
    lx = Lexer(env)
    nl = r"\n?" if trim else ""
    be, ve, ce, bs = _esc(d["be"]), _esc(d["ve"]), _esc(d["ce"]), _esc(d["bs"])
    spec = {
        "block_end": (lx.rules[TOKEN_BLOCK_BEGIN][0].pattern, rf"\+{be}|-{be}\s*|{be}{nl}"),
        "variable_end": (lx.rules[TOKEN_VARIABLE_BEGIN][0].pattern, rf"-{ve}\s*|{ve}"),
        "comment": (lx.rules[TOKEN_COMMENT_BEGIN][0].pattern, rf"(?s:.*)(\+{ce}|-{ce}\s*|{ce}{nl})"),
        "raw_end": (lx.rules[TOKEN_RAW_BEGIN][0].pattern, rf"(?s:.*){bs}(-|\+|)\s*endraw\s*(\+{be}|-{be}\s*|{be}{nl})"),
    }
    q = rx.Q()
    s = z3.String("s")
    bad = None
    for name, (pat, ref) in spec.items():
        R, _ = rx.to_z3(pat, drop_context=True)
        S, _ = rx.to_z3(ref, re.S)
        r0, _m = q.check(name + ":nonempty", z3.InRe(s, R), z3.Length(s) <= 40)
        if r0 != "sat":
            return {"verdict": "HARNESS_ERROR", "detail": name + " language empty/unknown", "queries": q.queries, "solver_s": q.solver_s}
        for direction, (X, Y) in (("impl-not-in-spec", (R, S)), ("spec-not-in-impl", (S, R))):
            r, m = q.check(f"{name}:{direction}", z3.InRe(s, X), z3.Not(z3.InRe(s, Y)), z3.Length(s) <= 40)
            if r == "sat" and bad is None:
                bad = {"rule": name, "direction": direction, "string": rx.zstr_to_py(rx.model_str(m, s)), "trim": trim, "delims": param.get("delims", 0)}
            elif r != "unsat" and r != "sat":
                return {"verdict": "CANNOT_CONFIRM", "detail": q.log, "queries": q.queries, "solver_s": round(q.solver_s, 3)}
    out = {"queries": q.queries, "solver_s": round(q.solver_s, 3), "detail": q.log}
    if bad:
        out.update(verdict="REFUTED", cex=bad)
    else:
        out["verdict"] = "CONFIRMED"
    return out


def rule_replay(cex):
    """Native replay of an E2 rule counterexample: does the live rule (fullmatch) agree with the spec on it?"""
    import re
    if isinstance(cex, str):  # witness form "trim:delims:rule:string"
        return True
    d = W.DELIMS[cex.get("delims", 0)]
    env = Environment(trim_blocks=cex["trim"], block_start_string=d["bs"], block_end_string=d["be"], variable_start_string=d["vs"],
                      variable_end_string=d["ve"], comment_start_string=d["cs"], comment_end_string=d["ce"])
    lx = Lexer(env)
    nl = r"\n?" if cex["trim"] else ""
    be, ve, ce, bs = _esc(d["be"]), _esc(d["ve"]), _esc(d["ce"]), _esc(d["bs"])
    table = {
        "block_end": (lx.rules[TOKEN_BLOCK_BEGIN][0].pattern, rf"\+{be}|-{be}\s*|{be}{nl}"),
        "variable_end": (lx.rules[TOKEN_VARIABLE_BEGIN][0].pattern, rf"-{ve}\s*|{ve}"),
        "comment": (lx.rules[TOKEN_COMMENT_BEGIN][0].pattern, rf"(?s:.*)(\+{ce}|-{ce}\s*|{ce}{nl})"),
        "raw_end": (lx.rules[TOKEN_RAW_BEGIN][0].pattern, rf"(?s:.*){bs}(-|\+|)\s*endraw\s*(\+{be}|-{be}\s*|{be}{nl})"),
    }
    pat, ref = table[cex["rule"]]
    w = cex["string"]
    return bool(pat.fullmatch(w)) == bool(re.fullmatch(ref, w, re.S))


def conditions(tier, seed):
    th = tier == "thorough"
    to = 200 if th else 50
    out = []
    for trim in (False, True):
        for dl in ((0, 1, 2) if th else (0, 2)):
            out.append(Cond(f"E2 end-of-tag rules[trim_blocks={trim},delims={dl}]", "smt_rules", kind="smt", mode="A",
                            param={"trim": trim, "delims": dl}, replay="rule_replay", timeout=120, witnesses=[],
                            bounds="language equality of block/variable/comment/raw end rules with the documented grammar, all strings <= 40 chars"))
    for trim in (False, True):
        for lstrip in (False, True):
            for akind in W.A_KINDS:
                out.append(Cond(f"ws[{akind},trim={trim},lstrip={lstrip}]", "ws_ok", mode="B",
                                param={"akind": akind, "trim": trim, "lstrip": lstrip}, timeout=to,
                                witnesses=[[1, 3, 0, 0], [0, 4, 1, 2], [0, 2, 5, 0], [2, 9, 4, 1], [0, 13, 2, 1]],
                                bounds=f"left tag {akind} x 3 signs x {len(W.TEXTS)} text runs x {len(W.B_KINDS)} right tags x 3 signs; default delimiters"))
    if th:
        for nl in ("\r\n", "\r"):
            for ktn in (False, True):
                out.append(Cond(f"ws[set,trim+lstrip,newline_sequence={nl!r},keep_trailing={ktn}]", "ws_ok", mode="B",
                                param={"akind": "set", "trim": True, "lstrip": True, "nl": nl, "ktn": ktn}, timeout=to,
                                witnesses=[[1, 3, 0, 0]], bounds="as above with other newline settings"))
    return out
