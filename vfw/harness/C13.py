"""C13 — equivalent syntax configurations render identically; environments do not disturb each other.

E1 mode B (solver-enumerated selectors, native runs of the real pipeline):
* the C12 case family under four alternative delimiter sets (incl. shared-prefix ASP-like
  delimiters, which exercise compile_rules' ordering by length): the reference output is
  delimiter independent;
* for each of the 12 lexer-relevant options: an environment differing in exactly that option,
  created as Environment / overlay of the base / Template constructor, before or after the base
  has been used, in both orders: every render equals the render of the same configuration in
  isolation (after clear_caches);
* whole-line block tags and comments rewritten as line statements / line comments in a trimming
  and left-stripping environment.
"""
from typing import List

import jinja2
from jinja2 import Environment, Template
from jinja2.exceptions import TemplateSyntaxError
from vfw import wsmodel as W
from vfw.core import Cond, pick, pickb
from vfw.harness import C12
from vfw.support import NoTracing

FUNCTIONS = ["jinja2.lexer.compile_rules", "jinja2.lexer.get_lexer / _lexer_cache", "Lexer.__init__ (line statement/comment rules)",
             "Environment.overlay", "Environment.__init__", "jinja2.environment.get_spontaneous_environment / Template.__new__"]
OUTSIDE = ["delimiter sets other than the 5 listed in vfw/wsmodel.py", "option values other than the listed base/variant pairs",
           "templates other than the C12 case family, the 12 option-sensitive probes and <= 4-line line-statement programs"]
ASSUMPTIONS = ["outputs of a configuration in isolation (fresh caches) are the reference for the same configuration used next to others"]

P = {}
OPTS = [
    ("block_start_string", "{%", "<%", "a{% set q=1 %}b<% set r=2 %>c"),
    ("block_end_string", "%}", "%>", "{% set q=1 %}b%>c"),
    ("variable_start_string", "{{", "${", "x{{ 1 }}y${ 2 }}z"),
    ("variable_end_string", "}}", "}", "{{ 1 }}}"),
    ("comment_start_string", "{#", "<#", "a{# c #}b<# d #}c"),
    ("comment_end_string", "#}", "*}", "a{# c *} d #}e"),
    ("line_statement_prefix", None, "#", "# set q = 1\nx"),
    ("line_comment_prefix", None, "##", "x ## c\ny"),
    ("trim_blocks", False, True, "{% set q=1 %}\nx"),
    ("lstrip_blocks", False, True, "  {% set q=1 %}x"),
    ("newline_sequence", "\n", "\r\n", "a\nb"),
    ("keep_trailing_newline", False, True, "a\n"),
]
BASES = [dict(), dict(trim_blocks=True, lstrip_blocks=True, newline_sequence="\r", keep_trailing_newline=True, comment_end_string="%%}")]


def setup(param):
    global P
    P = dict(param or {})
    if P.get("c12"):
        C12.setup(P["c12"])


def c12_case_ok(ars: int, t: int, bk: int, bls: int) -> bool:
    """
    pre: 0 <= ars <= 2 and 0 <= t < len(W.TEXTS) and 0 <= bk < len(W.B_KINDS) and 0 <= bls <= 2
    post: _
    """
    return C12.ws_ok(ars, t, bk, bls)


def _outcome(fn):
    try:
        return ("ok", fn())
    except TemplateSyntaxError as e:
        return ("TemplateSyntaxError", None)


def isolation_ok(opt: int, order: bool, kind: int, used: bool, base: int) -> bool:
    """
    pre: 0 <= opt < len(OPTS) and 0 <= kind <= 2 and 0 <= base < len(BASES)
    post: _
    """
    o = pick(opt, len(OPTS))
    k = pick(kind, 3)
    b = pick(base, len(BASES))
    order = pickb(order)
    used = pickb(used)
    with NoTracing():
        return _isolation_native(o, order, k, used, b)


def _isolation_native(o, variant_first, kind, used, b):
    name, v0, v1, src = OPTS[o]
    base_cfg = dict(BASES[b])
    if name in base_cfg:
        v0 = base_cfg[name]
        if v0 == v1:
            return True
    cfg0 = dict(base_cfg, **{name: v0})
    cfg1 = dict(base_cfg, **{name: v1})
    probe = "q{% set z = 1 %}\n  {# c #}\nr\n"
    # reference: each configuration alone, fresh caches
    ref = {}
    for key, cfg in (("0", cfg0), ("1", cfg1)):
        jinja2.clear_caches()
        ref[key] = (_outcome(lambda: Environment(**cfg).from_string(src).render()),
                    _outcome(lambda: Environment(**cfg).from_string(probe).render()))
    jinja2.clear_caches()
    got = {}

    def mk(cfg, other_env):
        if kind == 0 or other_env is None:
            e = Environment(**cfg)
            return lambda s: e.from_string(s).render()
        if kind == 1:
            # overlay of the other environment changing exactly this option
            e = other_env.overlay(**{name: cfg[name]})
            return lambda s: e.from_string(s).render()
        return lambda s: Template(s, **cfg).render()

    first_cfg, second_cfg = (cfg1, cfg0) if variant_first else (cfg0, cfg1)
    fk, sk = ("1", "0") if variant_first else ("0", "1")
    e_first = Environment(**first_cfg)
    r_first = lambda s: e_first.from_string(s).render()
    if used:
        got[fk] = (_outcome(lambda: r_first(src)), _outcome(lambda: r_first(probe)))
    r_second = mk(second_cfg, e_first)
    got[sk] = (_outcome(lambda: r_second(src)), _outcome(lambda: r_second(probe)))
    got[fk + "again"] = (_outcome(lambda: r_first(src)), _outcome(lambda: r_first(probe)))
    if got[sk] != ref[sk] or got[fk + "again"] != ref[fk]:
        return False
    if used and got[fk] != ref[fk]:
        return False
    return True


LINES = ["x", "  y", "{% if 1 %}", "  {% endif %}", "{% set q = 1 %}", "    {% for i in [1] %}", "{% endfor %}", "", "z {{ 1 }}",
         # a tag whose expression is wrapped over two lines inside brackets: a line statement only ends at a line break outside brackets
         "  {% for i in [1,\n            2] %}", "{% set q = {'a': (1,\n  2)} %}"]
CLINES = ["{# c #}", "  {# c #}"]
ENV_BLOCK = Environment(trim_blocks=True, lstrip_blocks=True)
ENV_LINE = Environment(trim_blocks=True, lstrip_blocks=True, line_statement_prefix="#", line_comment_prefix="##")


NL_ENVS = {nl: (Environment(trim_blocks=True, lstrip_blocks=True, newline_sequence=nl),
                Environment(trim_blocks=True, lstrip_blocks=True, line_statement_prefix="#", line_comment_prefix="##", newline_sequence=nl)) for nl in ("\r\n", "\r")}


def _to_line(l):
    s = l.strip()
    ind = l[: len(l) - len(l.lstrip())]
    if s.startswith("{%") and s.endswith("%}"):
        return ind + "# " + s[2:-2].strip()
    if s.startswith("{#") and s.endswith("#}"):
        return ind + "## " + s[2:-2].strip()
    return l


def lines_ok(ls: List[int], final_nl: bool) -> bool:
    """
    pre: 1 <= len(ls) <= MAXL() and all(0 <= l < NL() for l in ls)
    post: _
    """
    table = LINES + (CLINES if P.get("comments") else [])
    lines = [table[pick(l, len(table))] for l in ls]
    fnl = pickb(final_nl)
    with NoTracing():
        for i in range(len(lines) - 1):
            if lines[i].strip().startswith("{%") and lines[i + 1].strip() == "":
                return True  # recorded known finding: blank lines after a line statement (known_blank_after_line_statement_ok)
        src_b = "\n".join(lines) + ("\n" if fnl else "")
        src_l = "\n".join(_to_line(l) for l in lines) + ("\n" if fnl else "")
        a = _outcome(lambda: ENV_BLOCK.from_string(src_b).render())
        if a[0] != "ok":
            return True  # unbalanced program
        b = _outcome(lambda: ENV_LINE.from_string(src_l).render())
        if a != b:
            return False
        # the newline configuration only changes the line breaks: sources written with another line-break form, and
        # environments producing another newline_sequence, give the same text up to that substitution
        for nl in ("\r\n", "\r"):
            eb, el = NL_ENVS[nl]
            for src, env in ((src_b, eb), (src_l, el)):
                for srcnl in ("\n", nl):
                    r = _outcome(lambda: env.from_string(src.replace("\n", srcnl)).render())
                    if r[0] != "ok" or r[1].replace(nl, "\n") != a[1]:
                        return False
        return True


def NL():
    return len(LINES) + (len(CLINES) if P.get("comments") else 0)


def MAXL():
    return P.get("maxl", 3)


def known_blank_after_line_statement_ok():
    """Known-finding witness: a line statement swallows the blank lines that follow it; a block tag with trim_blocks only its own newline."""
    a = ENV_BLOCK.from_string("{% set q = 1 %}\n\nx").render()
    b = ENV_LINE.from_string("# set q = 1\n\nx").render()
    return a == b


def known_line_comment_ok():
    """Known-finding witness: a whole-line comment rewritten as a line comment keeps its line break."""
    a = ENV_BLOCK.from_string("a\n  {# c #}\nb").render()
    b = ENV_LINE.from_string("a\n  ## c\nb").render()
    return a == b


def conditions(tier, seed):
    th = tier == "thorough"
    to = 200 if th else 50
    out = []
    for dl in ((1, 2, 3, 4) if th else (1, 2)):
        for trim, lstrip in (((False, False), (True, True), (True, False), (False, True)) if th else ((False, False), (True, True))):
            for akind in (W.A_KINDS if th else ["set", "var", "comment"]):
                out.append(Cond(f"ws case[delims={dl},{akind},trim={trim},lstrip={lstrip}]", "c12_case_ok", mode="B",
                                param={"c12": {"akind": akind, "trim": trim, "lstrip": lstrip, "delims": dl}}, timeout=to,
                                witnesses=[[1, 3, 0, 0], [0, 4, 1, 2], [0, 6, 2, 1]],
                                bounds=f"C12 case family written with delimiter set {W.DELIMS[dl]}"))
    out.append(Cond("one-option neighbours (Environment/overlay/Template, both orders)", "isolation_ok", mode="B", param={}, timeout=to * 2,
                    witnesses=[[5, False, 0, True, 0], [8, True, 1, True, 0], [10, False, 1, False, 0], [11, True, 2, True, 1], [0, False, 1, True, 1]],
                    bounds="12 lexer options x {base first, variant first} x {Environment, overlay, Template()} x {first used before, not used} x 2 base configurations"))
    ml = 4 if th else 3
    out.append(Cond("line statements vs block tags", "lines_ok", mode="B", param={"maxl": ml}, timeout=to * 2,
                    witnesses=[[[0, 2, 1], True], [[5, 8, 6], False], [[4, 0], True], [[9, 8, 6], True], [[10, 0], False]],
                    bounds=f"programs of 1..{ml} lines from {LINES!r}, with/without final newline"))
    return out
