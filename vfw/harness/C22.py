"""C22 — collection filters satisfy their documented contracts (sync and async).

Each filter is reached through a compiled template ``{{ rec('r', <expr>) }}``
(real parser, code generator, ``async_variant`` dispatch, filter code), in a
sync and an async environment; the inputs are symbolic lists of ints / dicts
built from symbolic ints, symbolic counts, fill values and flags.  The oracle
is the Python definition of each filter; inputs are compared with a deep copy
taken before the call.
"""
import copy
from typing import List

from jinja2 import Environment
from vfw.core import Cond, pick
from vfw.support import Rec, agen_of, drive, gen_of, norm

FUNCTIONS = [
    "jinja2.filters: do_batch sync_do_slice/do_slice sync_do_unique/do_unique sync_do_groupby/do_groupby do_sort "
    "do_dictsort do_reverse sync_do_first/do_first do_last do_min do_max sync_do_sum/do_sum sync_do_join/do_join "
    "sync_do_list/do_list do_length sync_do_map/do_map select/reject/selectattr/rejectattr "
    "make_attrgetter make_multi_attrgetter ignore_case prepare_map prepare_select_or_reject",
    "jinja2.async_utils.async_variant/auto_aiter/auto_to_list", "jinja2.tests (odd, even, gt, eq, defined)",
    "generated filter-call code (compiler.visit_Filter)",
]
OUTSIDE = ["sequences longer than MAXLEN", "element types other than ints, small dicts of ints and strings from a 4-entry mixed-case table",
           "slice fill behaviour when the length is an exact multiple of the slice count (documentation is silent)"]
ASSUMPTIONS = ["templates compiled natively at setup", "Python's sorted/min/max/sum are the reference definitions"]

ENV = Environment()
AENV = Environment(enable_async=True)
STRS = ["b", "A", "a", "B"]
P = {}
T = None
SPEC = None
MAXLEN = 3


def items_of(ks, vs):
    return [{"k": k, "v": v} for k, v in zip(ks, vs)]


class Obj:
    def __init__(self, **kw):
        self.__dict__.update(kw)

    def __eq__(self, o):
        return isinstance(o, Obj) and self.__dict__ == o.__dict__

    def __repr__(self):
        return "Obj(%r)" % self.__dict__


# ---- spec table ---------------------------------------------------------------------------------
# each spec: expr (template expression over ctx names), ctx(xs, ys, n, m, b1, b2) -> dict of context
# values (primary iterable under key "xs" is wrapped according to the input form), pre(...) -> bool,
# exp(xs, ys, n, m, b1, b2) -> expected value (may raise; exception class is compared)

def _rows_batch(xs, n, fill):
    rows = [xs[i:i + n] for i in range(0, len(xs), n)]
    if rows and fill is not None and len(rows[-1]) < n:
        rows[-1] = rows[-1] + [fill] * (n - len(rows[-1]))
    return rows


def _rows_slice(xs, n, fill):
    q, r = divmod(len(xs), n)
    out = []
    pos = 0
    for i in range(n):
        size = q + 1 if i < r else q
        row = xs[pos:pos + size]
        pos += size
        if fill is not None and i >= r:
            row = row + [fill]
        out.append(row)
    return out


def _unique(xs, key=lambda x: x):
    seen = []
    out = []
    for x in xs:
        if key(x) not in seen:
            seen.append(key(x))
            out.append(x)
    return out


def _groupby(items, key):
    ks = sorted(_unique([key(i) for i in items]))
    return [(k, [i for i in items if key(i) == k]) for k in ks]


def _lower(s):
    return s.lower() if isinstance(s, str) else s


SPECS = {
    "batch": dict(expr="xs|batch(n, f)|list", pre=lambda xs, ys, n, m, b1, b2: 1 <= n <= 4,
                  ctx=lambda xs, ys, n, m, b1, b2: dict(xs=xs, n=n, f=(m if b1 else None)),
                  exp=lambda xs, ys, n, m, b1, b2: _rows_batch(xs, n, m if b1 else None)),
    "slice": dict(expr="xs|slice(n, f)|list", pre=lambda xs, ys, n, m, b1, b2: 1 <= n <= 4 and (not b1 or len(xs) % n != 0),
                  ctx=lambda xs, ys, n, m, b1, b2: dict(xs=xs, n=n, f=(m if b1 else None)),
                  exp=lambda xs, ys, n, m, b1, b2: _rows_slice(xs, n, m if b1 else None)),
    "unique": dict(expr="xs|unique|list", exp=lambda xs, ys, n, m, b1, b2: _unique(xs)),
    "unique_attr": dict(expr="xs|unique(attribute='k')|list", items=True,
                        exp=lambda xs, ys, n, m, b1, b2: _unique(items_of(xs, ys), key=lambda i: i["k"])),
    "groupby": dict(expr="xs|groupby('k')|map('list')|list", items=True,
                    exp=lambda xs, ys, n, m, b1, b2: [[k, g] for k, g in _groupby(items_of(xs, ys), lambda i: i["k"])]),
    "groupby_attrs": dict(expr="xs|groupby('k')|map(attribute=('grouper' if b1 else 'list'))|list", items=True,
                          ctx=lambda xs, ys, n, m, b1, b2: dict(xs=items_of(xs, ys), b1=b1),
                          exp=lambda xs, ys, n, m, b1, b2: [(k if b1 else g) for k, g in _groupby(items_of(xs, ys), lambda i: i["k"])]),
    "groupby_default": dict(
        expr="xs|groupby('k', default=m)|map('list')|list",
        # items whose key equals n have no 'k' at all -> grouped under the default m
        ctx=lambda xs, ys, n, m, b1, b2: dict(xs=[({"v": v} if k == n else {"k": k, "v": v}) for k, v in zip(xs, ys)], m=m),
        pre=lambda xs, ys, n, m, b1, b2: len(xs) == len(ys),
        exp=lambda xs, ys, n, m, b1, b2: [[k, g] for k, g in _groupby(
            [({"v": v} if k == n else {"k": k, "v": v}) for k, v in zip(xs, ys)], lambda i: i.get("k", m))]),
    "sort": dict(expr="xs|sort(reverse=b1)", ctx=lambda xs, ys, n, m, b1, b2: dict(xs=xs, b1=b1),
                 exp=lambda xs, ys, n, m, b1, b2: sorted(xs, reverse=b1)),
    "sort_attr": dict(expr="xs|sort(attribute='k', reverse=b1)", items=True,
                      ctx=lambda xs, ys, n, m, b1, b2: dict(xs=items_of(xs, ys), b1=b1),
                      exp=lambda xs, ys, n, m, b1, b2: sorted(items_of(xs, ys), key=lambda i: i["k"], reverse=b1)),
    "sort_multi": dict(expr="xs|sort(attribute='k,v', reverse=b1)", items=True,
                       ctx=lambda xs, ys, n, m, b1, b2: dict(xs=items_of(xs, ys), b1=b1),
                       exp=lambda xs, ys, n, m, b1, b2: sorted(items_of(xs, ys), key=lambda i: (i["k"], i["v"]), reverse=b1)),
    "sort_objattr": dict(expr="xs|sort(attribute='k', reverse=b1)|map(attribute='v')|list", pre=lambda xs, ys, n, m, b1, b2: len(xs) == len(ys),
                         ctx=lambda xs, ys, n, m, b1, b2: dict(xs=[Obj(k=k, v=v) for k, v in zip(xs, ys)], b1=b1),
                         exp=lambda xs, ys, n, m, b1, b2: [i["v"] for i in sorted(items_of(xs, ys), key=lambda i: i["k"], reverse=b1)]),
    "reverse": dict(expr="xs|reverse|list", exp=lambda xs, ys, n, m, b1, b2: [xs[len(xs) - 1 - i] for i in range(len(xs))]),
    "first": dict(expr="xs|first", exp=lambda xs, ys, n, m, b1, b2: xs[0] if xs else ("<undefined>",)),
    "last": dict(expr="xs|last", seq_only=True, exp=lambda xs, ys, n, m, b1, b2: xs[-1] if xs else ("<undefined>",)),
    # reversible inputs that are not sequences (a dict iterates its keys in insertion order); keys are fixed strings, values symbolic
    "last_dict": dict(expr="d|last", seq_only=True, ctx=lambda xs, ys, n, m, b1, b2: dict(d={"k%d" % i: x for i, x in enumerate(xs)}),
                      exp=lambda xs, ys, n, m, b1, b2: "k%d" % (len(xs) - 1) if xs else ("<undefined>",)),
    "first_dict": dict(expr="d|first", seq_only=True, ctx=lambda xs, ys, n, m, b1, b2: dict(d={"k%d" % i: x for i, x in enumerate(xs)}),
                       exp=lambda xs, ys, n, m, b1, b2: "k0" if xs else ("<undefined>",)),
    "reverse_dict": dict(expr="d|reverse|list", seq_only=True, ctx=lambda xs, ys, n, m, b1, b2: dict(d={"k%d" % i: x for i, x in enumerate(xs)}),
                         exp=lambda xs, ys, n, m, b1, b2: ["k%d" % i for i in range(len(xs) - 1, -1, -1)]),
    "last_items": dict(expr="d.items()|last", seq_only=True, ctx=lambda xs, ys, n, m, b1, b2: dict(d={"k%d" % i: x for i, x in enumerate(xs)}),
                       exp=lambda xs, ys, n, m, b1, b2: ["k%d" % (len(xs) - 1), xs[-1]] if xs else ("<undefined>",)),
    "min": dict(expr="xs|min", exp=lambda xs, ys, n, m, b1, b2: min(xs) if xs else ("<undefined>",)),
    "max": dict(expr="xs|max", exp=lambda xs, ys, n, m, b1, b2: max(xs) if xs else ("<undefined>",)),
    "min_attr": dict(expr="xs|min(attribute='k')", items=True,
                     exp=lambda xs, ys, n, m, b1, b2: min(items_of(xs, ys), key=lambda i: i["k"]) if xs else ("<undefined>",)),
    "max_attr": dict(expr="xs|max(attribute='k')", items=True,
                     exp=lambda xs, ys, n, m, b1, b2: max(items_of(xs, ys), key=lambda i: i["k"]) if xs else ("<undefined>",)),
    "sum": dict(expr="xs|sum(start=m)", ctx=lambda xs, ys, n, m, b1, b2: dict(xs=xs, m=m),
                exp=lambda xs, ys, n, m, b1, b2: sum(xs, m)),
    "sum_attr": dict(expr="xs|sum(attribute='k', start=m)", items=True,
                     ctx=lambda xs, ys, n, m, b1, b2: dict(xs=items_of(xs, ys), m=m),
                     exp=lambda xs, ys, n, m, b1, b2: sum(xs, m)),
    "sum_lists": dict(expr="xs|sum(start=acc)", pre=lambda xs, ys, n, m, b1, b2: True,
                      ctx=lambda xs, ys, n, m, b1, b2: dict(xs=[[x] for x in xs], acc=list(ys)),
                      exp=lambda xs, ys, n, m, b1, b2: list(ys) + list(xs)),
    "list": dict(expr="xs|list", exp=lambda xs, ys, n, m, b1, b2: list(xs)),
    "length": dict(expr="xs|length", seq_only=True, exp=lambda xs, ys, n, m, b1, b2: len(xs)),
    "map_attr": dict(expr="xs|map(attribute='k')|list", items=True, exp=lambda xs, ys, n, m, b1, b2: list(xs)),
    "map_attr_default": dict(
        expr="xs|map(attribute='k', default=m)|list",
        pre=lambda xs, ys, n, m, b1, b2: len(xs) == len(ys),
        ctx=lambda xs, ys, n, m, b1, b2: dict(xs=[({"v": v} if k == n else {"k": k, "v": v}) for k, v in zip(xs, ys)], m=m),
        exp=lambda xs, ys, n, m, b1, b2: [(m if k == n else k) for k in xs]),
    "map_filter": dict(expr="xs|map('abs')|list", exp=lambda xs, ys, n, m, b1, b2: [abs(x) for x in xs]),
    "select_test": dict(expr="xs|select('gt', n)|list", ctx=lambda xs, ys, n, m, b1, b2: dict(xs=xs, n=n),
                        exp=lambda xs, ys, n, m, b1, b2: [x for x in xs if x > n]),
    "select_truth": dict(expr="xs|select|list", exp=lambda xs, ys, n, m, b1, b2: [x for x in xs if x]),
    "reject_test": dict(expr="xs|reject('odd')|list", exp=lambda xs, ys, n, m, b1, b2: [x for x in xs if x % 2 != 1]),
    "reject_truth": dict(expr="xs|reject|list", exp=lambda xs, ys, n, m, b1, b2: [x for x in xs if not x]),
    "selectattr": dict(expr="xs|selectattr('k', 'eq', n)|list", items=True,
                       ctx=lambda xs, ys, n, m, b1, b2: dict(xs=items_of(xs, ys), n=n),
                       exp=lambda xs, ys, n, m, b1, b2: [i for i in items_of(xs, ys) if i["k"] == n]),
    "selectattr_truth": dict(expr="xs|selectattr('k')|list", items=True,
                             exp=lambda xs, ys, n, m, b1, b2: [i for i in items_of(xs, ys) if i["k"]]),
    "rejectattr": dict(expr="xs|rejectattr('k', 'ge', n)|list", items=True,
                       ctx=lambda xs, ys, n, m, b1, b2: dict(xs=items_of(xs, ys), n=n),
                       exp=lambda xs, ys, n, m, b1, b2: [i for i in items_of(xs, ys) if not i["k"] >= n]),
    "rejectattr_truth": dict(expr="xs|rejectattr('k')|list", items=True,
                             exp=lambda xs, ys, n, m, b1, b2: [i for i in items_of(xs, ys) if not i["k"]]),
}

# string / case specs: xs are selector indexes into STRS, decoded with pick() (mode B for the strings,
# mode A for the accompanying ints)
def _s(xs):
    return [STRS[pick(x, len(STRS))] for x in xs]


def _sorted_ci(vals, cs, rev, key=lambda v: v):
    return sorted(vals, key=(key if cs else (lambda v: _lower(key(v)))), reverse=rev)


SSPECS = {
    "sort_str": dict(expr="xs|sort(reverse=b1, case_sensitive=b2)",
                     ctx=lambda s, ys, n, m, b1, b2: dict(xs=s, b1=b1, b2=b2),
                     exp=lambda s, ys, n, m, b1, b2: _sorted_ci(s, b2, b1)),
    "unique_str": dict(expr="xs|unique(case_sensitive=b2)|list", ctx=lambda s, ys, n, m, b1, b2: dict(xs=s, b2=b2),
                       exp=lambda s, ys, n, m, b1, b2: _unique(s, key=(lambda v: v) if b2 else _lower)),
    "min_str": dict(expr="xs|min(case_sensitive=b2)", ctx=lambda s, ys, n, m, b1, b2: dict(xs=s, b2=b2),
                    exp=lambda s, ys, n, m, b1, b2: (min(s, key=(lambda v: v) if b2 else _lower) if s else ("<undefined>",))),
    "max_str": dict(expr="xs|max(case_sensitive=b2)", ctx=lambda s, ys, n, m, b1, b2: dict(xs=s, b2=b2),
                    exp=lambda s, ys, n, m, b1, b2: (max(s, key=(lambda v: v) if b2 else _lower) if s else ("<undefined>",))),
    "dictsort": dict(expr="d|dictsort(b2, ('value' if by else 'key'), reverse=b1)", nowrap=True,
                     pre=lambda s, ys, n, m, b1, b2: len(s) == len(ys) and len(set(s)) == len(s),
                     ctx=lambda s, ys, n, m, b1, b2: dict(d=dict(zip(s, ys)), b1=b1, b2=b2, by=(n > 0)),
                     exp=lambda s, ys, n, m, b1, b2: sorted(
                         dict(zip(s, ys)).items(),
                         key=(lambda kv: kv[1]) if n > 0 else ((lambda kv: kv[0]) if b2 else (lambda kv: kv[0].lower())),
                         reverse=b1)),
    "groupby_str": dict(expr="xs|groupby('k', case_sensitive=b2)|map('list')|list",
                        pre=lambda s, ys, n, m, b1, b2: len(s) == len(ys),
                        ctx=lambda s, ys, n, m, b1, b2: dict(xs=items_of(s, ys), b2=b2),
                        exp=lambda s, ys, n, m, b1, b2: [
                            [[i for i in items_of(s, ys) if (i["k"] if b2 else i["k"].lower()) == k][0]["k"],
                             [i for i in items_of(s, ys) if (i["k"] if b2 else i["k"].lower()) == k]]
                            for k in sorted(_unique([(v if b2 else v.lower()) for v in s]))]),
    "groupby_str_default": dict(
        expr="xs|groupby('k', default='b', case_sensitive=b2)|map('list')|list",
        pre=lambda s, ys, n, m, b1, b2: len(s) == len(ys),
        # items at odd v have no key -> default 'b'
        ctx=lambda s, ys, n, m, b1, b2: dict(xs=[({"v": v} if v % 2 else {"k": k, "v": v}) for k, v in zip(s, ys)], b2=b2),
        exp=lambda s, ys, n, m, b1, b2: (lambda its, kf: [
            [kf(next(i for i in its if (kf(i) if b2 else kf(i).lower()) == k)), [i for i in its if (kf(i) if b2 else kf(i).lower()) == k]]
            for k in sorted(_unique([(kf(i) if b2 else kf(i).lower()) for i in its]))])(
                [({"v": v} if v % 2 else {"k": k, "v": v}) for k, v in zip(s, ys)], lambda i: i.get("k", "b"))),
    "join_str": dict(expr="xs|join(sep)", ctx=lambda s, ys, n, m, b1, b2: dict(xs=s, sep=("-" if b1 else "")),
                     exp=lambda s, ys, n, m, b1, b2: ("-" if b1 else "").join(s)),
    "join_attr": dict(expr="xs|join(', ', attribute='k')", pre=lambda s, ys, n, m, b1, b2: len(s) == len(ys),
                      ctx=lambda s, ys, n, m, b1, b2: dict(xs=items_of(s, ys)),
                      exp=lambda s, ys, n, m, b1, b2: ", ".join(s)),
    "join_int": dict(expr="ys|join('|')", nowrap=True, ints_small=True,
                     ctx=lambda s, ys, n, m, b1, b2: dict(ys=ys),
                     exp=lambda s, ys, n, m, b1, b2: "|".join(str(y) for y in ys)),
    "reverse_str": dict(expr="w|reverse", nowrap=True, ctx=lambda s, ys, n, m, b1, b2: dict(w="".join(s)),
                        exp=lambda s, ys, n, m, b1, b2: "".join(s)[::-1]),
    "first_last_str": dict(expr="[w|first, w|last, w|length, w|list]", nowrap=True,
                           ctx=lambda s, ys, n, m, b1, b2: dict(w="".join(s)),
                           exp=lambda s, ys, n, m, b1, b2: (lambda w: [w[0] if w else ("<undefined>",), w[-1] if w else ("<undefined>",), len(w), list(w)])("".join(s))),
}


def setup(param):
    global P, T, SPEC, MAXLEN
    P = dict(param or {})
    name = P.get("spec", "batch")
    SPEC = (SSPECS if P.get("strs") else SPECS)[name]
    MAXLEN = P.get("maxlen", 3)
    env = AENV if P.get("asyncm") else ENV
    T = env.from_string("{{ rec('r', " + SPEC["expr"] + ") }}")


def _wrap(v):
    f = P.get("form", "list")
    if f == "list" or SPEC.get("nowrap"):
        return v
    if f == "gen":
        return gen_of(v)
    if f == "agen":
        return agen_of(v)
    if f == "tuple":
        return tuple(v)
    raise AssertionError(f)


def _deep(v):
    if isinstance(v, tuple) and v == ("<undefined>",):
        return v
    if isinstance(v, (list, tuple)):
        return [_deep(x) for x in v]
    if isinstance(v, dict):
        return {k: _deep(x) for k, x in v.items()}
    return norm(v)


def _run(ctx):
    """Render; return ('ok', value) / ('exc', class name); also whether inputs are unchanged."""
    before = copy.deepcopy({k: v for k, v in ctx.items() if isinstance(v, (list, dict))})
    rec = Rec()
    c2 = dict(ctx)
    if "xs" in c2:
        c2["xs"] = _wrap(c2["xs"])
    try:
        if P.get("asyncm"):
            drive(T.render_async(rec=rec, **c2))
        else:
            T.render(rec=rec, **c2)
        got = ("ok", _deep(rec.log[0][1]))
    except Exception as e:
        got = ("exc", type(e).__name__)
    same = all(ctx[k] == v for k, v in before.items())
    return got, same


def _expect(f, *a):
    try:
        return ("ok", _deep(f(*a)))
    except Exception as e:
        return ("exc", type(e).__name__)


def PRE(xs, ys, n, m, b1, b2):
    if len(xs) > MAXLEN or len(ys) > MAXLEN:
        return False
    if SPEC.get("items") and len(xs) != len(ys):
        return False
    pre = SPEC.get("pre")
    return pre(xs, ys, n, m, b1, b2) if pre else True


def filt_ok(xs: List[int], ys: List[int], n: int, m: int, b1: bool, b2: bool) -> bool:
    """
    pre: PRE(xs, ys, n, m, b1, b2)
    post: _
    """
    if SPEC.get("ctx"):
        ctx = SPEC["ctx"](xs, ys, n, m, b1, b2)
    elif SPEC.get("items"):
        ctx = dict(xs=items_of(xs, ys))
    else:
        ctx = dict(xs=[x for x in xs])
    got, same = _run(ctx)
    exp = _expect(SPEC["exp"], xs, ys, n, m, b1, b2)
    return got == exp and same


def SPRE(xs, ys, n, m, b1, b2):
    if len(xs) > MAXLEN or len(ys) > MAXLEN or not all(0 <= x < len(STRS) for x in xs):
        return False
    if SPEC.get("ints_small") and not all(0 <= y < 4 for y in ys):
        return False
    return True


def sfilt_ok(xs: List[int], ys: List[int], n: int, m: int, b1: bool, b2: bool) -> bool:
    """
    pre: SPRE(xs, ys, n, m, b1, b2)
    post: _
    """
    s = _s(xs)
    if SPEC.get("ints_small"):
        ys = [[-1, 0, 7, 10][pick(y, 4)] for y in ys]
    pre = SPEC.get("pre")
    if pre and not pre(s, ys, n, m, b1, b2):
        return True
    ctx = SPEC["ctx"](s, ys, n, m, b1, b2)
    got, same = _run(ctx)
    exp = _expect(SPEC["exp"], s, ys, n, m, b1, b2)
    return got == exp and same


# filters that have an async variant and therefore accept async iterables
ASYNC_AWARE = {"unique", "groupby", "join", "first", "sum", "list", "slice", "map", "select", "reject", "selectattr", "rejectattr"}


def conditions(tier, seed):
    thorough = tier == "thorough"
    maxlen = 4 if thorough else 3
    to = 300 if thorough else 40
    out = []
    for name, sp in SPECS.items():
        for asyncm in (False, True):
            forms = ["list"]
            if not sp.get("seq_only") and (not asyncm or name.split("_")[0] in ASYNC_AWARE):
                forms.append("agen" if asyncm else "gen")
            for form in forms:
                ml = maxlen
                if not thorough and form in ("gen",) and name not in ("batch", "first", "sum", "groupby", "select_test", "unique"):
                    ml = 2   # one-shot iterators for every filter, at a smaller bound in the quick tier
                p = dict(spec=name, asyncm=asyncm, form=form, maxlen=ml)
                out.append(Cond(f"{name}[{'async' if asyncm else 'sync'},{form}]", "filt_ok", mode="A", param=p, timeout=to,
                                witnesses=[[[3, 1, 3], [7, 8, 9], 2, 5, True, False], [[], [], 1, 0, False, False],
                                           [[2, 2, 1], [0, 1, 2], 3, -1, True, True]][: (3 if ml >= 3 else 2)] + ([[[1, 4], [5, 6], 1, 2, True, False]] if ml == 2 else []),
                                bounds=f"lists of <= {ml} arbitrary ints (items: dicts k/v of arbitrary ints), any int n/m, any flags; template: {sp['expr']}"))
    for name, sp in SSPECS.items():
        for asyncm in (False, True):
            ml = maxlen - 1 if name in ("dictsort", "groupby_str_default", "join_int", "groupby_str") else maxlen
            p = dict(spec=name, asyncm=asyncm, form="list", maxlen=ml, strs=True)
            out.append(Cond(f"{name}[{'async' if asyncm else 'sync'}]", "sfilt_ok", mode="B", param=p, timeout=to,
                            witnesses=[[[0, 1], [0, 1], 1, 0, False, False], [[3, 0], [1, 2], 0, 0, True, True], [[], [], 0, 0, False, True], [[2, 1], [3, 3], 1, 0, True, False]],
                            bounds=f"<= {ml} strings drawn from {STRS} (selector), accompanying ints, flags; template: {sp['expr']}"))
    return out
