"""C05 — include and import honor the documented context visibility.

Template sets (a main program with includes / imports placed at the top level, in loops, in with blocks and
conditionals; included templates reading context, local and global variables and including further
templates; modules with public and private top-level assignments and macros) are generated from a seeded
grammar (vfw/tmodel.py).  Templates are compiled natively; whether each candidate template exists is decided
by symbolic bools through a loader that serves the precompiled code; branch bools, loop data and values are
symbolic (mode A).  Rendered text and recorded values must equal the reference model's.
"""
import random
from typing import List

from jinja2 import BaseLoader, Environment
from jinja2.exceptions import TemplateNotFound, TemplatesNotFound, UndefinedError
from jinja2.runtime import Macro as JMacro, Undefined
from jinja2.environment import TemplateModule
from vfw import tmodel as M
from vfw.core import Cond
from vfw.support import Rec, drive

FUNCTIONS = ["jinja2.compiler.CodeGenerator.visit_Include/_import_common/visit_Import/visit_FromImport", "Template.make_module/_get_default_module(_async)/TemplateModule",
             "Template.new_context / Context.get_all / Context.get_exported / exported_vars bookkeeping", "Environment.get_template/select_template/get_or_select_template",
             "jinja2.parser.Parser.parse_include/parse_import/parse_from/parse_import_context"]
OUTSIDE = ["template sets outside the generated family", "template objects passed to include/import", "imports inside macros"]
ASSUMPTIONS = ["reference model in vfw/tmodel.py transcribes docs/templates.rst 'Include' and 'Import Context Behavior'",
               "module top-level code does not call the recorder (imports without context are cached per template, as documented)"]

P = {}
TEMPLATES = {}
CODE = {}
ENV = None
PRESENT = {}
CUR = {"rec": None}
OPTIONAL = ["inc2", "leaf", "mod2"]


class FlagLoader(BaseLoader):
    def load(self, environment, name, globals=None):
        if name not in CODE or not PRESENT.get(name, True):
            raise TemplateNotFound(name)
        return environment.template_class.from_code(environment, CODE[name], environment.make_globals(globals), None)


def _rec(*a):
    return CUR["rec"](*a)


def _o(name):
    return ("out", ("v", name))


def gen_inc(rnd, nm, leaf_ok):
    body = [("text", nm[0].upper())]
    for v in rnd.sample(["x", "y", "i", "g", "gl", "h", "h", "u", "u"], 4):
        body.append(_o(v))
    if rnd.random() < 0.5:
        body.append(("set", "x", ("c", 41)))
        body.append(_o("x"))
    if leaf_ok and rnd.random() < 0.5:
        body.append(("include", ["leaf"], rnd.choice([None, True, False]), rnd.random() < 0.5))
    body.append(("text", "."))
    return body


def gen_mod(rnd, nm):
    k = 50 if nm == "mod1" else 60
    body = [("set", "v", ("c", k + 1)), ("set", "_p", ("c", k + 2)), ("settuple", ["tv", "tw", "_tq"], [("c", k + 5), ("c", k + 6), ("c", k + 7)])]
    mbody = [("text", "F"), _o("p"), _o("v"), _o("gl")] + [_o(rnd.choice(["x", "y", "g", "i", "h"]))]
    if nm == "mod2" and rnd.random() < 0.6:
        # an aliased import of a name this module also defines itself: the module still exposes its own v / f
        body.append(("fromimport", "mod1", [("v", "v_alias"), ("f", "f_alias")] if rnd.random() < 0.5 else [("v", "v_alias")], rnd.choice([None, False])))
    body.append(("macro", "f", ["p"], mbody))
    body.append(("macro", "_h", [], [("text", "H")]))
    if rnd.random() < 0.5:
        body.append(("set", "w", ("vd", "g", 1)))   # depends on context visibility at import time
    # top-level values that depend on what the importing scope lets the module see (loop / with locals under 'with context')
    body.append(("set", "wi", ("vd", "i", 1)))
    body.append(("set", "wy", ("vd", "y", 2)))
    body.append(("text", "MODTEXT"))
    return body


def gen_use(rnd, depth):
    r = rnd.random()
    if r < 0.3:
        names = rnd.choice([["inc1"], ["inc2"], ["inc2", "inc1"], ["nope", "inc2", "inc1"], ["nope"], ["leaf"]])
        return [("include", names, rnd.choice([None, True, False]), rnd.random() < 0.5)]
    if r < 0.5:
        alias = rnd.choice(["m", "n"])
        tn = rnd.choice(["mod1", "mod2"])
        wc = rnd.choice([None, True, False])
        out = [("import", tn, alias, wc), ("callm_attr", alias, "f", [("v", rnd.choice(["x", "g"]))]),
               ("out", ("attr", alias, "v")), ("out", ("attr", alias, "_p")), ("out", ("attr", alias, "w")), ("out", ("attr", alias, "zz")),
               ("out", ("attr", alias, "tw")), ("out", ("attr", alias, "_tq")), ("out", ("attr", alias, "wi")), ("out", ("attr", alias, "wy"))]
        return out
    if r < 0.62:
        tn = rnd.choice(["mod1", "mod2"])
        wc = rnd.choice([None, True, False])
        return [("fromimport", tn, [("f", "ff"), ("v", "v2"), ("nothere", "nh")], wc),
                ("callm", "ff", [("c", 3)]), _o("v2"), _o("nh")]
    if r < 0.72:
        return [("set", rnd.choice(["x", "y"]), ("c", rnd.randint(1, 9))), _o("x")]
    if depth < 2 and r < 0.82:
        return [("for", "i", rnd.choice(["xs", "ys"]), gen_uses(rnd, depth + 1), None, False)]
    if depth < 2 and r < 0.9:
        return [("with", "y", ("c", 33), gen_uses(rnd, depth + 1))]
    if depth < 2 and r < 0.95:
        return [("if", rnd.randint(0, 3), gen_uses(rnd, depth + 1), gen_uses(rnd, depth + 1) if rnd.random() < 0.4 else None)]
    if depth == 0 and BLK[0] < 2:
        BLK[0] += 1
        names = rnd.choice([["inc1"], ["inc2", "inc1"], ["leaf"]])
        return [("block", "bk%d" % BLK[0], [("text", "B"), ("include", names, rnd.choice([None, True]), True), _o("h")], False)]
    return [_o("y"), _o("h")]


BLK = [0]


def gen_uses(rnd, depth):
    out = []
    for _ in range(rnd.randint(1, 3)):
        out.extend(gen_use(rnd, depth))
    return out


def gen_set(seed):
    rnd = random.Random(seed)
    t = {"leaf": [("text", "L"), _o("x"), _o("gl"), _o("i")], "inc1": gen_inc(rnd, "inc1", True), "inc2": gen_inc(rnd, "jnc2", True),
         "mod1": gen_mod(rnd, "mod1"), "mod2": gen_mod(rnd, "mod2")}
    BLK[0] = 0
    # h is both a render argument and assigned at the top of main: the template's own assignment wins everywhere
    main = [("text", "<"), ("set", "h", ("c", 99))] + gen_uses(rnd, 0) + gen_uses(rnd, 0) + [_o("x"), _o("y"), _o("h"), ("text", ">"), ("set", "u", ("c", 5))]
    # u is a render argument that main assigns only at its very end: includes before that see the argument
    t["main"] = main
    return t


# the statement ("callm_attr", alias, name, args) -> {{ alias.name(args) }}: extend printer and interpreter locally
_pstmt0 = M.pstmt


def _pstmt(s, rn):
    if s[0] == "callm_attr":
        return "{{ %s.%s(%s) }}" % (rn(s[1]), s[2], ", ".join(M.pexpr(a, rn) for a in s[3]))
    return _pstmt0(s, rn)


M.pstmt = _pstmt


class Interp(M.Interp):
    def _exec(self, stmts, scope, frame, out, tpl, suppress=False, block_ctx=None):
        for s in stmts:
            if s[0] == "callm_attr":
                mod = scope.get(s[1])
                m = mod.attrs.get(s[2], M.UNDEF) if isinstance(mod, M.Module) else M.UNDEF
                if not isinstance(m, M.Macro):
                    raise M.TplUndefined("not callable")
                out.append(self._call(m, [self._eval(a, scope) for a in s[3]], None, frame))
            else:
                M.Interp._exec(self, [s], scope, frame, out, tpl, suppress, block_ctx)

    def _include(self, s, scope, frame, out):
        saved = self.__class__
        return M.Interp._include(self, s, scope, frame, out)


def setup(param):
    global P, TEMPLATES, ENV
    P = dict(param or {})
    TEMPLATES = gen_set(P.get("prog", 0))
    ENV = Environment(loader=FlagLoader(), cache_size=0, enable_async=bool(P.get("asyncm")))
    ENV.globals["rec"] = _rec
    ENV.globals["gl"] = 77
    CODE.clear()
    PRESENT.clear()
    for n, st in TEMPLATES.items():
        CODE[n] = ENV.compile(M.pstmts(st, M.ident), n, n)


def _norm(v):
    if isinstance(v, Undefined):
        return M.UNDEF
    if isinstance(v, JMacro):
        return "<macro>"
    if isinstance(v, TemplateModule):
        return "<module>"
    if isinstance(v, str):
        return str(v)
    return v


def _run(ctx):
    rec = Rec()
    CUR["rec"] = rec
    try:
        t = ENV.get_template("main")
        text = drive(t.render_async(**ctx)) if P.get("asyncm") else t.render(**ctx)
    except (TemplateNotFound, TemplatesNotFound):
        return ("exc", "TemplateNotFound", None)
    except UndefinedError:
        return ("exc", "UndefinedError", None)
    return ("ok", str(text), [tuple(_norm(v) for v in r) for r in rec.log])


def _ref(ctx):
    tpls = {n: s for n, s in TEMPLATES.items() if PRESENT.get(n, True)}
    it = Interp(tpls, {"gl": 77})
    try:
        text, log = it.render("main", ctx)
    except M.TplNotFound:
        return ("exc", "TemplateNotFound", None)
    except M.TplUndefined:
        return ("exc", "UndefinedError", None)
    return ("ok", text, [tuple(M.normalize_value(v) for v in r) for r in log])


def set_ok(cs: List[bool], xs: List[int], ys: List[int], g: int, present: List[bool]) -> bool:
    """
    pre: len(cs) == 4 and len(xs) <= MAXL() and len(ys) <= MAXL() and len(present) == 3
    post: _
    """
    for n, p in zip(OPTIONAL, present):
        PRESENT[n] = True if p else False
    ctx = dict(c0=cs[0], c1=cs[1], c2=cs[2], c3=cs[3], xs=[v for v in xs], ys=[v for v in ys], g=g, h=g - 1, u=g + 7)
    return _run(ctx) == _ref(ctx)


def MAXL():
    return P.get("maxl", 1)


def conditions(tier, seed):
    th = tier == "thorough"
    n = 300 if th else 40
    to = 120 if th else 25
    out = []
    for i in range(n):
        pid = seed * 100000 + i
        asyncm = i % 4 == 3
        out.append(Cond(f"set#{pid}{'[async]' if asyncm else ''}", "set_ok", mode="A", param={"prog": pid, "asyncm": asyncm, "maxl": 2 if th else 1}, timeout=to,
                        witnesses=[[[True, False, True, False], [5], [2], 7, [True, True, True]], [[False] * 4, [], [], 0, [False, True, False]], [[True] * 4, [4], [6], -1, [True, False, True]]],
                        bounds="one generated template set: any 4 branch bools, any int lists of length <= 1 (2 thorough), any context value, any presence of the 3 optional templates"))
    return out
