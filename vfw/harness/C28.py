"""C28 — loaders never resolve a template name outside their search locations."""
import atexit
import os
import posixpath
import shutil
import sys
import tempfile
from typing import List

from jinja2 import ChoiceLoader, DictLoader, Environment, FileSystemLoader, PackageLoader, PrefixLoader
from jinja2.exceptions import TemplateNotFound
from jinja2.loaders import split_template_path
from vfw.core import Cond, pick, pickb
from vfw.support import NoTracing

FUNCTIONS = ["jinja2.loaders.split_template_path", "FileSystemLoader.get_source", "FileSystemLoader.get_source + up-to-date closure across file / searchpath changes", "PackageLoader.get_source",
             "ChoiceLoader.get_source/load", "PrefixLoader.get_loader/get_source/load", "BaseLoader.load", "Environment.get_template"]
OUTSIDE = ["names longer than 4 characters over the alphabet ./\\\\a: (mode A) or more than 4 segments from the fragment table (mode B)",
           "symlinks, Windows path semantics (os.sep is '/' here; altsep None)", "zip-archive packages"]
ASSUMPTIONS = ["a scratch directory tree is created per process under the system temp dir and removed at exit"]

ROOT = None
ENVS = {}
P = {}
OPENED = []
FRAGS = ["..", ".", "", "a.txt", "sub", "d", "secret.txt", "e.txt", "b.txt", "sub\\b.txt", "...", "emails"]


def _mk():
    global ROOT
    if ROOT:
        return
    ROOT = tempfile.mkdtemp(prefix="vf-c28-")
    atexit.register(shutil.rmtree, ROOT, True)
    w = lambda rel, txt: (os.makedirs(os.path.dirname(os.path.join(ROOT, rel)), exist_ok=True),
                          open(os.path.join(ROOT, rel), "w").write(txt))
    w("secret.txt", "TOP-SECRET")
    w("tpl/a.txt", "A")
    w("tpl/sub/b.txt", "B")
    w("tpl/sub/d/e.txt", "E")
    w("tpl/emails/index.txt", "EI")     # 'emails' is a directory in the first search path ...
    w("tpl2/emails", "EMAILS-FILE")     # ... and a file in the second
    w("tpl2/a.txt", "A2")
    w("tpl2/only2.txt", "O2")
    w("vfpkg28/__init__.py", "")
    w("vfpkg28/templates/a.txt", "PA")
    w("vfpkg28/templates/sub/b.txt", "PB")
    w("vfpkg28/secret.txt", "PKG-SECRET")
    sys.path.insert(0, ROOT)

    def hook(ev, args):
        if ev == "open" and isinstance(args[0], str) and args[0].startswith(ROOT):
            OPENED.append(args[0])
    sys.addaudithook(hook)
    t1, t2 = os.path.join(ROOT, "tpl"), os.path.join(ROOT, "tpl2")
    ENVS["fs"] = (Environment(loader=FileSystemLoader(t1)), [t1])
    ENVS["fs2"] = (Environment(loader=FileSystemLoader([t1, t2])), [t1, t2])
    ENVS["choice"] = (Environment(loader=ChoiceLoader([FileSystemLoader(t1), FileSystemLoader(t2)])), [t1, t2])
    ENVS["prefix"] = (Environment(loader=PrefixLoader({"p": FileSystemLoader(t1), "q": FileSystemLoader(t2)})), None)
    ENVS["pkg"] = (Environment(loader=PackageLoader("vfpkg28")), [os.path.join(ROOT, "vfpkg28", "templates")])


def setup(param):
    global P
    P = dict(param or {})
    _mk()


# ---------------------------------------------------------------- mode A: split_template_path on symbolic names
ALPHA = "./\\a:"


def split_ok(name: str) -> bool:
    """
    pre: len(name) <= MAXLEN() and all(c in ALPHA for c in name)
    post: _
    """
    try:
        pieces = split_template_path(name)
    except TemplateNotFound:
        # rejection is only legitimate for names that contain a parent reference or a platform separator
        segs = name.split("/")
        return any(s == ".." or os.sep in s or (os.path.altsep and os.path.altsep in s) for s in segs)
    for p in pieces:
        if p == ".." or p == "." or p == "" or "/" in p:
            return False
    root = "/srv/tpl"
    full = posixpath.normpath(posixpath.join(root, *pieces))
    return full == root or full.startswith(root + "/")


def MAXLEN():
    return P.get("maxlen", 4)


def split_b_ok(codes: List[int]) -> bool:
    """
    pre: len(codes) <= MAXLEN() and all(0 <= c < len(ALPHA) for c in codes)
    post: _
    """
    name = "".join(ALPHA[pick(c, len(ALPHA))] for c in codes)
    with NoTracing():
        return split_ok(name)


# ---------------------------------------------------------------- mode B: real loaders on a scratch tree
def _expected(searchpaths, segs):
    """Reference resolution: reject parent refs / separators, else first search path holding a regular file."""
    for s in segs:
        if s == ".." or os.sep in s or (os.path.altsep and os.path.altsep in s):
            return None
    clean = [s for s in segs if s and s != "."]
    for sp in searchpaths:
        f = os.path.join(sp, *clean) if clean else sp
        if os.path.isfile(f):
            with open(f) as fh:
                return fh.read()
    return None


def fs_ok(segs: List[int]) -> bool:
    """
    pre: 1 <= len(segs) <= MAXSEG() and all(0 <= s < len(FRAGS) for s in segs)
    post: _
    """
    parts = [FRAGS[pick(s, len(FRAGS))] for s in segs]
    with NoTracing():
        return _fs_native(parts)


def MAXSEG():
    return P.get("maxseg", 3)


def _fs_native(parts):
    kind = P.get("kind", "fs")
    env, sps = ENVS[kind]
    name = "/".join(parts)
    if kind == "prefix":
        ok = True
        for pre, sp in (("p", "tpl"), ("q", "tpl2")):
            ok = ok and _one(env, pre + "/" + name, [os.path.join(ROOT, sp)], parts)
        # unknown prefix / no delimiter -> TemplateNotFound
        ok = ok and _one(env, "zz/" + name, [], parts) and _one(env, parts[0], [], ["\x00none"])
        return ok
    return _one(env, name, sps, parts)


def _one(env, name, sps, parts):
    del OPENED[:]
    try:
        got = env.get_template(name).render()
    except TemplateNotFound:
        got = None
    exp = _expected(sps, parts) if sps else None
    if got != exp:
        return False
    # nothing outside the search directories was opened
    for o in OPENED:
        if not any(os.path.realpath(o).startswith(os.path.realpath(sp) + os.sep) for sp in (sps or [])):
            return False
    return True


# ---------------------------------------------------------------- mode B: a live FileSystemLoader while files and search path change
# The search directories are read from ``loader.searchpath`` at every lookup (a documented, public attribute),
# and files may appear in / disappear from them between lookups.
HOPS = ["get", "add@0", "del@0", "add@1", "del@1", "path=[0]", "path=[1]", "path=[0,1]"]


def HLEN():
    return P.get("hlen", 4)


def fs_hist_ok(h: int) -> bool:
    """
    pre: 0 <= h < len(HOPS) ** HLEN()
    post: _
    """
    h = pick(h, len(HOPS) ** HLEN())
    with NoTracing():
        return _fs_hist_native(h) is None


def _fs_hist_native(h):
    ops = []
    for _ in range(HLEN()):
        ops.append(HOPS[h % len(HOPS)])
        h //= len(HOPS)
    ops = ops[::-1] + ["get"]
    base = tempfile.mkdtemp(prefix="hist-", dir=ROOT)
    try:
        dirs = [os.path.join(base, "d0"), os.path.join(base, "d1")]
        for d in dirs:
            os.makedirs(d)
        with open(os.path.join(dirs[1], "x.txt"), "w") as f:
            f.write("X@1")
        loader = FileSystemLoader(dirs)
        env = Environment(loader=loader, cache_size=P.get("cache", 0))
        cur = [0, 1]
        for step, op in enumerate(ops):
            if op.startswith("add@") or op.startswith("del@"):
                i = int(op[-1])
                f = os.path.join(dirs[i], "x.txt")
                if op.startswith("add"):
                    with open(f, "w") as fh:
                        fh.write("X@%d" % i)
                elif os.path.exists(f):
                    os.remove(f)
                continue
            if op.startswith("path="):
                cur = [int(c) for c in op[6:-1].split(",")]
                loader.searchpath = [dirs[i] for i in cur]
                continue
            exp = next(("X@%d" % i for i in cur if os.path.isfile(os.path.join(dirs[i], "x.txt"))), None)
            del OPENED[:]
            for via in ("get_template", "get_source"):
                try:
                    got = env.get_template("x.txt").render() if via == "get_template" else loader.get_source(env, "x.txt")[0]
                except TemplateNotFound:
                    got = None
                if got != exp:
                    return "step %d of %r: %s gave %r, the search path %r holds %r" % (step, ops, via, got, cur, exp)
            for o in OPENED:
                if not any(os.path.realpath(o).startswith(os.path.realpath(dirs[i]) + os.sep) for i in cur):
                    return "step %d of %r: opened %r outside the search path %r" % (step, ops, o, cur)
        return None
    finally:
        shutil.rmtree(base, True)


# ---------------------------------------------------------------- mode A: choice / prefix resolution order
def choice_ok(present: List[bool], which: int) -> bool:
    """
    pre: len(present) == 6 and 0 <= which <= 1
    post: _
    """
    present = [bool(pickb(b)) for b in present]
    which = pick(which, 2)
    with NoTracing():
        return _choice_native(present, which)


def _choice_native(present, which):
    names = ["x", "y"]
    loaders = []
    for i in range(3):
        m = {}
        for j, n in enumerate(names):
            if present[i * 2 + j]:
                m[n] = "L%d-%s" % (i, n)
        loaders.append(DictLoader(m))
    n = names[which]
    j = which
    exp = None
    for i in range(3):
        if present[i * 2 + j]:
            exp = "L%d-%s" % (i, n)
            break
    ok = True
    for env in (Environment(loader=ChoiceLoader(loaders), cache_size=0),
                Environment(loader=PrefixLoader({"a": ChoiceLoader(loaders[:2]), "b": loaders[2]}), cache_size=0)):
        if isinstance(env.loader, ChoiceLoader):
            cases = [(n, exp)]
        else:
            ea = next(("L%d-%s" % (i, n) for i in range(2) if present[i * 2 + j]), None)
            eb = "L2-%s" % n if present[4 + j] else None
            cases = [("a/" + n, ea), ("b/" + n, eb), ("c/" + n, None), (n, None)]
        for nm, e in cases:
            try:
                got = env.get_template(nm).render()
            except TemplateNotFound:
                got = None
            ok = ok and got == e
            try:
                src = env.loader.get_source(env, nm)[0]
            except TemplateNotFound:
                src = None
            ok = ok and src == e
    return ok


# ---------------------------------------------------------------- mode B: prefix loader with overlapping prefixes
REG = ["app1", "app10", "app", "b", "app1/x"]
ASK = ["app1", "app10", "app", "app12", "app1x", "b", "ap", "", "bb", "APP1"]
LOCALS = ["x", "y/x", "10/x"]
DELIMS = ["/", "::", "1"]


def prefix_ok(reg: List[bool], order: bool, ask: int, local: int, delim: int) -> bool:
    """
    pre: len(reg) == len(REG) and 0 <= ask < len(ASK) and 0 <= local < len(LOCALS) and 0 <= delim < len(DELIMS)
    post: _
    """
    regs = [bool(pickb(b)) for b in reg]
    order = bool(pickb(order))
    a = ASK[pick(ask, len(ASK))]
    loc = LOCALS[pick(local, len(LOCALS))]
    dl = DELIMS[pick(delim, len(DELIMS))]
    with NoTracing():
        names = [r for r, on in zip(REG, regs) if on]
        if order:
            names = names[::-1]
        mapping = {}
        for r in names:
            mapping[r] = DictLoader({l: "%s>%s" % (r, l) for l in LOCALS})
        env = Environment(loader=PrefixLoader(mapping, delimiter=dl), cache_size=0)
        name = a + dl + loc
        # documented: the part before the first delimiter selects the loader, the rest is passed to it
        head, sep, rest = name.partition(dl)
        exp = None
        if sep and head in mapping and rest in LOCALS:
            exp = "%s>%s" % (head, rest)
        try:
            got = env.get_template(name).render()
        except TemplateNotFound:
            got = None
        try:
            src = env.loader.get_source(env, name)[0]
        except TemplateNotFound:
            src = None
        if got != exp or src != exp:
            return False
        listed = sorted(env.list_templates())
        return listed == sorted(r + dl + l for r in mapping for l in LOCALS)


def conditions(tier, seed):
    th = tier == "thorough"
    to = 300 if th else 45
    out = [Cond("split_template_path[symbolic str, search only]", "split_ok", mode="S", param={"maxlen": 4}, timeout=to,
                witnesses=[[".."], ["a/"], ["\\a"], [""], ["./"]],
                bounds=f"names of length <= 4 over the alphabet {ALPHA!r} as a symbolic str: counterexample search only (path tree not exhausted within the budget)"),
           Cond("split_template_path[selectors]", "split_b_ok", mode="B", param={"maxlen": 6 if th else 5}, timeout=to * 2,
                witnesses=[[[0, 0, 1, 3]], [[3, 2, 3]]],
                bounds=f"all names of length <= {6 if th else 5} over the alphabet {ALPHA!r}, decoded from selectors")]
    for kind in ("fs", "fs2", "choice", "prefix", "pkg"):
        ms = 4 if th else 3
        out.append(Cond(f"loader[{kind}]", "fs_ok", mode="B", param={"kind": kind, "maxseg": ms}, timeout=to * 2,
                        witnesses=[[[3]], [[4, 8]], [[4, 0, 0, 6][:ms]], [[11]], [[4, 5, 7]], [[0, 6]], [[9]]],
                        bounds=f"names of 1..{ms} segments from {FRAGS!r} joined by '/', real loader on a scratch tree with a sentinel outside; opened files audited"))
    for cache in (0,):   # the template cache is C25's subject: a cached template is revalidated against the file it came from
        hl = 5 if th else 4
        k = len(HOPS)
        enc = lambda ds: [sum(d * k ** (len(ds) - 1 - i) for i, d in enumerate(ds))]
        out.append(Cond(f"live FileSystemLoader history[cache_size={cache}]", "fs_hist_ok", mode="B", param={"hlen": hl, "cache": cache}, timeout=to * 2,
                        witnesses=[enc(([0] * hl + [0, 1, 0])[-hl:]), enc(([0] * hl + [0, 5, 3, 7])[-hl:]), enc(([0] * hl + [0, 6, 4, 7])[-hl:]), enc(([0] * hl + [4, 0, 1, 2])[-hl:])],
                        bounds=f"all histories of {hl} operations from {HOPS} (then one more get) on a FileSystemLoader over two scratch directories; after every lookup the "
                               "text served must come from the first directory of the current loader.searchpath that holds the file, and no file outside the current search path may be opened"))
    out.append(Cond("prefix loader with overlapping prefixes", "prefix_ok", mode="B", param={}, timeout=to * 3,
                    witnesses=[[[True, True, False, False, False], False, 1, 0, 0], [[True, False, True, True, False], True, 3, 0, 0], [[True, True, True, True, True], False, 0, 2, 2],
                               [[False, False, True, False, False], False, 4, 1, 1]],
                    bounds=f"every subset of the registered prefixes {REG} in both registration orders x requested prefix from {ASK} x local names {LOCALS} x delimiters {DELIMS}; "
                           "get_template, get_source and list_templates against 'the text before the first delimiter selects the loader'"))
    out.append(Cond("choice/prefix order", "choice_ok", mode="B", param={}, timeout=to,
                    witnesses=[[[False, True, True, False, True, True], 0], [[False] * 6, 1]],
                    bounds="3 loaders x 2 names presence matrix (symbolic bools)"))
    return out
