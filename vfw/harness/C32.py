"""C32 — static template introspection over-approximates runtime behaviour.

Property: every variable a template looks up from the render context at run time is reported by
``meta.find_undeclared_variables`` (or is an environment global), and every template loaded at run time through
extends / include / import is reported by ``meta.find_referenced_templates`` or that iterator yields ``None``.

Observation points (documented override points only):

* ``Environment.context_class`` is a ``Context`` subclass whose ``resolve_or_missing`` performs the real lookup and
  records the name whenever it is *not* satisfied by the template's own top-level assignments (``context.vars``),
  i.e. whenever it is looked up from the render context / globals.  The lookup is attributed to the template whose
  generated code performed it (the loader gives every template the file name ``tpl:<name>``; the nearest such frame
  is the requester), because a parent template's code runs on the child's context.
* ``Environment.join_path`` records every ``(requesting template, requested name)`` of extends / include / import
  (the generated code passes its own name as ``parent``); a recording ``FunctionLoader`` serves the sources.

Oracle, per template of the set: ``looked up ⊆ find_undeclared_variables(env.parse(src)) ∪ env.globals`` and
``loaded ⊆ find_referenced_templates(ast)`` unless that contains ``None``.

* ``skel[...]`` (mode A): hand-written skeleton templates covering every scoping shape (if/elif/else assigning in
  some branches and reading afterwards, read-before-reassign, loops with else / filters / recursion / unpacking,
  macros and defaults, call blocks, blocks incl. scoped and ``self.x()``, with, filter blocks, set blocks, namespaces,
  conditional expressions, names shadowing environment globals, include / import / extends with constant names,
  constant lists / tuples, conditional expressions over constants, and names taken from variables) rendered with
  symbolic branch bools, symbolic ints in conditions and lists of symbolic length/contents: the solver decides
  which branches execute, so the inclusion is checked for every feasible combination.  Dynamic template names are
  selectors over the existing names (plus a missing one) decoded by forks.
* ``gen[...]`` (mode A): seeded random statement trees (depth <= 3) over a pool of three variable names, four
  condition bools and two lists of symbolic length, with nested macros / call blocks / blocks / includes / imports.

Sync and async (driven without an event loop).
"""
import os
import random
import sys
from typing import List

from jinja2 import Environment, FunctionLoader, meta
from jinja2.runtime import Context
from vfw.core import Cond, pick
from vfw.support import NoTracing, drive

FUNCTIONS = [
    "jinja2.meta.find_undeclared_variables / TrackingCodeGenerator.enter_frame", "jinja2.meta.find_referenced_templates",
    "jinja2.idtracking (Symbols.load/store/branch_update/declare_parameter, FrameSymbolVisitor, RootVisitor) as used by "
    "both the tracking and the real code generator",
    "jinja2.compiler.CodeGenerator.enter_frame / visit_Template / visit_Block / visit_For / visit_If / macro_body / "
    "visit_Include / visit_Import / visit_FromImport / visit_Extends (generated code executed at run time)",
    "jinja2.runtime.Context.resolve_or_missing / resolve / derived / get_all, new_context",
    "jinja2.environment.Environment.get_template / select_template / get_or_select_template / join_path",
]
OUTSIDE = [
    "templates outside the skeleton set and the seeded generator's grammar / depth bound; lists longer than the bound",
    "lookups made by extensions or by Python code through Context.resolve / Context.get (no template frame): i18n, "
    "pass_context callables", "Template objects passed as include / extends targets (no name is requested)",
    "names that find_undeclared_variables reports but are never looked up (over-approximation is allowed)",
]
ASSUMPTIONS = [
    "templates are parsed, analysed and compiled natively at import; only rendering runs under tracing",
    "a lookup is attributed to the template whose generated code frame is nearest on the call stack (file name tpl:<name>)",
    "the environments use finalize=lambda v: '' (printed values are blanked so that symbolic ints never become text)",
    "a name satisfied by context.vars (the template's own exported assignments) is not a lookup from the render context",
    "async code is driven with coroutine.send(None)",
]

# ------------------------------------------------------------------------------------------------ templates
HELPERS = {
    "h_inc": "{{ iv }}{% if c2 %}{{ iw }}{% set it = 1 %}{% endif %}{{ it }}",
    "h_inc2": "{{ jv }}{% for q in xs %}{{ q }}{{ jw }}{% else %}{{ je }}{% endfor %}",
    "h_inc3": "{% include 'h_inc2' %}{{ kv }}",
    "h_usex": "{{ x }}{{ outerv }}{% if c2 %}{{ loop }}{% endif %}",
    "h_lib": "{% macro m1(p) %}{{ p }}{{ lg }}{% if c2 %}{{ lh }}{% endif %}{% endmacro %}{% set v1 = lv %}{% if c2 %}{% set v2 = lw %}{% endif %}{{ lbody }}",
    "h_lib2": "{% set k = kk %}{% macro m1(p) %}{{ p }}{{ k }}{{ k2 }}{% endmacro %}{% import 'h_lib' as inner %}",
    "h_base": "{% block one %}{{ b1 }}{% endblock %}{{ bt }}{% if c2 %}{{ bu }}{% endif %}{% block two %}{% include 'h_inc' %}{% endblock %}"
              "{% for x in xs %}{% block three scoped %}{{ x }}{{ b3 }}{% endblock %}{% endfor %}",
    "h_base2": "{% extends 'h_base' %}{% block two %}{{ super() }}{{ b2v }}{% if c2 %}{{ b2w }}{% endif %}{% endblock %}{{ ignored }}",
    "h_base3": "{% extends layout2 %}{% block one %}{{ b3one }}{{ super() }}{% endblock %}",
}
MAIN = {
    "t_if": "{% if c1 %}{% set v = 1 %}{% elif c2 %}{% set w = 2 %}{% else %}{% set v = 3 %}{% endif %}{{ v }}{{ w }}{{ u }}",
    "t_if_nested": "{% if c1 %}{% if c2 %}{% set v = 1 %}{% endif %}{{ v }}{% else %}{% if c3 %}{% set w = 1 %}{% else %}{% set v = 2 %}{% endif %}"
                   "{% endif %}{{ v }}{{ w }}{% if n > 3 %}{% set z = 1 %}{% elif n < 0 %}{{ z }}{% endif %}{{ z }}",
    "t_readset": "{{ n }}{% set n = n + 1 %}{{ n }}{% if c1 %}{% set m = n %}{% endif %}{{ m }}{% set p = p %}{{ p }}"
                 "{% if c2 %}{{ q }}{% set q = 1 %}{% else %}{% set q = 2 %}{% endif %}{{ q }}",
    "t_for": "{% for x in xs %}{{ x }}{{ a }}{% if c1 %}{% set a = x %}{% endif %}{{ a }}{% else %}{{ b }}{% endfor %}{{ x }}{{ loop }}",
    "t_forfilter": "{% for x in xs if x > t and c1 %}{{ loop.index }}{{ u }}{% else %}{{ w }}{% endfor %}"
                   "{% for y in xs if y is odd %}{{ y }}{% set t = y %}{{ t }}{% endfor %}{{ t }}",
    "t_forrec": "{% for x in tree recursive %}{{ x.v }}{% if x.ch %}{{ loop(x.ch) }}{{ deepv }}{% endif %}{{ a }}{% else %}{{ emptyv }}{% endfor %}",
    "t_forunpack": "{% for k, v in pairs %}{{ k }}{{ v }}{% if c1 %}{% set k = kk %}{% endif %}{{ k }}{% endfor %}{{ k }}{{ v }}"
                   "{% set a, b = pair %}{{ a }}{{ b }}{% for x in xs %}{% for y in xs %}{{ x }}{{ y }}{{ z }}{% endfor %}{{ y }}{% endfor %}",
    "t_macro": "{% macro m(p, q=dflt) %}{{ p }}{{ q }}{{ g1 }}{% if c2 %}{{ g2 }}{% endif %}{{ varargs }}{{ kwargs }}{% endmacro %}"
               "{% if c1 %}{{ m(1) }}{% else %}{{ m(a, b) }}{% endif %}{% macro m2() %}{{ m(h) }}{{ caller }}{% endmacro %}{% if c3 %}{{ m2() }}{% endif %}",
    "t_macro_scope": "{% set outer = 1 %}{% for x in xs %}{% if c1 %}{% set acc = x %}{% endif %}{% macro mm(p=x) %}{{ acc }}{{ x }}{{ outer }}{{ free }}"
                     "{% endmacro %}{{ mm() }}{% endfor %}{{ mm }}{{ acc }}",
    "t_call": "{% macro w() %}{{ caller(u1) }}{% endmacro %}{% call(z) w() %}{{ z }}{{ inner }}{% if c1 %}{{ deep }}{% endif %}{% endcall %}"
              "{% call w() %}{{ z }}{% endcall %}",
    "t_block": "{% set top = 1 %}{% block b %}{{ top }}{{ bv }}{% if c1 %}{{ bw }}{% set bl = 1 %}{% endif %}{{ bl }}{% endblock %}"
               "{% for x in xs %}{% block s scoped %}{{ x }}{{ sv }}{% endblock %}{% block ns %}{{ x }}{% endblock %}{% endfor %}{{ self.b() }}",
    "t_with": "{% with a = va, b = a2 %}{{ a }}{{ b }}{{ cc }}{% if c1 %}{% set a = 5 %}{% set d = 6 %}{% endif %}{{ d }}{% endwith %}{{ a }}{{ d }}",
    "t_filterblk": "{% filter replace(fa, fb) %}{{ inner }}{% if c1 %}{{ i2 }}{% set fv = 1 %}{% endif %}{{ fv }}{% endfilter %}{{ fv }}",
    "t_setblk": "{% set blk %}{{ s1 }}{% if c1 %}{{ s2 }}{% set sb = 1 %}{% endif %}{{ sb }}{% endset %}{{ blk }}{% set fb | upper %}{{ s3 }}{% endset %}{{ sb }}"
                "{% set fc | default(sd1) | default(sd2 if c2 else sd3) %}{{ s4 }}{% endset %}",
    "t_ns": "{% set ns = namespace(v=init) %}{% for x in xs %}{% set ns.v = ns.v + step %}{% if c1 %}{% set ns.w = x %}{% endif %}{% endfor %}"
            "{{ ns.v }}{% if c2 %}{{ ns2.q }}{% endif %}",
    "t_condexpr": "{{ a if c1 else b }}{{ (x1 if c2) }}{{ c1 and d1 or d2 }}{{ [e1, e2][0 if c3 else 1] }}{% set r = r1 if c1 else r2 %}{{ r }}",
    "t_tests": "{{ v is defined }}{{ w|default(dv) }}{{ xs|map('abs')|list }}{{ xs|join(sep) if not xs }}{{ u is sameas(uu) }}{{ xs|select('gt', lim)|list }}"
               "{% if undefined_thing is defined %}{{ never }}{% endif %}",
    "t_shadow": "{{ range(2)|list }}{% if c1 %}{% set range = r2 %}{% endif %}{{ range }}{{ dict(a=1) }}{{ namespace }}{{ cycler }}{{ joiner }}{{ lipsum is defined }}"
                "{% for dict in xs %}{{ dict }}{% endfor %}{{ dict }}",
    "t_autoescape": "{% autoescape ae %}{{ av }}{% if c1 %}{% set asv = 1 %}{% endif %}{{ asv }}{% for x in xs %}{% if c2 %}{% set lv = x %}{% endif %}{{ lv }}"
                    "{% endfor %}{% endautoescape %}{{ asv }}",
    "t_selfblocks": "{{ self.b() }}{% block b %}{{ bb }}{% if c1 %}{{ self.c() }}{% endif %}{% endblock %}{% if c2 %}{% block c %}{{ cc }}{% endblock %}{% endif %}",
    "t_inc_const": "{% include 'h_inc' %}{% if c1 %}{% include 'h_inc2' without context %}{% endif %}{% include 'h_missing' ignore missing %}"
                   "{% set it = 5 %}{% include 'h_inc' %}",
    "t_inc_list": "{% include ['h_missing', 'h_inc'] %}{% include ('h_inc2', 'h_inc') ignore missing %}{% if c1 %}{% include ['h_missing2', 'h_inc3'] %}{% endif %}",
    "t_inc_dyn": "{% include dyn %}{% if c1 %}{% include [dyn2, 'h_inc'] ignore missing %}{% endif %}",
    "t_inc_cond": "{% include 'h_inc' if c1 else 'h_inc2' %}{% include ['h_inc3'] if c3 else ['h_usex'] %}",
    "t_inc_loop": "{% for x in xs %}{% include 'h_usex' %}{% endfor %}{% include 'h_usex' %}",
    "t_import": "{% import 'h_lib' as lib %}{% from 'h_lib' import m1, v1 as vv with context %}{{ lib.m1(a) }}{{ vv }}{{ m1(b) }}"
                "{% if c1 %}{% import 'h_lib2' as l2 %}{{ l2.k }}{{ l2.m1(1) }}{% endif %}{{ l2 }}",
    "t_import_dyn": "{% import libname as lib %}{{ lib.m1(1) }}{% if c1 %}{% from libname2 import m1 %}{{ m1(2) }}{% endif %}",
    "t_import_macro": "{% macro user() %}{% from 'h_lib' import m1 %}{{ m1(mu) }}{% endmacro %}{% for x in xs %}{% import 'h_lib2' as li %}{{ li.m1(x) }}{% endfor %}"
                      "{% if c1 %}{{ user() }}{% endif %}",
    "t_ext_const": "{% extends 'h_base' %}{% block one %}{{ super() }}{{ cv }}{% if c1 %}{{ cw }}{% endif %}{% endblock %}{% set topv = tv %}",
    "t_ext_chain": "{% extends 'h_base2' %}{% block two %}{{ super() }}{{ c2v }}{% endblock %}{% block three %}{{ x }}{{ c3v }}{% endblock %}",
    "t_ext_cond": "{% extends 'h_base' if c1 else 'h_base2' %}{% block one %}{{ ecv }}{% endblock %}",
    "t_ext_dyn": "{% extends layout %}{% block one %}{{ dv }}{% endblock %}{% block two %}{{ super() }}{% endblock %}",
    "t_ext_dyn2": "{% extends 'h_base3' %}{% block two %}{{ e2 }}{% endblock %}",
    "t_ext_if": "{% if c1 %}{% extends 'h_base' %}{% endif %}{% block one %}x{{ q }}{% endblock %}body{{ r }}{% if c2 %}{{ r2 }}{% endif %}",
}
SOURCES = dict(HELPERS)
SOURCES.update(MAIN)
DYN_NAMES = ["h_inc2", "h_lib", "h_base2", "h_nothing"]


# ---- seeded generator of statement trees
def gen_template(rng, idx):
    names = ["a", "b", "c"]
    counter = [0]

    def fresh(prefix):
        counter[0] += 1
        return "%s%d_%d" % (prefix, idx, counter[0])

    def expr(scope):
        k = rng.randrange(5)
        if k == 0:
            return rng.choice(names)
        if k == 1 and scope:
            return rng.choice(scope)
        if k == 2:
            return "%s if k%d else %s" % (rng.choice(names), rng.randrange(1, 5), rng.choice(names))
        if k == 3:
            return "%s|default(%s)" % (rng.choice(names), rng.choice(names))
        return "free%d" % rng.randrange(3)

    def stmts(depth, scope, in_loop, toplevel):
        return "".join(stmt(depth, scope, in_loop, toplevel) for _ in range(rng.randrange(1, 4)))

    def stmt(depth, scope, in_loop, toplevel):
        k = rng.randrange(14 if depth < 3 else 3)
        if k == 0:
            return "{{ %s }}" % expr(scope)
        if k == 1:
            return "{%% set %s = %s %%}" % (rng.choice(names), expr(scope))
        if k == 2:
            return "{{ %s }}{%% set %s = %s %%}" % (rng.choice(names), rng.choice(names), rng.choice(names))
        if k in (3, 4):
            s = "{%% if k%d %%}%s" % (rng.randrange(1, 5), stmts(depth + 1, scope, in_loop, False))
            if rng.random() < 0.4:
                s += "{%% elif k%d %%}%s" % (rng.randrange(1, 5), stmts(depth + 1, scope, in_loop, False))
            if rng.random() < 0.5:
                s += "{% else %}" + stmts(depth + 1, scope, in_loop, False)
            return s + "{% endif %}"
        if k in (5, 6):
            var = rng.choice(names + ["x", "y"])
            s = "{%% for %s in L%d%s %%}%s" % (var, rng.randrange(1, 3), (" if %s > lim" % var) if rng.random() < 0.3 else "",
                                               stmts(depth + 1, scope + [var, "loop"], True, False))
            if rng.random() < 0.4:
                s += "{% else %}" + stmts(depth + 1, scope, in_loop, False)
            return s + "{% endfor %}"
        if k == 7:
            v = rng.choice(names)
            return "{%% with %s = %s %%}%s{%% endwith %%}" % (v, expr(scope), stmts(depth + 1, scope + [v], in_loop, False))
        if k == 8:
            m = fresh("m")
            p = rng.choice(names + ["p"])
            body = stmts(depth + 1, scope + [p], False, False)
            return "{%% macro %s(%s=%s) %%}%s{%% endmacro %%}{{ %s(%s) }}" % (m, p, expr(scope), body, m, "" if rng.random() < 0.5 else expr(scope))
        if k == 9:
            m = fresh("w")
            return ("{%% macro %s() %%}{{ caller(%s) }}{%% endmacro %%}{%% call(z) %s() %%}%s{%% endcall %%}"
                    % (m, expr(scope), m, stmts(depth + 1, scope + ["z"], in_loop, False)))
        if k == 10:
            b = fresh("blk")
            scoped = " scoped" if in_loop and rng.random() < 0.6 else ""
            return "{%% block %s%s %%}%s{%% endblock %%}" % (b, scoped, stmts(depth + 1, scope if scoped else [], False, False))
        if k == 11:
            v = rng.choice(names)
            if rng.random() < 0.5:
                return "{%% set %s %%}%s{%% endset %%}" % (v, stmts(depth + 1, scope, in_loop, False))
            return "{%% filter default(%s) %%}%s{%% endfilter %%}" % (expr(scope), stmts(depth + 1, scope, in_loop, False))
        if k == 12:
            r = rng.randrange(4)
            if r == 0:
                return "{% include 'g_inc' %}"
            if r == 1:
                return "{% include ['h_missing', 'g_inc'] ignore missing %}"
            if r == 2:
                return "{% include gdyn ignore missing %}"
            return "{% include 'g_inc' without context %}"
        r = rng.randrange(3)
        if r == 0:
            return "{%% import 'g_lib' as %s %%}{{ %s.gm(%s) }}" % (rng.choice(names), rng.choice(names), expr(scope))
        if r == 1:
            return "{%% from 'g_lib' import gm as %s with context %%}" % rng.choice(names)
        return "{%% from glib import gv as %s %%}" % rng.choice(names)

    return stmts(0, [], False, True)


GEN_HELPERS = {
    "g_inc": "{{ a }}{% if k1 %}{% set b = 1 %}{% endif %}{{ b }}{{ ginc_free }}",
    "g_lib": "{% macro gm(p) %}{{ p }}{{ a }}{% if k2 %}{{ glib_free }}{% endif %}{% endmacro %}{% set gv = c %}",
}
NGEN_QUICK = 24
NGEN_THOROUGH = 120


def _build_gen(n, seed):
    probe = Environment(loader=FunctionLoader(lambda name: GEN_HELPERS.get(name)))
    out = {}
    k = 0
    while len(out) < n:
        rng = random.Random(1000 * seed + k)
        k += 1
        src = gen_template(rng, len(out))
        try:
            probe.compile(src)
        except Exception:
            continue  # e.g. a block inside a macro body that refers to the macro's frame: not a valid template
        out["g%03d" % len(out)] = src
    return out


GEN = {}
GEN_SEED = [None]
SOURCES.update(GEN_HELPERS)

# ------------------------------------------------------------------------------------------------ recording
LOOKUPS = []
REQUESTS = []
LOADED = []
PREFIX = "tpl:"


def _requester():
    f = sys._getframe(2)
    while f is not None:
        fn = f.f_code.co_filename
        if fn.startswith(PREFIX):
            return fn[len(PREFIX):]
        f = f.f_back
    return None


class RecContext(Context):
    def resolve_or_missing(self, key):
        rv = Context.resolve_or_missing(self, key)
        if key not in self.vars:
            LOOKUPS.append((_requester(), key))
        return rv


class RecEnvironment(Environment):
    context_class = RecContext

    def join_path(self, template, parent):
        REQUESTS.append((parent, template))
        return template


def _load(name):
    src = SOURCES.get(name)
    if src is None:
        return None
    LOADED.append(name)
    return src, PREFIX + name, lambda: True


def _blank(value):
    """finalize: every printed value becomes '' so that no symbolic int is ever turned into text (the rendered
    text is not observed by this check; lookups and loads are)."""
    return ""


ENVS = {}
TPLS = {}
UNDECL = {}
REFS = {}
PARSE_ERRORS = {}


def _build(seed):
    """(Re)build the template set for a generator seed: parse, analyse and compile everything natively."""
    if GEN_SEED[0] == seed:
        return
    for name in GEN:
        del SOURCES[name]
    GEN.clear()
    GEN.update(_build_gen(NGEN_THOROUGH, seed))
    SOURCES.update(GEN)
    GEN_SEED[0] = seed
    del LOADED[:]
    for asyncm in (False, True):
        env = RecEnvironment(loader=FunctionLoader(_load), enable_async=asyncm, cache_size=-1, finalize=_blank)
        ENVS[asyncm] = env
        TPLS[asyncm] = {name: env.get_template(name) for name in SOURCES}  # compiled natively, once
    LOADABLE.clear()
    LOADABLE.update(LOADED)  # what the recording loader could serve
    env = ENVS[False]
    UNDECL.clear()
    REFS.clear()
    for name, src in SOURCES.items():
        ast = env.parse(src)
        UNDECL[name] = set(meta.find_undeclared_variables(ast))
        REFS[name] = list(meta.find_referenced_templates(ast))
    GLOBAL_KEYS.clear()
    GLOBAL_KEYS.update(env.globals)


LOADABLE = set()
GLOBAL_KEYS = set()
_build(int(os.environ.get("VERIF_SEED", "0") or 0))

P = {}


def setup(param):
    P.clear()
    P.update(param or {})
    _build(P.get("seed", 0))
    del LOOKUPS[:], REQUESTS[:]


def covered():
    """The two inclusions for everything recorded since the last reset."""
    for tpl, key in LOOKUPS:
        if tpl is None:
            return False  # a lookup that no template frame asked for: the attribution assumption is broken
        if key not in UNDECL[tpl] and key not in GLOBAL_KEYS:
            return False
    for parent, name in REQUESTS:
        if name in LOADABLE and parent in REFS:
            refs = REFS[parent]
            if name not in refs and None not in refs:
                return False
    return True


def run(tname, asyncm, data):
    env = ENVS[asyncm]
    with NoTracing():
        for t in TPLS[asyncm].values():
            t._module = None
        del LOOKUPS[:], REQUESTS[:]
        t = TPLS[asyncm][tname]
    try:
        if asyncm:
            drive(t.render_async(data))
        else:
            t.render(data)
    except Exception:
        pass  # lookups made before a template error count as well
    return covered()


def MAXX():
    return P.get("maxx", 2)


def skel_ok(c1: bool, c2: bool, c3: bool, xs: List[int], n: int, t: int, d1: int, d2: int) -> bool:
    """
    pre: len(xs) <= MAXX() and 0 <= d1 < len(DYN_NAMES) and 0 <= d2 < len(DYN_NAMES)
    post: _
    """
    tname = P["tpl"]
    data = dict(c1=c1, c2=c2, c3=c3, xs=[x for x in xs], n=n, t=t, lim=t, a=1, b=2, p=3, init=0, step=1, sep=",", va=1,
                pairs=[(x, n) for x in xs], pair=(n, t), tree=[{"v": n, "ch": ([{"v": t, "ch": []}] if c3 else [])} for _ in xs],
                fa="a", fb="b")
    if "dyn" in UNDECL[tname] or "libname" in UNDECL[tname] or "layout" in UNDECL[tname]:
        a = DYN_NAMES[pick(d1, len(DYN_NAMES))]
        b = DYN_NAMES[pick(d2, len(DYN_NAMES))]
        data.update(dyn=a, dyn2=b, libname=a, libname2=b, layout=a)
    if tname == "t_ext_dyn2":
        data["layout2"] = DYN_NAMES[pick(d1, len(DYN_NAMES))]
    return run(tname, bool(P.get("asyncm")), data)


def gen_ok(k1: bool, k2: bool, k3: bool, k4: bool, l1: List[int], l2: List[int], lim: int, d: int) -> bool:
    """
    pre: len(l1) <= MAXX() and len(l2) <= 1 and 0 <= d < 3
    post: _
    """
    tname = P["tpl"]
    data = dict(k1=k1, k2=k2, k3=k3, k4=k4, L1=[x for x in l1], L2=[x for x in l2], lim=lim, a=1, b=lim, free0=0)
    if "gdyn" in UNDECL[tname] or "glib" in UNDECL[tname]:
        name = ["g_inc", "g_lib", "h_nothing"][pick(d, 3)]
        data.update(gdyn=name, glib="g_lib" if name == "h_nothing" else name)
    return run(tname, bool(P.get("asyncm")), data)


def conditions(tier, seed):
    _build(seed)
    thorough = tier == "thorough"
    to = 300 if thorough else 45
    maxx = 3 if thorough else 2
    out = []
    for tname in MAIN:
        for asyncm in (False, True):
            p = dict(tpl=tname, asyncm=asyncm, maxx=maxx, seed=seed)
            out.append(Cond(f"skel[{tname},{'async' if asyncm else 'sync'}]", "skel_ok", mode="A", param=p, timeout=to,
                            witnesses=[[True, False, True, [1, 2], 5, 0, 0, 1], [False, True, False, [], -1, 3, 3, 2], [False, False, True, [4], 0, 9, 2, 3],
                                       [True, True, True, [3, 1], 2, 2, 1, 0]],
                            bounds=f"any c1, c2, c3; xs: <= {maxx} arbitrary ints; any ints n, t; dynamic template names: selectors over {DYN_NAMES}"))
    ngen = NGEN_THOROUGH if thorough else NGEN_QUICK
    for i in range(ngen):
        tname = "g%03d" % i
        asyncm = bool(i % 2) if not thorough else None
        for am in ((False, True) if thorough else (asyncm,)):
            p = dict(tpl=tname, asyncm=am, maxx=2, seed=seed)
            out.append(Cond(f"gen[{tname},{'async' if am else 'sync'}]", "gen_ok", mode="A", param=p, timeout=to,
                            witnesses=[[True, False, True, False, [1, 2], [3], 1, 0], [False, True, False, True, [], [], 0, 2], [True, True, True, True, [5], [0], 9, 1]],
                            bounds="any k1..k4; L1: <= 2 arbitrary ints, L2: <= 1; any int lim; dynamic name selector over 3 names; "
                                   f"generated template: {GEN[tname][:300]}"))
    return out
