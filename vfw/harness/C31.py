"""C31 — precompiled templates render exactly like templates compiled from source.

Template sets are produced by the C04 generator (inheritance hierarchies: super(), self.block(), scoped and
required blocks, conditional and dynamic extends), the C05 generator (includes with/without context and
``ignore missing``, imports, from-imports, modules with private names) and a hand-written set (filters, tests,
macros with call blocks, autoescape regions, globals, loop recursion).  In ``setup`` (native) the set is served by
a DictLoader, compiled ahead of time with ``Environment.compile_templates`` (directory, deflated zip, stored zip)
into a scratch directory and loaded back through ``ModuleLoader`` in a second environment.  Under CrossHair
(mode A) the branch bools, loop data and values handed to the templates are symbolic; each template of the set is
rendered through both environments on the same data and the text, every value recorded through ``rec(...)`` and
any exception (type and message) must agree.  Template names are mapped to file-system-like and non-ASCII names
so ``get_template_key`` / ``get_module_filename`` see realistic input.
"""
import os
import shutil
import tempfile
from typing import List

from jinja2 import ChoiceLoader, DictLoader, Environment, ModuleLoader, PrefixLoader
from jinja2.runtime import Macro as JMacro, Undefined
from jinja2.environment import TemplateModule
from vfw import tmodel as M
from vfw.core import Cond, pick
from vfw.support import Rec, drive
from vfw.harness import C04, C05

FUNCTIONS = ["jinja2.environment.Environment.compile_templates / compile(defer_init=True) / Template.from_module_dict / _from_namespace",
             "jinja2.loaders.ModuleLoader.__init__/get_template_key/get_module_filename/load", "jinja2.compiler.CodeGenerator.visit_Template (deferred environment binding) and the generated module code",
             "jinja2.runtime / jinja2.environment render paths shared by both loaders"]
OUTSIDE = ["template sets outside the generated families and the hand-written set", "py_compile'd .pyc targets (removed upstream)", "ModuleLoader shared between environments with different options",
           "data other than 4 bools, two int lists (length <= 2) and one int"]
ASSUMPTIONS = ["jinja2.debug.rewrite_traceback_stack runs untraced (it only decorates the traceback of an exception that is compared by type and message)", "the scratch directory for compiled modules is created with tempfile and removed when the worker exits"]

HAND = {
    "layout": "<!{% block title %}T{{ g|abs }}{% endblock %}|{% block body %}{% for i in xs if i is odd %}{{ loop.index }}:{{ i|string|center(3) }}{% else %}none{% endfor %}{% endblock %}|{{ self.title() }}>",
    "page": "{% extends 'layout' %}{% import 'lib' as lib %}{% block body %}{{ super() }}{{ lib.pair(g, *xs) }}{% call(v) lib.wrap(ys) %}[{{ v }}{{ rec('cb', v) }}]{% endcall %}{% include 'part' %}{% endblock %}",
    "lib": "{% macro pair(a, b=gl) %}({{ a }},{{ b }},{{ varargs|length }}){% endmacro %}{% macro wrap(seq) %}{% for s in seq %}{{ caller(s) }}{% endfor %}{{ seq|sum }}{% endmacro %}{% set exported = 12 %}{% set _hidden = 13 %}",
    "part": "{% autoescape true %}{{ '<' ~ g }}{{ ('<i>'|safe) ~ g }}{% endautoescape %}{% set ns = namespace(n=0) %}{% for y in ys %}{% set ns.n = ns.n + y %}{% endfor %}{{ rec('ns', ns.n) }}{% if c0 and g is divisibleby 3 %}D{% elif c1 %}E{% else %}F{% endif %}",
    "tree": "{% for n in [[g, [[1, []], [2, [[3, []]]]]]] recursive %}{{ n[0] }}{% if n[1] and c2 %}({{ loop(n[1]) }}){% endif %}{% endfor %}{% from 'lib' import pair, exported, nothere %}{{ pair(exported) }}{{ nothere is defined }}",
    "filters": "{% filter upper %}{{ xs|join('-') }}x{% endfilter %}{{ xs|map('abs')|list|sort|last|default(g, true) }}{{ (ys|first) is defined }}{{ ys|length + xs|length }}{% with q = g // 2 if c3 else g %}{{ rec('q', q) }}{% endwith %}",
    "uses": "{% include ['missing', 'part'] %}{% include 'missing' ignore missing %}{% if c0 %}{% include 'filters' without context %}{% endif %}{% import 'lib' as l with context %}{{ l.exported }}{{ l._hidden is defined }}",
}
# names that differ only in letter case are different templates; identifiers may be non-ASCII
HAND["Layout"] = "[{% block title %}other{% endblock %}|{{ g }}]"
HAND["cases"] = "{% include 'Layout' %}{% include 'layout' %}{% include 'LAYOUT' ignore missing %}{% include ['PART', 'part'] %}"
HAND["unicode"] = ("{% set größe = g + 1 %}{% macro übung(änderung, ß=2) %}{{ änderung }}{{ ß }}{{ größe }}{% endmacro %}{% block überschrift %}{{ übung(g) }}{% endblock %}"
                   "{% for zähler in xs %}{{ zähler }}{{ loop.index }}{% endfor %}{{ self.überschrift() }}{% with ñ = ys|length %}{{ ñ }}{% endwith %}")
HAND_MAIN = ["layout", "page", "tree", "filters", "uses", "part", "cases", "unicode", "Layout"]

RENAME = [lambda n: n, lambda n: "sub/" + n + ".html", lambda n: "dïr/" + n.upper() + ".j2", lambda n: n + ".a.b/" + n]

P = {}
SRC_ENV = None
MOD_ENV = None
NAMES = []
SETUP_FAIL = []
SCRATCH = [None]
CUR = {"rec": None}


def _rec(*a):
    return CUR["rec"](*a)


def _cleanup():
    if SCRATCH[0] and os.path.isdir(SCRATCH[0]):
        shutil.rmtree(SCRATCH[0], ignore_errors=True)
    SCRATCH[0] = None


import atexit
atexit.register(_cleanup)


def sources(param):
    """The template set as {name: source} plus the list of templates to render."""
    fam = param.get("family", "hier")
    prog = param.get("prog", 0)
    if fam == "hier":
        tpls, leaf = C04.gen_hierarchy(prog)
        src = {n: M.pstmts(s, M.ident) for n, s in tpls.items()}
        order = [leaf] + [n for n in src if n != leaf]
    elif fam == "set":
        tpls = C05.gen_set(prog)
        src = {n: M.pstmts(s, M.ident) for n, s in tpls.items()}
        order = ["main"] + [n for n in src if n != "main"]
    else:
        src = dict(HAND)
        order = list(HAND_MAIN)
    rn = RENAME[param.get("rename", 0) % len(RENAME)]
    names = sorted(src, key=len, reverse=True)
    out = {}
    for n, s in src.items():
        for m in names:
            s = s.replace("'%s'" % m, "'%s'" % rn(m).replace("'", ""))
        out[rn(n)] = s
    # drop the templates this parameter declares absent (ignore-missing / first-found paths)
    for n in param.get("absent", []):
        out.pop(rn(n), None)
    k = param.get("first", 0) % len(order)
    order = order[k:] + order[:k]
    return out, [rn(n) for n in order if rn(n) in out]


def _quiet_debug():
    """Traceback rewriting (jinja2.debug) builds code objects from frame data: run it untraced, it is not what C31 compares."""
    import jinja2.debug as D
    from vfw.support import NoTracing
    if getattr(D.rewrite_traceback_stack, "_vfw", False):
        return
    orig = D.rewrite_traceback_stack

    def rewrite_traceback_stack(source=None):
        with NoTracing():
            return orig(source)
    rewrite_traceback_stack._vfw = True
    D.rewrite_traceback_stack = rewrite_traceback_stack


def setup(param):
    global P, SRC_ENV, MOD_ENV, NAMES
    _quiet_debug()
    P = dict(param or {})
    _cleanup()
    if P.get("family") == "hist":
        SCRATCH[0] = tempfile.mkdtemp(prefix="vfw-c31-")
        zipmode = P.get("zip")
        HTARGET[0] = os.path.join(SCRATCH[0], "compiled.zip" if zipmode else "compiled")
        ce = Environment(loader=DictLoader(HIST))
        ce.filters["mark"] = lambda v: "COMPILE(%s)" % (v,)   # only its presence matters: no constant reaches it
        ce.compile_templates(HTARGET[0], zip=zipmode, ignore_errors=False)
        return
    src, NAMES = sources(P)
    asyncm = bool(P.get("asyncm"))
    SRC_ENV = Environment(loader=DictLoader(src), enable_async=asyncm)
    SCRATCH[0] = tempfile.mkdtemp(prefix="vfw-c31-")
    zipmode = P.get("zip")
    target = os.path.join(SCRATCH[0], "compiled.zip" if zipmode else "compiled")
    SRC_ENV.compile_templates(target, zip=zipmode, ignore_errors=False)
    wrap = P.get("wrap", 0)
    if wrap == 1:
        empty = os.path.join(SCRATCH[0], "empty")
        os.mkdir(empty)
        loader = ModuleLoader([empty, target])
    elif wrap == 2:
        loader = ChoiceLoader([DictLoader({}), ModuleLoader(target)])
    else:
        loader = ModuleLoader(target)
    MOD_ENV = Environment(loader=loader, enable_async=asyncm)
    for e in (SRC_ENV, MOD_ENV):
        e.globals["rec"] = _rec
        e.globals["gl"] = 77
    del SETUP_FAIL[:]
    for n in src:
        SRC_ENV.get_template(n)
        try:
            MOD_ENV.get_template(n)   # imports the compiled module natively
        except Exception as e:
            # a precompiled template that cannot be loaded although the source compiles is a violation, not a harness problem
            SETUP_FAIL.append((n, type(e).__name__))


def _norm(v):
    if isinstance(v, Undefined):
        return "<undefined>"
    if isinstance(v, JMacro):
        return "<macro>"
    if isinstance(v, TemplateModule):
        return "<module>"
    if isinstance(v, str):
        return str(v)
    return v


def _run(env, name, ctx):
    rec = Rec()
    CUR["rec"] = rec
    try:
        t = env.get_template(name)
        text = drive(t.render_async(**ctx)) if P.get("asyncm") else t.render(**ctx)
    except Exception as e:
        return ("exc", type(e).__name__, str(e), [tuple(_norm(v) for v in r) for r in rec.log])
    return ("ok", str(text), None, [tuple(_norm(v) for v in r) for r in rec.log])


def same_ok(cs: List[bool], xs: List[int], ys: List[int], g: int, dyn: int, which: int) -> bool:
    """
    pre: len(cs) == 4 and len(xs) <= MAXL() and len(ys) <= MAXL() and 0 <= dyn <= 2 and 0 <= which < NT()
    post: _
    """
    if SETUP_FAIL:
        return False
    name = NAMES[pick(which, len(NAMES))]
    rn = RENAME[P.get("rename", 0) % len(RENAME)]
    parent = [rn("t0"), rn("alt"), "nope"][pick(dyn, 3)]
    ctx = dict(c0=cs[0], c1=cs[1], c2=cs[2], c3=cs[3], xs=[v for v in xs], ys=[v for v in ys], g=g, h=g - 1, u=g + 7, parent_name=parent, t=0, rec=_rec)
    a = _run(SRC_ENV, name, ctx)
    b = _run(MOD_ENV, name, ctx)
    if a != b and os.environ.get("VERIF_DEBUG"):
        import sys
        from vfw.support import NoTracing
        ra, rb = repr(a), repr(b)
        with NoTracing():
            print("C31 DIFF", name, str(ra)[:600], "||", str(rb)[:600], file=sys.stderr)
    return a == b


XS_T = [[], [3], [-2, 5], [4, 4, 1]]
YS_T = [[], [6], [1, -1]]
G_T = [0, 9, -4]


def same_sel_ok(c0: bool, c1: bool, c2: bool, c3: bool, xi: int, yi: int, gi: int) -> bool:
    """
    pre: 0 <= xi < len(XS_T) and 0 <= yi < len(YS_T) and 0 <= gi < len(G_T)
    post: _
    """
    from vfw.core import pickb
    from vfw.support import NoTracing
    if SETUP_FAIL:
        return False
    cs = [pickb(c0), pickb(c1), pickb(c2), pickb(c3)]
    xs = XS_T[pick(xi, len(XS_T))]
    ys = YS_T[pick(yi, len(YS_T))]
    g = G_T[pick(gi, len(G_T))]
    with NoTracing():
        name = NAMES[0]
        ctx = dict(c0=cs[0], c1=cs[1], c2=cs[2], c3=cs[3], xs=list(xs), ys=list(ys), g=g, h=g - 1, u=g + 7, parent_name="nope", t=0, rec=_rec)
        return _run(SRC_ENV, name, ctx) == _run(MOD_ENV, name, ctx)


# ---------------------------------------------------------------- histories over two environments sharing one loader
HIST = {
    "base.html": "<{% block head %}{{ site|mark }}{% endblock %}|{% block body %}{% endblock %}|{{ footer|default('nofoot') }}>",
    "page.html": "{% extends 'base.html' %}{% import 'lib.html' as lib with context %}{% block body %}{{ user|mark }};{% include 'item.html' %};{{ lib.sig(user) }}{% endblock %}",
    "item.html": "{{ site|upper|mark }}{{ missing }}",
    "lib.html": "{% macro sig(u) %}{{ u|mark }}@{{ site }}{% endmacro %}",
}
HTARGET = [None]


def _hist_world(kind):
    from jinja2 import DebugUndefined
    loader = DictLoader(HIST) if kind == "src" else ModuleLoader(HTARGET[0])
    a = Environment(loader=loader)
    b = Environment(loader=loader, undefined=DebugUndefined, finalize=lambda v: v if v is not None else "-")
    a.filters["mark"] = lambda v: "A(%s)" % (v,)
    b.filters["mark"] = lambda v: "B(%s)" % (v,)
    a.globals["site"] = "sa"
    b.globals["site"] = "sb"
    return a, b


def _hist_run(kind, ops):
    a, b = _hist_world(kind)
    envs = (a, b)
    out = []
    for op in ops:
        e = envs[op % 2]
        k = op // 2
        try:
            if k == 0:
                out.append(e.get_template("page.html").render(user="u%d" % len(out)))
            elif k == 1:
                out.append(e.get_template("base.html").render())
            elif k == 2:
                e.globals["site"] = "changed%d" % len(out)
            elif k == 3:
                e.globals["footer"] = "foot"
            elif k == 4:
                out.append(e.get_template("page.html", globals={"site": "local", "footer": "lf"}).render(user="g"))
            elif k == 5:
                out.append(str(e.get_template("lib.html").module.sig("m")))
            elif k == 6:
                e.cache.clear()
            elif k == 7:
                out.append(e.get_template("item.html").render(missing="given"))
        except Exception as ex:
            out.append("exc:" + type(ex).__name__ + ":" + str(ex))
    return out


NOPS = 16


def hist_ok(ops: List[int]) -> bool:
    """
    pre: len(ops) == HLEN() and all(0 <= o < NOPS for o in ops)
    post: _
    """
    from vfw.support import NoTracing
    seq = [pick(o, NOPS) for o in ops]
    first = P.get("first_op")
    if first is not None:
        seq = [first] + seq
    with NoTracing():
        return _hist_run("src", seq) == _hist_run("mod", seq)


def HLEN():
    return P.get("hlen", 2)


def known_unnormalized_include_name_ok():
    """Known-finding witness: FileSystemLoader resolves './x.html' to x.html, ModuleLoader hashes the raw name and reports it missing."""
    from jinja2 import FileSystemLoader
    d = tempfile.mkdtemp(prefix="vfw-c31k-")
    try:
        os.mkdir(os.path.join(d, "src"))
        for n, body in {"main.html": "[{% include './part.html' %}]", "part.html": "P"}.items():
            with open(os.path.join(d, "src", n), "w") as f:
                f.write(body)
        e1 = Environment(loader=FileSystemLoader(os.path.join(d, "src")))
        e1.compile_templates(os.path.join(d, "out"), zip=None, ignore_errors=False)
        e2 = Environment(loader=ModuleLoader(os.path.join(d, "out")))
        want = e1.get_template("main.html").render()
        try:
            got = e2.get_template("main.html").render()
        except Exception as ex:
            got = "exc:" + type(ex).__name__
        return want == got
    finally:
        shutil.rmtree(d, ignore_errors=True)


def MAXL():
    return P.get("maxl", 2)


def NT():
    return min(len(NAMES), P.get("nt", 1))


def module_ok(which: int) -> bool:
    """
    pre: 0 <= which < len(NAMES)
    post: _
    """
    # static facts of the loaded template objects: same blocks, same exported module attributes, same debug info
    from vfw.support import NoTracing
    if SETUP_FAIL:
        return False
    name = NAMES[pick(which, len(NAMES))]
    with NoTracing():
        a = SRC_ENV.get_template(name)
        b = MOD_ENV.get_template(name)
        if sorted(a.blocks) != sorted(b.blocks) or a.name != b.name or a.debug_info != b.debug_info:
            return False
        if P.get("family") == "hand" and not P.get("asyncm"):
            try:
                ma = sorted(k for k in a.module.__dict__ if not k.startswith("_"))
            except Exception as e:
                ma = type(e).__name__
            try:
                mb = sorted(k for k in b.module.__dict__ if not k.startswith("_"))
            except Exception as e:
                mb = type(e).__name__
            if ma != mb:
                return False
        return True


ABSENT = {"set": [[], ["inc2"], ["leaf", "mod2"], ["inc2", "leaf"]], "hier": [[]], "hand": [[]]}
ZIPS = [None, "deflated", "stored"]


def conditions(tier, seed):
    th = tier == "thorough"
    to = 120 if th else 30
    out = []
    W = [[[True, False, True, False], [5, 1], [2], 7, 0, 0], [[False] * 4, [], [], 0, 1, 0], [[True] * 4, [3], [6, 6], -3, 2, 0]]
    k = 0
    for fam, n in (("hier", 120 if th else 16), ("set", 120 if th else 16), ("hand", 54 if th else 18)):
        for i in range(n):
            pid = seed * 100000 + i
            k += 1
            param = {"family": fam, "prog": pid, "zip": ZIPS[k % 3], "rename": (k // 3) % len(RENAME), "wrap": (k // 2) % 3, "asyncm": i % 4 == 3,
                     "absent": ABSENT[fam][i % len(ABSENT[fam])], "nt": 1 if fam == "hand" else (2 if th else 1), "first": i if fam == "hand" else 0,
                     "maxl": 2 if (th or fam != "set") else 1}
            tag = f"{fam}#{pid}{('/' + HAND_MAIN[i % len(HAND_MAIN)]) if fam == 'hand' else ''}[zip={param['zip']},names={param['rename']},wrap={param['wrap']}{',async' if param['asyncm'] else ''}]"
            out.append(Cond(f"static {tag}", "module_ok", mode="B", param=param, timeout=to, witnesses=[[0]],
                            bounds="every template of the set: block names, name, debug info (and exported module names for the hand-written set) equal between the two loaders"))
            if fam == "hand":
                out.append(Cond(f"same {tag}", "same_sel_ok", mode="B", param=param, timeout=to * 2, witnesses=[[True, False, True, False, 2, 1, 1], [False, True, False, True, 3, 2, 2]],
                                bounds="one hand-written template, one packaging: 4 branch bools x 4 xs lists x 3 ys lists x 3 context ints (solver-exhausted), native renders through both loaders"))
                continue
            out.append(Cond(f"same {tag}", "same_ok", mode="A", param=param, timeout=to, witnesses=W,
                            bounds="one template set compiled ahead of time and loaded through ModuleLoader vs source loading: any 4 branch bools, int lists of length <= 2, any context int, dynamic parent in {root, alternative, missing}; "
                                   "the most-derived/main template (thorough: two templates of the set; hand-written set: one condition per template and packaging); set family quick: lists of length <= 1"))
    for first in range(NOPS):
        for zi, z in enumerate(ZIPS):
            if not th and (first + zi + seed) % 3:
                continue
            hl = 3 if th else 2
            out.append(Cond(f"history[first={first},zip={z}]", "hist_ok", mode="B", param={"family": "hist", "zip": z, "first_op": first, "hlen": hl}, timeout=to * 2,
                            witnesses=[[[0, 1, 0][:hl]], [[4, 0, 1][:hl]], [[1, 10, 0][:hl]]],
                            bounds=f"two differently configured environments sharing one loader: first operation fixed, then every sequence of {hl} operations out of 16 (render page/base/item, macro through .module, per-template globals, change or add an environment global, clear the template cache; each on either environment), solver-exhausted; outputs of the ModuleLoader world == DictLoader world"))
    return out
