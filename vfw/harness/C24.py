"""C24 — HTML-producing filters cannot be used to inject markup.

All conditions are mode B: every string is built from a small alphabet of HTML metacharacters, quotes,
whitespace and filler by selectors that are decoded by explicit forks under tracing; the real filters then
run natively (through compiled templates in an autoescaping and a non-autoescaping environment, and
directly) on the decoded input, and the path tree is exhausted.  Strings cannot stay symbolic here:
``Markup.__new__``, ``json.dumps`` and the regular expressions of ``urlize`` realise them.

Oracles use an independent reference escape (``ESC``), ``json.loads`` and ``html.parser`` as the HTML
tokenizer model; nothing is compared with jinja2's own helpers except where the property says so
(``escape`` matches MarkupSafe).
"""
import json
import re
from html.parser import HTMLParser
from typing import List

import markupsafe
from jinja2 import Environment
from jinja2.utils import htmlsafe_json_dumps, urlize
from markupsafe import Markup
from vfw.core import Cond, pick, pickb
from vfw.support import NoTracing, drive

FUNCTIONS = [
    "jinja2.utils.htmlsafe_json_dumps", "jinja2.filters.do_tojson", "jinja2.filters.do_xmlattr / _attr_key_re",
    "jinja2.utils.urlize / _http_re / _email_re", "jinja2.filters.do_urlize", "markupsafe.escape as filter 'escape'/'e'",
    "jinja2.filters.do_forceescape", "jinja2.filters.do_indent", "jinja2.filters.do_replace", "jinja2.filters.sync_do_join/do_join",
    "jinja2.filters.do_format", "jinja2.filters.do_truncate", "jinja2.filters.do_wordwrap",
    "generated filter-call code and autoescape output code (compiler.visit_Filter / visit_Output)",
]
OUTSIDE = [
    "strings longer than the stated number of alphabet symbols; characters outside the per-condition alphabets",
    "urlize inputs outside the adversarial table (the input text is a table row, not a free string)",
    "attribute-name characters on which html.parser disagrees with the HTML standard (\\x1c-\\x1f, NUL, non-ASCII spaces)",
    "custom json.dumps_function policies",
]
ASSUMPTIONS = [
    "html.parser.HTMLParser models an HTML tokenizer for ASCII attribute syntax", "json.loads is the reference JSON reader",
    "templates are compiled natively at import",
]
SUSPECTED_DEFECTS = [
    "filters.do_indent: with a Markup receiver a plain-string width is wrapped in Markup() without escaping: "
    "Environment(autoescape=True).from_string('{{ m|indent(w) }}').render(m=Markup('a\\nb'), w='<script>') == 'a\\n<script>b' "
    "(condition margs[indent*]: Markup receiver with a width containing a metacharacter is excluded)",
    "filters.do_xmlattr accepts the empty key: {'': 'x onclick=alert(1)//'}|xmlattr == ' =\"x onclick=alert(1)//\"', which an HTML "
    "tokenizer reads as attributes '=\"x' and onclick (attribute injection through an escaped *value*); the empty key is excluded",
    "utils.urlize trims the already-escaped URL: trim_url_limit can cut a character reference in the link text, e.g. "
    "urlize('http://example.com/?a=1&b=2', 26) has link text 'http://example.com/?a=1&am...' (bare '&'); a cut reference directly "
    "before the '...' of a link text is tolerated by the oracle",
]

ENV_ON = Environment(autoescape=True)
ENV_OFF = Environment(autoescape=False)
AENV_ON = Environment(autoescape=True, enable_async=True)
META = "<>&'\""


def ESC(s):
    """Reference HTML escape (independent of markupsafe)."""
    out = []
    for ch in s:
        out.append({"&": "&amp;", "<": "&lt;", ">": "&gt;", "'": "&#39;", '"': "&#34;"}.get(ch, ch))
    return "".join(out)


_BAD_AMP = re.compile(r"&(?!(?:amp|lt|gt|quot|#34|#39);)")


def text_clean(s):
    """No raw markup character: no < > quotes, '&' only as the start of a character reference."""
    return not re.search(r"[<>\"']", s) and not _BAD_AMP.search(s)


P = {}


def setup(param):
    P.clear()
    P.update(param or {})


def decode(codes, alpha):
    return "".join(alpha[pick(c, len(alpha))] for c in codes)


def MAXLEN():
    return P.get("maxlen", 2)


# ---------------------------------------------------------------------------------------------- tojson
ALPHA_J = ["<", ">", "&", "'", '"', "\\", "a", "/", " ", "\xe9"]
NSHAPE = 7
T_JSON = {}
for _n, _e in (("on", ENV_ON), ("off", ENV_OFF)):
    T_JSON[_n, False] = _e.from_string("{{ v|tojson }}")
    T_JSON[_n, True] = _e.from_string("{{ v|tojson(2) }}")


def _shape(s, k):
    if k == 0:
        return s
    if k == 1:
        return [s]
    if k == 2:
        return {"k": s}
    if k == 3:
        return {s: 1}
    if k == 4:
        return [[s, "x"], {"a": s}]
    if k == 5:
        return {"k": [s, 1, None, True, 1.5]}
    return "</script>" + s + "<!--"


def _json_ok(out, v):
    if any(c in out for c in "<>&'"):
        return False
    return json.loads(out) == v


def tojson_ok(codes: List[int], shape: int, indent: bool) -> bool:
    """
    pre: len(codes) <= MAXLEN() and all(0 <= c < len(ALPHA_J) for c in codes) and 0 <= shape < NSHAPE and shape == P.get("shape", shape)
    post: _
    """
    s = decode(codes, ALPHA_J)
    shape = pick(shape, NSHAPE)
    indent = pickb(indent)
    with NoTracing():
        v = _shape(s, shape)
        direct = htmlsafe_json_dumps(v, indent=2 if indent else None)
        if not isinstance(direct, Markup) or not _json_ok(str(direct), v):
            return False
        for n in ("on", "off"):
            if not _json_ok(T_JSON[n, indent].render(v=v), v):
                return False
        return True


# ---------------------------------------------------------------------------------------------- xmlattr
KEYA = ["a", "b", " ", "\t", "\n", "\r", "\f", "\v", "/", ">", "=", '"', "'", "<", "&", "-"]
VALA = ['"', "'", "<", ">", "&", " ", "=", "a", "/"]
KVALS = ["v", '" onclick="alert(1)', "<b>&'x y=z/>"]
VKEYS = ["class", "data-x"]
T_XA = {}
for _n, _e in (("on", ENV_ON), ("off", ENV_OFF)):
    T_XA[_n, True] = _e.from_string("<x{{ d|xmlattr }}>")
    T_XA[_n, False] = _e.from_string("<x {{ d|xmlattr(false) }}>")


class _HP(HTMLParser):
    def __init__(self):
        super().__init__(convert_charrefs=True)
        self.ev = []

    def handle_starttag(self, tag, attrs):
        self.ev.append(("start", tag, attrs))

    def handle_endtag(self, tag):
        self.ev.append(("end", tag))

    def handle_data(self, d):
        self.ev.append(("data", d))

    def handle_comment(self, d):
        self.ev.append(("comment", d))

    def handle_decl(self, d):
        self.ev.append(("decl", d))

    def handle_pi(self, d):
        self.ev.append(("pi", d))

    def unknown_decl(self, d):
        self.ev.append(("unknown", d))


def html_events(s):
    p = _HP()
    p.feed(s)
    p.close()
    return p.ev


class LazyKey:
    """A key that is not a str instance but prints as text (a lazily translated string)."""

    def __init__(self, s):
        self.s = s

    def __str__(self):
        return self.s


def _xmlattr_check(items, autospace):
    """items: list of (key, value).  ValueError / TypeError (key rejected), or the tokenizer sees exactly the intended attributes."""
    d = dict(items)
    expect = [(ESC(str(k)).lower(), str(v)) for k, v in d.items() if v is not None]
    for n in ("on", "off"):
        try:
            out = T_XA[n, autospace].render(d=d)
        except (ValueError, TypeError):
            continue
        if html_events(out) != [("start", "x", expect)]:
            return False
    return True


def xmlattr_key_ok(codes: List[int], vsel: int, autospace: bool, second: bool) -> bool:
    """
    pre: 0 <= len(codes) <= MAXLEN() and all(0 <= c < len(KEYA) for c in codes) and 0 <= vsel < len(KVALS) and second == P.get("second", second) and vsel == P.get("vsel", vsel) and autospace == P.get("autospace", autospace)
    post: _
    """
    # the empty key is included again: repaired in /repo (fix: xmlattr rejects an empty attribute name)
    key = decode(codes, KEYA)
    vsel = pick(vsel, len(KVALS))
    autospace = pickb(autospace)
    second = pickb(second)
    with NoTracing():
        if "second" in P and second != P["second"]:
            return True     # the other half of the space is a separate condition
        items = [(key, KVALS[vsel])]
        if second and key != "id":
            items = [("id", "i"), (key, KVALS[vsel]), ("skipped", None), ("title", "t")]
        if not _xmlattr_check(items, autospace):
            return False
        # the same key as an object that is not a str instance
        return _xmlattr_check([(LazyKey(k) if k == key else k, v) for k, v in items], autospace)


def xmlattr_val_ok(codes: List[int], ksel: int) -> bool:
    """
    pre: len(codes) <= MAXLEN() and all(0 <= c < len(VALA) for c in codes) and 0 <= ksel < len(VKEYS) and ksel == P.get("ksel", ksel)
    post: _
    """
    val = decode(codes, VALA)
    ksel = pick(ksel, len(VKEYS))
    with NoTracing():
        return _xmlattr_check([(VKEYS[ksel], val), ("z", 5)], True)


# ---------------------------------------------------------------------------------------------- urlize
TEXTS = [
    "http://example.com/?a=1&b=2",
    'http://example.com/"onmouseover="alert(1)',
    "http://example.com/<script>alert(1)</script>",
    "www.example.com/'x'?q=\"y\"",
    "<http://example.com>",
    "(http://example.com/(a)) and (www.example.com/<b>)",
    "http://example.com/path>, next",
    "mailto:user@example.com",
    "write to user@example.com, now",
    '"a"@example.com',
    "a<b>'@example.com",
    "user@exam\"ple.com",
    "mailto:a'b@c.dd?subject=<x>",
    "mailto:<img/src=x>@example.com",
    "javascript:alert('1')",
    "tel:+1<2>\"3'&4",
    "x-app://a\"b'c<d>&e",
    "ftp://x/'y'\"z\"",
    "http://[::1]:80/<\"'&>",
    "http://1.2.3.4/&amp;&lt;",
    "example.com/\"x\"'y'",
    "foo-bar.org/<i>",
    "http://a.b/ x\xa0http://c.de/\"",
    "https://xn--abc.xn--p1ai/<>",
    "&lt;http://a.com&gt; &amp; &#39;",
    "http://example.com/?q=&lt;&#39;&quot;",
    "www.a.com\twww.b.com\nwww.c.com\r\n\x0bwww.d.com",
    "x http://a.com/'onclick='x y",
    "<<(http://a.com/&&&&&)>>",
    "http://a.com/...&gt;.,)",
    "tel:",
    "<b>\"'&</b>",
    "http://example.com:8080/a;b=c?d=<e>&f='g'#\"h\"",
    "HTTP://EXAMPLE.COM/<A>",
]
RELS = [None, "noopener", 'x" onmouseover="y', "a&b <c> 'd'"]
TARGETS = [None, "_blank", '"><script>\'']
XS = [None, ["tel:"], ["x-app://", "ftp://", "javascript:"]]
TRIMS = [None, 0, 9, 26]
T_URL = {n: e.from_string("{{ t|urlize(trim, nofollow, target, rel, xs) }}") for n, e in (("on", ENV_ON), ("off", ENV_OFF))}
_TAG = re.compile(r'<a((?: [a-z]+="[^"]*")+)>|</a>')
_ATTR = re.compile(r' ([a-z]+)="([^"]*)"')
_CUT = re.compile(r"&[a-z#0-9]{0,5}\.\.\.$")


def urlize_wellformed(out, tolerate_cut):
    pos = 0
    is_open = False
    for m in _TAG.finditer(out):
        text = out[pos:m.start()]
        if is_open and tolerate_cut:
            # SUSPECTED_DEFECTS: trimming may cut a character reference directly before the '...'
            text = _CUT.sub("", text)
        if not text_clean(text):
            return False
        if m.group(0) == "</a>":
            if not is_open:
                return False
            is_open = False
        else:
            if is_open:
                return False
            is_open = True
            attrs = _ATTR.findall(m.group(1))
            names = [n for n, _ in attrs]
            if names[0] != "href" or len(set(names)) != len(names) or any(n not in ("href", "rel", "target") for n in names):
                return False
            if any(not text_clean(v) for _, v in attrs):
                return False
            href = attrs[0][1]
            if href == "" or re.search(r"\s", href):
                return False
        pos = m.end()
    return not is_open and text_clean(out[pos:])


def _urlize_all(text, trim, rel, target, xs, nofollow):
    outs = [urlize(text, trim_url_limit=trim, rel=rel, target=target, extra_schemes=xs)]
    for n in ("on", "off"):
        outs.append(T_URL[n].render(t=text, trim=trim, nofollow=nofollow, target=target, rel=rel, xs=xs))
    return outs


def urlize_ok(t: int, rel: int, target: int, xs: int, trim: int) -> bool:
    """
    pre: 0 <= t < len(TEXTS) and 0 <= rel < len(RELS) and 0 <= target < len(TARGETS) and 0 <= xs < len(XS) and 0 <= trim < len(TRIMS) and xs == P.get("xs", xs)
    post: _
    """
    t = pick(t, len(TEXTS))
    rel = pick(rel, len(RELS))
    target = pick(target, len(TARGETS))
    xs = pick(xs, len(XS))
    trim = pick(trim, len(TRIMS))
    with NoTracing():
        outs = _urlize_all(TEXTS[t], TRIMS[trim], RELS[rel], TARGETS[target], XS[xs], rel == 1)
        return all(urlize_wellformed(o, TRIMS[trim] is not None) for o in outs)


def MAXTRIM():
    return P.get("maxtrim", 48)


def urlize_trim_ok(t: int, trim: int) -> bool:
    """
    pre: 0 <= t < len(TEXTS) and 0 <= trim < MAXTRIM()
    post: _
    """
    t = pick(t, len(TEXTS))
    trim = pick(trim, MAXTRIM())
    with NoTracing():
        outs = _urlize_all(TEXTS[t], trim, "noopener", None, XS[2], False)
        return all(urlize_wellformed(o, True) for o in outs)


# ---------------------------------------------------------------------------------------------- escape / forceescape
ALPHA_E = ["<", ">", "&", "'", '"', "a", ";", "#"]
T_ESC = {}
for _n, _e in (("on", ENV_ON), ("off", ENV_OFF)):
    for _f in ("escape", "e", "forceescape"):
        T_ESC[_n, _f] = _e.from_string("{{ v|%s }}" % _f)
    T_ESC[_n, "plain"] = _e.from_string("{{ v }}")


class HtmlObj:
    def __init__(self, h):
        self.h = h

    def __html__(self):
        return self.h

    def __str__(self):
        return "STR:" + self.h


def escape_ok(codes: List[int], form: int) -> bool:
    """
    pre: len(codes) <= MAXLEN() and all(0 <= c < len(ALPHA_E) for c in codes) and 0 <= form < 4 and form == P.get("form", form)
    post: _
    """
    s = decode(codes, ALPHA_E)
    form = pick(form, 4)
    with NoTracing():
        # the last form: an object whose __html__ hands back a Markup instance (a widget that renders itself)
        v = [s, Markup(s), HtmlObj(s), HtmlObj(Markup(s))][form]
        esc = ESC(s)
        # escape: MarkupSafe semantics = plain text is escaped, markup (anything with __html__) is taken as is
        want_escape = esc if form == 0 else s
        if str(markupsafe.escape(s)) != esc:
            return False
        for n in ("on", "off"):
            for f in ("escape", "e"):
                if T_ESC[n, f].render(v=v) != want_escape:
                    return False
            # forceescape escapes the markup form of its input
            if T_ESC[n, "forceescape"].render(v=v) != esc:
                return False
        # autoescaping output itself
        return T_ESC["on", "plain"].render(v=v) == want_escape


# ---------------------------------------------------------------------------------------------- Markup receiver + plain arguments
ARGA = ["<", ">", "&", '"', "'", "u", " "]
# R1: a safe string without any raw metacharacter -> the rendered output must not contain any
R1 = "&lt;b&gt;one two\nthree &amp; four\n\nfive six seven"
# R2: a safe string with real tags -> differential oracle: plain argument == pre-escaped argument marked safe
R2 = "<b>one two</b>\n<i>three &amp; four</i>\n\nfive"


def _presence_always(a, f1, f2):
    return True


MSPECS = {
    # name: (template, receiver text, needs-arg-present predicate, differential ok)
    "indent": ("{{ r|indent(a, f1, f2) }}", None, _presence_always, True),
    "replace_new": ("{{ r|replace('e', a) }}|{{ r|replace('o', a, 1) }}", None, _presence_always, True),
    "replace_old": ("{{ r|replace(a, 'X') }}", None, None, False),    # 'old' is never emitted
    "join": ("{{ [r, 'p', r]|join(a) }}|{{ [r, r]|join(a) }}|{{ ['x', 'y']|join(a) }}|{{ [r, 1]|join(a) }}", None, _presence_always, True),
    "join_attr": ("{{ [{'k': r}, {'k': r}]|join(a, attribute='k') }}", None, _presence_always, True),
    "format": ("{{ fm|format(a, 1) }}|{{ fk|format(x=a) }}", None, _presence_always, True),
    "truncate": ("{{ r|truncate(12, f1, a, 0) }}", None, _presence_always, False),
    "wordwrap": ("{{ r|wordwrap(7, f1, a) }}", None, _presence_always, False),
    "default_trim": ("{{ none_v|default(a) }}|{{ r|default(a) }}|{{ (r ~ '')|trim(a) }}", None, None, False),
}
T_M = {}
for _k, _sp in MSPECS.items():
    T_M[_k, False] = ENV_ON.from_string(_sp[0])
    T_M[_k, True] = AENV_ON.from_string(_sp[0])


def _mrender(spec, asyncm, r, a, f1, f2):
    ctx = dict(r=r, a=a, f1=f1, f2=f2, none_v=None,
               fm=Markup("&lt;%s&gt; %s") if isinstance(r, Markup) else "<%s> %s",
               fk=Markup("[%(x)s]") if isinstance(r, Markup) else "[%(x)s]")
    t = T_M[spec, asyncm]
    if asyncm:
        return drive(t.render_async(**ctx))
    return t.render(**ctx)


def margs_ok(codes: List[int], recv: int, f1: bool, f2: bool) -> bool:
    """
    pre: 1 <= len(codes) <= MAXLEN() and all(0 <= c < len(ARGA) for c in codes) and 0 <= recv < 3
    post: _
    """
    a = decode(codes, ARGA)
    recv = pick(recv, 3)
    f1 = pickb(f1)
    f2 = pickb(f2)
    with NoTracing():
        spec = P["spec"]
        asyncm = bool(P.get("asyncm"))
        # (do_indent's unescaped plain-string width with a Markup receiver was repaired in /repo; no exclusion)
        if recv == 2:
            if not MSPECS[spec][3]:
                return True
            # differential: a plain argument behaves like its escaped form marked safe
            return _mrender(spec, asyncm, Markup(R2), a, f1, f2) == _mrender(spec, asyncm, Markup(R2), Markup(ESC(a)), f1, f2)
        r = Markup(R1) if recv == 0 else R1.replace("&lt;", "<").replace("&gt;", ">").replace("&amp;", "&")
        out = _mrender(spec, asyncm, r, a, f1, f2)
        if not text_clean(out):
            return False
        need = MSPECS[spec][2]
        if need is not None and need(a, f1, f2) and ESC(a) not in out and a.strip() != "":
            return False
        return True


def conditions(tier, seed):
    thorough = tier == "thorough"
    to = 300 if thorough else 60
    L = 3 if thorough else 2
    out = []
    for shape in (range(NSHAPE) if thorough else [None]):
        p = dict(maxlen=L) if shape is None else dict(maxlen=L, shape=shape)
        sh = 0 if shape is None else shape
        out.append(Cond("tojson" if shape is None else f"tojson[shape{shape}]", "tojson_ok", mode="B", param=p, timeout=to,
                        witnesses=[[[0, 3], sh, False], [[1, 2], 4 if shape is None else sh, True], [[4, 5], 3 if shape is None else sh, False], [[], 6 if shape is None else sh, True]],
                        bounds=f"strings of <= {L} symbols from {ALPHA_J!r} placed in JSON shape {'0..6' if shape is None else shape} (scalar, list, dict value, dict key, nested, "
                               "mixed, inside '</script>..<!--'); indent on/off; direct call and through templates with autoescape on/off"))
    for second in (False, True):
        for vsel, autospace in ([(v, a) for v in range(len(KVALS)) for a in (False, True)] if thorough else [(None, None)]):
            p = dict(maxlen=L, second=second)
            nm = f"xmlattr_key[{'among' if second else 'alone'}"
            if vsel is not None:
                p.update(vsel=vsel, autospace=autospace)
                nm += f",v{vsel},{'sp' if autospace else 'nosp'}"
            v0, a0 = (0, True) if vsel is None else (vsel, autospace)
            out.append(Cond(nm + "]", "xmlattr_key_ok", mode="B", param=p, timeout=to,
                            witnesses=[[[0, 15], v0, a0, second], [[0, 2], 1 if vsel is None else vsel, a0, second],
                                       [[11, 13], 2 if vsel is None else vsel, False if vsel is None else autospace, second], [[0], v0, a0, second]],
                            bounds=f"non-empty keys of <= {L} symbols from {KEYA!r} x adversarial values {KVALS!r} x autospace; key {'among other items' if second else 'alone'}; autoescape on/off"))
    for ksel in (range(len(VKEYS)) if thorough else [None]):
        p = dict(maxlen=L + 1) if ksel is None else dict(maxlen=L + 1, ksel=ksel)
        k0 = 0 if ksel is None else ksel
        out.append(Cond("xmlattr_value" if ksel is None else f"xmlattr_value[{VKEYS[ksel]}]", "xmlattr_val_ok", mode="B", param=p, timeout=to,
                        witnesses=[[[0, 5, 7], k0], [[2, 3, 4], 1 if ksel is None else ksel], [[], k0]],
                        bounds=f"values of <= {L + 1} symbols from {VALA!r} under keys {VKEYS!r}; autoescape on/off"))
    for xs in range(len(XS)):
        out.append(Cond(f"urlize[xs{xs}]", "urlize_ok", mode="B", param=dict(xs=xs), timeout=to,
                        witnesses=[[0, 0, 0, xs, 0], [1, 2, 2, xs, 2], [15, 3, 1, xs, 3], [7, 1, 1, xs, 1]],
                        bounds=f"{len(TEXTS)} adversarial texts x rel {RELS!r} x target {TARGETS!r} x trim_url_limit {TRIMS!r}; extra_schemes {XS[xs]!r}; "
                               "utils.urlize directly and the filter with autoescape on/off"))
    out.append(Cond("urlize_trim", "urlize_trim_ok", mode="B", param=dict(maxtrim=64 if thorough else 48), timeout=to,
                    witnesses=[[0, 26], [2, 30], [16, 12]],
                    bounds=f"{len(TEXTS)} adversarial texts x trim_url_limit 0..{63 if thorough else 47}"))
    for form in (range(4) if thorough else [None]):
        p = dict(maxlen=L + 1) if form is None else dict(maxlen=L + 1, form=form)
        fs = [0, 1, 2, 3] if form is None else [form] * 4
        out.append(Cond("escape_forceescape" if form is None else f"escape_forceescape[form{form}]", "escape_ok", mode="B", param=p, timeout=to,
                        witnesses=[[[0, 2, 4], fs[0]], [[0, 1], fs[1]], [[2, 5, 6], fs[2]], [[], fs[3]]],
                        bounds=f"strings of <= {L + 1} symbols from {ALPHA_E!r} as plain str / Markup / object with __html__ returning str or Markup; filters escape, e, forceescape; autoescape on/off"))
    for spec in MSPECS:
        for asyncm in ((False, True) if spec in ("join", "join_attr") or thorough else (False,)):
            out.append(Cond(f"margs[{spec}{',async' if asyncm else ''}]", "margs_ok", mode="B", param=dict(spec=spec, asyncm=asyncm, maxlen=L), timeout=to,
                            witnesses=[[[5], 0, False, False], [[0, 5], 1, True, False], [[5, 6], 2, True, True], [[3, 2], 1, False, True]],
                            bounds=f"plain-string argument of 1..{L} symbols from {ARGA!r}; receiver: Markup without raw metacharacters / plain str / Markup with "
                                   f"tags (differential); two flags; autoescape on; template: {MSPECS[spec][0]}"))
    return out


def known_urlize_trim_ok():
    """Known-finding witness: urlize trims the already-escaped URL, so trim_url_limit can cut a character reference."""
    from jinja2.utils import urlize
    import re as _re
    out = urlize("http://example.com/?a=1&b=2", 26)
    text = _re.sub(r"<[^>]*>", "", out)
    return not _re.search(r"&(?!(?:amp|lt|gt|quot|#39|#34|#x27);)", text)
