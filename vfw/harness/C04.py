"""C04 — template inheritance renders the most-derived block overrides.

Hierarchies (chains of depth 1-4 over block names a, b, c; nested blocks, blocks inside loops (scoped and
unscoped) and conditionals, super(), self.<block>(), required blocks, content and assignments outside blocks in
children, conditional and dynamic extends) are generated from a seeded grammar (vfw/tmodel.py), loaded through
a DictLoader; loop lengths, branch bools, the dynamic parent name selector and values are symbolic (mode A).
Rendered text and recorded values must equal the reference resolver's.
"""
import random
from typing import List

from jinja2 import DictLoader, Environment
from jinja2.exceptions import TemplateRuntimeError, TemplateNotFound, UndefinedError
from jinja2.runtime import Macro as JMacro, Undefined
from vfw import tmodel as M
from vfw.core import Cond, pick
from vfw.support import Rec, drive

FUNCTIONS = ["jinja2.compiler.CodeGenerator.visit_Extends/visit_Block/visit_Template (require_output_check, block registration)",
             "jinja2.runtime.Context.super / BlockReference / TemplateReference / Context.derived", "Environment.get_template / Template.render / root_render_func",
             "jinja2.parser.Parser.parse_block/parse_extends"]
OUTSIDE = ["hierarchies deeper than 4 templates or with more than 3 block names", "super() inside an override of a required block", "extends placed after output"]
ASSUMPTIONS = ["reference resolver in vfw/tmodel.py transcribes docs/templates.rst 'Template Inheritance'"]

BN = ["a", "b", "c"]
P = {}
TEMPLATES = {}
ENV = None
LEAF = None


def _obs(rnd):
    return ("out", ("v", rnd.choice(["x", "y", "i", "g"])))


def gen_block_body(rnd, level, bname, is_root, allow_super, depth=0):
    body = [("text", bname.upper() + str(level))]
    if depth:
        # nested blocks: the documentation is silent on what an inner block sees of an outer scoped block; keep
        # them to context values only
        body.append(("out", ("v", "g")))
        body.append(("text", "."))
        return body
    if rnd.random() < 0.6:
        body.append(_obs(rnd))
    if bname in LOOPED and rnd.random() < 0.7:
        body.append(("out", ("loopidx",)))
    if allow_super and rnd.random() < 0.6:
        body.append(("super",))
    if allow_super and level >= 2 and rnd.random() < 0.35:
        body.append(("supersuper",))
    if rnd.random() < 0.3:
        body.append(("set", rnd.choice(["x", "y"]), ("c", level * 10 + 1)))
        body.append(_obs(rnd))
    if rnd.random() < 0.25 and [n for n in BN if n != bname and n + "n" not in USED]:
        nb = rnd.choice([n for n in BN if n != bname and n + "n" not in USED])
        USED.add(nb + "n")
        if not is_root and rnd.random() < 0.3:
            # a required block introduced by an intermediate template inside one of its blocks: nobody overrides it
            body.append(("block", "%sr%d" % (nb, level), [], False, True))   # a name no other template uses
        else:
            body.append(("block", nb + "n", gen_block_body(rnd, level, nb + "n", is_root, False, 1), rnd.random() < 0.5))
    body.append(("text", "."))
    return body


USED = set()
LOOPED = set()


def gen_root(rnd, level, defined):
    USED.clear()
    stmts = [("text", "<")]
    if rnd.random() < 0.5:
        stmts.append(("set", "x", ("c", 7)))
    names = rnd.sample(BN, rnd.randint(1, 3))
    for n in names:
        r = rnd.random()
        required = r < 0.12
        blk = ("block", n, [] if required else gen_block_body(rnd, level, n, True, False), False if required else rnd.random() < 0.5, required)
        defined.add(n)
        r2 = rnd.random()
        if r2 < 0.3 and not required:
            scoped = rnd.random() < 0.7
            if scoped:
                LOOPED.add(n)
            blk = ("block", n, gen_block_body(rnd, level, n, True, False), scoped, False)
            inner = blk
            w = rnd.random()
            if w < 0.3:
                inner = ("if", rnd.randint(0, 3), [blk], None)
            elif w < 0.5:
                inner = ("with", "y", ("c", 5), [blk])
            stmts.append(("for", "i", rnd.choice(["xs", "ys"]), [("text", "["), inner, ("text", "]")], None, False))
        elif r2 < 0.45 and not required:
            stmts.append(("if", rnd.randint(0, 3), [blk], [("text", "-")] if rnd.random() < 0.5 else None))
        elif r2 < 0.55 and not required:
            stmts.append(("with", "y", ("c", 5), [blk]))
        else:
            stmts.append(blk)
        stmts.append(("text", "|"))
    if rnd.random() < 0.4:
        stmts.append(("selfblock", rnd.choice(names)))
    if rnd.random() < 0.3:
        plain = [n for n in names if n not in LOOPED]
        if plain:
            stmts.append(("selfsuper", rnd.choice(plain)))
    stmts.append(_obs(rnd))
    stmts.append(("text", ">"))
    return stmts


def gen_child(rnd, level, parent, defined, dynamic, conditional):
    USED.clear()
    tgt = ("dyn",) if dynamic else ("const", parent)
    stmts = [("extends", tgt, rnd.randint(0, 3) if conditional else None)]
    if rnd.random() < 0.5:
        stmts.append(("text", "OUTSIDE%d" % level))
    if rnd.random() < 0.5:
        stmts.append(("set", rnd.choice(["x", "y"]), ("c", level * 10)))
    if rnd.random() < 0.3:
        stmts.append(_obs(rnd))
    if rnd.random() < 0.25:
        # more content outside blocks: never rendered in a child
        stmts.append(("filterblock", [("text", "FILTERED%d" % level), _obs(rnd)]))
    if rnd.random() < 0.2:
        stmts.append(("for", "i", "xs", [("text", "LOOP%d" % level), _obs(rnd)], None, False))
    names = [n for n in sorted(defined) if rnd.random() < 0.6]
    if rnd.random() < 0.3:
        names.append(rnd.choice(BN))
    seen = set()
    for n in names:
        if n in seen:
            continue
        seen.add(n)
        blk = ("block", n, gen_block_body(rnd, level, n, False, n in defined and n not in REQUIRED), rnd.random() < 0.4)
        if rnd.random() < 0.25:
            blk = ("if", rnd.randint(0, 3), [blk], [("text", "ELSE%d" % level)] if rnd.random() < 0.5 else None)
        stmts.append(blk)
        defined.add(n)
        if rnd.random() < 0.3:
            stmts.append(("text", "BETWEEN"))
    return stmts


REQUIRED = set()


def gen_hierarchy(seed):
    rnd = random.Random(seed)
    REQUIRED.clear()
    LOOPED.clear()
    depth = rnd.randint(1, 4)
    tpls = {}
    defined = set()
    tpls["t0"] = gen_root(rnd, 0, defined)
    for s in tpls["t0"]:
        for b in M._find_blocks([s]):
            if len(b) > 4 and b[4]:
                REQUIRED.add(b[1])
    # an alternative root for dynamic extends
    tpls["alt"] = [("text", "("), ("block", "a", [("text", "ALT-A")], False), ("block", "b", [("text", "ALT-B"), _obs(rnd)], False), ("text", ")")]
    dyn_level = rnd.randint(1, depth) if rnd.random() < 0.35 else None
    cond_level = rnd.randint(1, depth) if rnd.random() < 0.25 else None
    for lv in range(1, depth):
        tpls["t%d" % lv] = gen_child(rnd, lv, "t%d" % (lv - 1), defined, dyn_level == lv and lv == 1, cond_level == lv and dyn_level != lv)
    return tpls, "t%d" % (depth - 1)


def setup(param):
    global P, TEMPLATES, ENV, LEAF
    P = dict(param or {})
    TEMPLATES, LEAF = gen_hierarchy(P.get("prog", 0))
    # every third hierarchy spells its blocks with names that read like attributes of the objects behind self / super
    M.BLOCK_RENAME.clear()
    if P.get("prog", 0) % 3 == 1:
        M.BLOCK_RENAME.update({"a": "name", "b": "blocks", "c": "context", "an": "environment", "bn": "render", "cn": "stack"})
    src = {n: M.pstmts(s, M.ident) for n, s in TEMPLATES.items()}
    ENV = Environment(loader=DictLoader(src), enable_async=bool(P.get("asyncm")))
    for n in src:
        ENV.get_template(n)  # compile natively, warm the cache


def _norm(v):
    if isinstance(v, Undefined):
        return M.UNDEF
    if isinstance(v, JMacro):
        return "<macro>"
    if isinstance(v, str):
        return str(v)
    return v


def _run(ctx):
    rec = Rec()
    t = ENV.get_template(LEAF)
    try:
        text = drive(t.render_async(rec=rec, **ctx)) if P.get("asyncm") else t.render(rec=rec, **ctx)
    except TemplateRuntimeError as e:
        if isinstance(e, UndefinedError):
            return ("exc", "UndefinedError", None)
        return ("exc", "TemplateRuntimeError", None)
    except TemplateNotFound:
        return ("exc", "TemplateNotFound", None)
    return ("ok", str(text), [tuple(_norm(v) for v in r) for r in rec.log])


def _ref(ctx):
    it = M.Interp(TEMPLATES)
    try:
        text, log = it.render(LEAF, ctx)
    except M.TplRuntimeError:
        return ("exc", "TemplateRuntimeError", None)
    except M.TplNotFound:
        return ("exc", "TemplateNotFound", None)
    except M.TplUndefined:
        return ("exc", "UndefinedError", None)
    return ("ok", text, [tuple(M.normalize_value(v) for v in r) for r in log])


def hier_ok(cs: List[bool], xs: List[int], ys: List[int], g: int, dyn: int) -> bool:
    """
    pre: len(cs) == 4 and len(xs) <= 2 and len(ys) <= 2 and 0 <= dyn <= 2
    post: _
    """
    parent = ["t0", "alt", "nope"][pick(dyn, 3)]
    ctx = dict(c0=cs[0], c1=cs[1], c2=cs[2], c3=cs[3], xs=[v for v in xs], ys=[v for v in ys], g=g, parent_name=parent, t=0)
    return _run(ctx) == _ref(ctx)


def conditions(tier, seed):
    th = tier == "thorough"
    n = 400 if th else 60
    to = 120 if th else 25
    out = []
    for i in range(n):
        pid = seed * 100000 + i
        asyncm = i % 4 == 3
        out.append(Cond(f"hierarchy#{pid}{'[async]' if asyncm else ''}", "hier_ok", mode="A", param={"prog": pid, "asyncm": asyncm}, timeout=to,
                        witnesses=[[[True, False, True, False], [5, 1], [2], 7, 0], [[False] * 4, [], [], 0, 1], [[True] * 4, [4], [6, 6], -1, 2]],
                        bounds="one generated hierarchy (1-4 templates): any 4 branch bools, any int lists of length <= 2, any context value, dynamic parent in {root, alternative root, missing}"))
    return out


def known_include_outside_block_ok():
    """Known-finding witness: {% include %} / {% call %} outside blocks in a child template render their output."""
    e = Environment(loader=DictLoader({"p": "<{% block a %}A{% endblock %}>", "inc": "INC", "c2": "{% extends 'p' %}{% include 'inc' %}",
                                       "c3": "{% extends 'p' %}{% macro m() %}M{{ caller() }}{% endmacro %}{% call m() %}c{% endcall %}"}))
    return e.get_template("c2").render() == "<A>" and e.get_template("c3").render() == "<A>"


def known_required_redeclared_ok():
    """Known-finding witness: a required block re-declared as required in a descendant and never overridden renders empty."""
    e = Environment(loader=DictLoader({"r0": "<{% block a required %}{% endblock %}>", "r1": "{% extends 'r0' %}{% block a required %}{% endblock %}",
                                       "r2": "{% extends 'r1' %}"}))
    try:
        e.get_template("r2").render()
    except TemplateRuntimeError:
        return True
    return False
