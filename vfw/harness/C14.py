"""C14 — template literals denote the same values as Python literals.

E2 (regex -> SMT): the live ``integer_re`` / ``float_re`` of jinja2.lexer are
translated to z3 regular expressions; the obligation is language inclusion in
Python's own literal grammar (transcribed from the language reference), for all
strings up to 64 characters.  Because conversion is done by Python's ``int(v, 0)``
/ ``literal_eval`` after removing underscores, inclusion gives value equality
for every spelling read as one number.

E1 mode B: number spellings assembled from selector-chosen digits, bases,
underscores, fraction and exponent parts, and string literals assembled from a
table of characters and escape sequences, are pushed through the real
lexer/parser/compiler; the oracle is Python's own evaluation of the spelling.
"""
import ast
from typing import List

import z3

from jinja2 import Environment, lexer
from jinja2.exceptions import TemplateSyntaxError
from vfw import rx
from vfw.core import Cond, pick
from vfw.support import NoTracing

FUNCTIONS = ["jinja2.lexer.integer_re", "jinja2.lexer.float_re", "jinja2.lexer.string_re", "Lexer.tokeniter", "Lexer.wrap",
             "Parser.parse_primary (adjacent string concatenation)", "Environment.compile_expression"]
OUTSIDE = ["number spellings longer than 64 characters (SMT) / more than 4 digits per part (mode B)",
           "code points above U+2FFFF in the SMT encoding", "string literals beyond 4 pieces from the escape table",
           "the unicode-escape codec itself is C code: only its observable result on the enumerated literals is checked"]
ASSUMPTIONS = ["Python literal grammars PYINT/PYFLOAT transcribed from the language reference (lexical analysis 2.4.5/2.4.6)",
               "Python's own evaluation (ast.literal_eval) of a spelling is the reference value"]

ENV = Environment()
# literal values must not depend on lexer configuration: the same checks run under these environments
ENVS = [dict(), dict(newline_sequence="\r\n"), dict(newline_sequence="\r", trim_blocks=True, lstrip_blocks=True, keep_trailing_newline=True),
        dict(variable_start_string="${", variable_end_string="}", block_start_string="<%", block_end_string="%>", line_statement_prefix="#", autoescape=True)]
P = {}

# Python's integer and float literal grammar (ASCII only), as regexes
PYINT = r"(0[bB](_?[01])+|0[oO](_?[0-7])+|0[xX](_?[0-9a-fA-F])+|[1-9](_?[0-9])*|0+(_?0)*)"
_D = r"[0-9](_?[0-9])*"
PYFLOAT = rf"(({_D})?\.{_D}|{_D}\.)([eE][+-]?{_D})?|{_D}[eE][+-]?{_D}"


def setup(param):
    global P, ENV
    P = dict(param or {})
    ENV = Environment(**ENVS[P.get("envk", 0) % len(ENVS)])


# ---------------------------------------------------------------- E2
def smt_inclusion(param):
    which = param["which"]
    pat = getattr(lexer, which)
    R, dropped = rx.to_z3(pat, drop_context=True)
    target, _ = rx.to_z3(PYINT if which == "integer_re" else PYFLOAT)
    s = z3.String("s")
    q = rx.Q()
    # vacuity twin: the language is non-empty
    r0, m0 = q.check("nonempty", z3.InRe(s, R), z3.Length(s) <= 64)
    if r0 != "sat":
        return {"verdict": "HARNESS_ERROR", "detail": "regex language empty or unknown: " + r0, "queries": q.queries, "solver_s": q.solver_s}
    r, m = q.check("inclusion", z3.InRe(s, R), z3.Not(z3.InRe(s, target)), z3.Length(s) <= 64)
    out = {"queries": q.queries, "solver_s": round(q.solver_s, 3), "detail": {"pattern": pat.pattern, "flags": pat.flags, "dropped_context": [str(d) for d in dropped], "log": q.log}}
    if r == "unsat":
        out["verdict"] = "CONFIRMED"
    elif r == "sat":
        out["verdict"] = "REFUTED"
        out["cex"] = rx.zstr_to_py(rx.model_str(m, s))
    else:
        out["verdict"] = "CANNOT_CONFIRM"
    return out


import re as _re
import warnings

_DOCUMENTED = _re.compile(
    r"^(?:" + PYINT + r"|[0-9](_?[0-9])*\.[0-9](_?[0-9])*([eE][+-]?[0-9](_?[0-9])*)?|[0-9](_?[0-9])*[eE][+-]?[0-9](_?[0-9])*)$")


def number_ok(w):
    """Native replay for an E2 counterexample (also used for witnesses): if jinja reads `w` as a single
    number token, its value must be the value Python assigns to the same spelling."""
    src = "{{ " + w + " }}"
    try:
        toks = [t for t in ENV.lex(src) if t[1] not in ("whitespace",)]
    except TemplateSyntaxError:
        return True
    inner = toks[1:-1]
    if len(inner) != 1 or inner[0][1] not in ("integer", "float") or inner[0][2] != w:
        return True  # not read as one number: outside the clause
    for k in KNOWN_EXCLUDED:
        if k(w):
            return True
    try:
        pyval = ast.literal_eval(w)
    except Exception:
        return False  # Python assigns no value to this spelling, jinja reads it as a number
    try:
        val = ENV.compile_expression(w)()
    except TemplateSyntaxError:
        return False
    return type(val) is type(pyval) and (val == pyval or (val != val and pyval != pyval))


KNOWN_EXCLUDED = []


# ---------------------------------------------------------------- mode B numbers
DIG = "0123456789abcdef"


def _digits(ds, us, base):
    out = []
    for i, d in enumerate(ds):
        if i and us[i - 1]:
            out.append("_")
        out.append(DIG[d % base])
    return "".join(out)


def int_lit_ok(base: int, ds: List[int], us: List[bool], upper: bool) -> bool:
    """
    pre: base == 0 and 1 <= len(ds) <= MAXD() and len(us) == len(ds) and all(0 <= d < 4 for d in ds)
    post: _
    """
    b = P.get("base", 10) if base == 0 else 10
    dd = [[0, 1, b - 1, b // 2][pick(d, 4)] for d in ds]
    uu = [bool(u) for u in us]
    up = bool(upper)
    with NoTracing():
        prefix = {2: "0b", 8: "0o", 10: "", 16: "0x"}[b]
        body = _digits(dd, uu[1:], b)
        if b != 10 and uu[0]:
            body = "_" + body
        lit = prefix + body
        if up:
            lit = lit.upper()
        return _same_as_python(lit)


def _same_as_python(lit):
    try:
        py = ("ok", ast.literal_eval(lit))
    except Exception:
        py = ("err", None)
    try:
        jv = ("ok", ENV.compile_expression(lit)())
    except TemplateSyntaxError:
        jv = ("err", None)
    if py[0] == "err":
        # Python rejects the spelling: jinja may reject it, or read it as something that is not a single
        # number (e.g. `01` -> two tokens is a syntax error as well); it must not produce a number from ONE token
        return number_ok(lit)
    if jv[0] == "err":
        # jinja may reject spellings outside its documented literal syntax (e.g. `.5`, `5.`), never documented ones
        return not _DOCUMENTED.match(lit)
    return type(jv[1]) is type(py[1]) and (jv[1] == py[1] or (jv[1] != jv[1] and py[1] != py[1]))


FD = [0, 7]


def float_lit_ok(ip: List[int], fp: List[int], ep: List[int], ui: bool, ue: bool) -> bool:
    """
    pre: len(ip) <= MAXF() and len(fp) <= MAXF() and len(ep) <= 1 and all(0 <= d <= 1 for d in ip + fp + ep)
    post: _
    """
    i = [FD[pick(d, 2)] for d in ip]
    f = [FD[pick(d, 2)] for d in fp]
    e = [FD[pick(d, 2)] + 1 for d in ep]
    ui = bool(ui)
    ue = bool(ue)
    sh = P.get("shape", 0)
    with NoTracing():
        I = _digits(i, [ui] * 3, 10)
        F = _digits(f, [ue] * 3, 10)
        E = "".join(str(d) for d in e) + ("_0" if (ue and e) else "")
        sign = ["", "+", "-"][sh % 3]
        ech = "e" if sh < 3 else "E"
        lit = I + ("." + F if (f or not e) else "") + (ech + sign + E if e else "")
        if not lit or not (lit[0].isdigit() or (lit[0] == "." and len(lit) > 1 and lit[1].isdigit())):
            return True  # not a number spelling at all (e.g. "e5" is a name)
        return _same_as_python(lit)


MANT = ["1", "9.9", "0.1", "1.7976931348623157", "1.7976931348623159", "4.9", "2.4", "0", "0.0", "00.5", "12_3.4_5"]
EXPS = [0, 1, 22, 23, 307, 308, 309, 323, 324, 325, 400, 999, 1_000_000]
CTX = ["@", "-@", "[@, 1]", "(@, @)", "{'a': @}", "@ - @", "@ * 0", "@ > 1", "@ == @", "[-@][0]", "(@ + 1) // 1 if @ < 2 else 0"]


def float_mag_ok(m: int, e: int, sg: int, c: int, up: bool) -> bool:
    """
    pre: 0 <= m < len(MANT) and 0 <= e < len(EXPS) and 0 <= sg <= 2 and c == 0
    post: _
    """
    mi = pick(m, len(MANT))
    ei = pick(e, len(EXPS))
    si = pick(sg, 3)
    ci = P.get("ctx", 0)
    up = bool(up)
    with NoTracing():
        lit = MANT[mi] + ("E" if up else "e") + ["", "+", "-"][si] + str(EXPS[ei])
        if MANT[mi].startswith("00"):
            lit = MANT[mi]   # leading zeros: only valid as a float without exponent in both languages
        src = CTX[ci].replace("@", lit)
        try:
            py = ("ok", eval(src, {"__builtins__": {}}, {}))
        except Exception as ex:
            py = ("exc", type(ex).__name__)
        outs = []
        for how in (0, 1):
            try:
                if how == 0:
                    v = ENV.compile_expression(src)()
                else:
                    box = []
                    vs, ve = ENV.variable_start_string, ENV.variable_end_string
                    bs, be = ENV.block_start_string, ENV.block_end_string
                    ENV.from_string(f"{bs} set v = {src} {be}{vs} put(v) {ve}").render(put=lambda x: box.append(x) or "")
                    v = box[0]
                outs.append(("ok", v))
            except TemplateSyntaxError:
                outs.append(("syntax", None))
            except Exception as ex:
                outs.append(("exc", type(ex).__name__))
        for o in outs:
            if o[0] != py[0]:
                return False
            if o[0] == "ok" and not (type(o[1]) is type(py[1]) and (repr(o[1]) == repr(py[1]))):
                return False
            if o[0] == "exc" and o[1] != py[1]:
                return False
        return True


# ---------------------------------------------------------------- mode B strings
PIECES = ["a", "\\n", "\\\\", "\\'", '\\"', "\\x41", "\\u00e9", "\\d", "é", "'", '"', " ", "\\N{DASH}", "\\101", "%", "\\t", "{{", "\\", "\\U0001F600", "\n"]


def str_lit_ok(ps: List[int], q: int, ps2: List[int], q2: int) -> bool:
    """
    pre: len(ps) <= MAXP() and len(ps2) <= MAXP2() and 0 <= q <= 1 and QLO() <= q2 <= QHI() and all(0 <= p < len(PIECES) for p in ps + ps2)
    post: _
    """
    a = [PIECES[pick(p, len(PIECES))] for p in ps]
    b = [PIECES[pick(p, len(PIECES))] for p in ps2]
    qa = "'\""[pick(q, 2)]
    qq = pick(q2, 3)
    with NoTracing():
        lit = qa + "".join(a) + qa
        if qq < 2:
            qb = "'\""[qq]
            lit = lit + " " + qb + "".join(b) + qb
        # the reference is Python's reading of the very same spelling (adjacent literals concatenate)
        try:
            with warnings.catch_warnings():
                warnings.simplefilter("error")  # invalid escape sequences (deprecated in Python) are outside the property
                py = ("ok", ast.literal_eval(lit))
        except Exception:
            py = ("err", None)
        if py[0] == "err":
            return True  # not a Python string literal (unbalanced quotes, bad escape, or an expression such as '' % ''): outside the property
        try:
            jv = ("ok", ENV.compile_expression(lit)())
        except TemplateSyntaxError:
            jv = ("err", None)
        if "\n" in lit:
            return True  # a raw line break inside quotes is not a Python single-quoted literal
        if not isinstance(py[1], str):
            return True
        if _backslash_nonascii(lit):
            return True  # recorded known finding (see known_findings.json), checked by known_backslash_nonascii_ok
        if jv != py:
            return False
        # the same literal in a template: as an output expression and assigned first (constant vs variable code path)
        vs, ve = ENV.variable_start_string, ENV.variable_end_string
        bs, be = ENV.block_start_string, ENV.block_end_string
        if ve in lit or be in lit or vs in lit or bs in lit:
            return True
        try:
            r1 = ENV.from_string(f"{vs} ({lit})|list|length {ve}").render()
            r2 = ENV.from_string(f"{bs} set v = {lit} {be}{vs} v|list|length {ve}:{vs} v == w {ve}").render(w=py[1])
        except TemplateSyntaxError:
            return False
        return r1 == str(len(py[1])) and r2 == f"{len(py[1])}:True"


def _backslash_nonascii(lit):
    i = 0
    while i < len(lit) - 1:
        if lit[i] == "\\":
            if ord(lit[i + 1]) > 127:
                return True
            i += 2
        else:
            i += 1
    return False


def known_backslash_nonascii_ok():
    """Known finding witness: a backslash directly followed by a non-ASCII character."""
    lit = '"\\\u00e9"'.encode().decode("unicode-escape")  # the 4-character literal "\é"
    return ENV.compile_expression(lit)() == ast.literal_eval(lit)


VALUES = [0, 7, 10, 255, 10 ** 30, 1.5, 0.1, 1e100, 1e-7, 123456789.123456789, 1e16, 2 ** 63, 5e-324, 1.7976931348623157e308,
          "", "a'b", 'a"b', "\\", "é\n\t", "\x00\x7f", "{{ x }}", "\U0001F600", "%s"]


def repr_roundtrip_ok(i: int) -> bool:
    """
    pre: 0 <= i < len(VALUES)
    post: _
    """
    k = pick(i, len(VALUES))
    with NoTracing():
        v = VALUES[k]
        got = ENV.compile_expression(repr(v))()
        return type(got) is type(v) and got == v


def MAXD():
    return P.get("maxd", 3)


def MAXF():
    return P.get("maxf", 2)


def MAXP():
    return P.get("maxp", 2)


def MAXP2():
    return P.get("maxp2", 0)


def QLO():
    return 2 if P.get("maxp2", 0) == 0 else 0


def QHI():
    return 2 if P.get("maxp2", 0) == 0 else 1


def conditions(tier, seed):
    th = tier == "thorough"
    to = 300 if th else 50
    out = [
        Cond("E2: L(integer_re) within Python int literals", "smt_inclusion", kind="smt", mode="A", param={"which": "integer_re"}, timeout=120,
             replay="number_ok", witnesses=["0x_1F", "1_000", "00", "0b1"], bounds="all strings of length <= 64, code points <= U+2FFFF"),
        Cond("E2: L(float_re) within Python float literals", "smt_inclusion", kind="smt", mode="A", param={"which": "float_re"}, timeout=120,
             replay="number_ok", witnesses=["1_0.5e-1_0", "1e5", "0.5"], bounds="all strings of length <= 64, code points <= U+2FFFF"),
    ]
    md = 4 if th else 3
    for b in (2, 8, 10, 16):
        out.append(Cond(f"int literals from digits[base {b}]", "int_lit_ok", mode="B", param={"maxd": md, "base": b}, timeout=to,
                        witnesses=[[0, [1, 2], [False, True], True], [0, [0, 1], [False, False], False], [0, [1, 0, 1], [True, True, True], False]],
                        bounds=f"base {b}, 1..{md} digits from {{0,1,b/2,b-1}}, every underscore placement (incl. after the prefix and leading zeros), both cases"))
    mf = 3
    for sh in range(6):
        if not th and sh in (1, 3, 5):
            continue
        out.append(Cond(f"float literals from digits[exp {'eE'[sh // 3]}{['', '+', '-'][sh % 3]}]", "float_lit_ok", mode="B", param={"maxf": mf, "shape": sh}, timeout=to * 2,
                        witnesses=[[[1, 0], [1], [], True, False], [[1], [], [1], False, True], [[], [0, 1], [0], False, False], [[1, 0, 0], [1, 1, 1], [], True, True]],
                        bounds=f"<= {mf} integer digits, <= {mf} fraction digits, <= 1(+1) exponent digits, digits from {FD}, underscores in every gap or none"))
    mp = 3 if th else 2
    for envk in range(len(ENVS)):
        for ci in range(len(CTX)):
            if (ci + seed) % len(ENVS) != envk and not th:
                continue
            out.append(Cond(f"float magnitudes in '{CTX[ci]}'[env {envk}]", "float_mag_ok", mode="B", param={"envk": envk, "ctx": ci}, timeout=to * 2,
                            witnesses=[[0, 11, 0, 0, False], [3, 7, 1, 0, True], [5, 9, 2, 0, False], [9, 0, 0, 0, False]],
                            bounds=f"{len(MANT)} mantissas x {len(EXPS)} exponents (incl. overflow to inf, underflow to 0, denormals) x 3 exponent signs in one expression context, through compile_expression and an assignment in a template; oracle: Python's evaluation of the same text"))
        if not th and envk and envk != 1 + seed % (len(ENVS) - 1):
            continue
        out.append(Cond(f"string literals from escape table[env {envk}]", "str_lit_ok", mode="B", param={"maxp": mp if envk == 0 else 2, "maxp2": 0, "envk": envk}, timeout=to * 2,
                        witnesses=[[[2, 7], 0, [], 2], [[0, 3], 0, [], 2], [[5, 6], 1, [], 2], [[0, 1], 0, [], 2]],
                        bounds=f"one literal of <= {mp if envk == 0 else 2} pieces from {len(PIECES)} characters/escape sequences, both quotes; value through compile_expression, as output constant and as assigned variable"))
        out.append(Cond(f"adjacent string literals[env {envk}]", "str_lit_ok", mode="B", param={"maxp": 1, "maxp2": 1, "envk": envk}, timeout=to * 2,
                        witnesses=[[[2], 0, [7], 1], [[0], 1, [1], 0], [[1], 1, [1], 1]],
                        bounds=f"two adjacent literals of <= 1 piece each from the table, every quote combination"))
    out.append(Cond("repr(value) round trip", "repr_roundtrip_ok", mode="B", param={}, timeout=to,
                    witnesses=[[0], [5], [15]], bounds=f"{len(VALUES)} ints/floats/strings written with repr()"))
    return out
