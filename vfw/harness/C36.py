"""C36 — async rendering always closes the generators it opens.

Mode B with a symbolic schedule: templates (blocks, extends, include, import, macros, call blocks, loops over
async iterables with and without loop filters, async filters) are rendered through ``render_async`` /
``generate_async``; data coroutine functions and async iterables suspend on a *gate* awaitable that hands control
to the harness driver.  The point of interruption is symbolic: the consumer stops after k chunks (``aclose``),
throws an exception into the stream after k chunks (``athrow``), the render is cancelled at its k-th suspension
(``CancelledError`` thrown into the coroutine), a data call raises at its k-th suspension, or the render
completes.  Every async generator created during the render is recorded through ``sys.set_asyncgen_hooks``;
when the driver returns all of them must be finished, and no 'never awaited' / unclosed warnings may appear.
The asyncio event loop itself is not modelled (the driver plays its role).
"""
import asyncio
import gc
import sys
import warnings
from typing import List

from jinja2 import DictLoader, Environment
from vfw.core import Cond, pick
from vfw.support import NoTracing

FUNCTIONS = ["jinja2.compiler (try/finally aclose around block / include / extends generators: visit_Block, visit_Include, visit_Extends, visit_For loop-filter functions)",
             "Template.generate_async (aclosing) / render_async", "jinja2.async_utils.auto_aiter / auto_to_list", "jinja2.runtime.AsyncLoopContext / BlockReference._async_call",
             "jinja2.filters async generator helpers (do_map, select_or_reject, ...)"]
OUTSIDE = ["the asyncio event loop (task cancellation is modelled as CancelledError thrown at a suspension point)", "templates outside the corpus", "more than 10 suspension points"]
ASSUMPTIONS = ["a generator is 'closed' when its frame is gone (ag_frame is None)"]

TPLS = {
    "base": "<{% block head %}H{{ af(1) }}{% endblock %}|{% block body %}B{% for x in ait(xs) %}{{ x }}{% endfor %}{% endblock %}|{% include 'part' %}>",
    "child": "{% extends 'base' %}{% block body %}C{{ super() }}{% for x in ait(xs) %}{% block inner scoped %}[{{ af(x) }}]{% endblock %}{% endfor %}{% endblock %}",
    "grand": "{% extends 'child' %}{% block head %}G{{ super() }}{{ af(2) }}{% endblock %}{% block inner %}({{ x }}{{ super() }}){% endblock %}",
    "part": "P{% for y in ait(xs) %}{{ af(y) }}{% endfor %}{% include 'leaf' %}",
    "leaf": "L{{ af(9) }}",
    "macros": "{% macro m(v) %}m{{ af(v) }}{% for z in ait([7, 8]) %}{{ z }}{% endfor %}{{ caller() if caller else '' }}{% endmacro %}",
    "usemac": "{% import 'macros' as lib %}{{ lib.m(1) }}{% call lib.m(2) %}c{{ af(3) }}{% endcall %}{% from 'macros' import m with context %}{{ m(4) }}",
    "loops": "{% for x in ait(xs) %}{{ loop.index }}{{ af(x) }}{% for y in xs %}{{ y }}{% endfor %}{% else %}E{% endfor %}{% for x in xs recursive %}{{ af(x) }}{% endfor %}",
    "setfilter": "{% set s %}{{ af(1) }}{% for x in ait(xs) %}{{ x }}{% endfor %}{% endset %}{{ s }}{% filter upper %}{{ af(2) }}{% endfilter %}{% with q = af(3) %}{{ q }}{% endwith %}",
    "layout": "<{% block title %}{% endblock %}|{% block content %}{% endblock %}|{% block foot %}F{% endblock %}>",
    "page": "{% extends 'layout' %}{% block title %}T{{ af(1) }}{% endblock %}{% block content %}{% for x in ait(xs) %}{% include 'leaf' %}{{ af(x) }}{% endfor %}{% endblock %}",
    "page2": "{% extends 'page' %}{% block content %}[{{ super() }}]{% for x in ait(xs) %}{{ self.title() }}{% endfor %}{% endblock %}{% block foot %}{{ super() }}{{ af(5) }}{% endblock %}",
    "incloop": "{% for x in ait(xs) %}{% include ['nope', 'part'] %}{% include 'missing' ignore missing %}{% with v = af(x) %}{% include 'leaf' %}{% endwith %}{% endfor %}",
    "dynext": "{% extends parent %}{% block body %}D{{ af(4) }}{% endblock %}",
    # every form of include / extends delegates to another template's generator
    "incforms": "{% include 'part' ignore missing %}|{% include ['nope', 'leaf'] ignore missing %}|{% include 'leaf' without context %}|{% include 'part' ignore missing with context %}"
                "{% for x in ait(xs) %}{% include 'leaf' ignore missing %}{% endfor %}",
    "condext": "{% if parent %}{% extends parent %}{% endif %}{% block body %}E{{ af(6) }}{{ super() }}{% endblock %}",
    "condext2": "{% if xs %}{% extends 'child' %}{% else %}{% extends 'base' %}{% endif %}{% block head %}F{{ af(7) }}{{ super() }}{% endblock %}",
    "importforms": "{% from 'macros' import m %}{% import 'macros' as lib with context %}{{ m(1) }}{% call lib.m(2) %}{% include 'leaf' ignore missing %}{% endcall %}",
    # loop data that is a synchronous generator object / a plain iterator / a dict view: the adapter the async loop puts around it
    # must not be something that needs closing
    "syncgen": "{% for x in sg(xs) %}{{ af(x) }}{% for y in it(xs) %}{{ y }}{{ af(y) }}{% endfor %}{% else %}E{{ af(0) }}{% endfor %}"
               "{% for x in sg(xs) recursive %}{{ loop.index }}{{ af(x) }}{% endfor %}{% for k, v in dv(xs) %}{{ af(k) }}{% endfor %}",
    "syncgen2": "{% extends 'base' %}{% block body %}{% for x in sg(xs) %}{% include 'leaf' %}{{ loop.last }}{% endfor %}{{ super() }}{% endblock %}",
    # constructs known (on the unchanged tree) to leave helper generators open on early exit: kept in separate templates
    "loopfilter": "{% for x in ait(xs) if x > 0 %}{{ af(x) }}{% endfor %}",
    "afilters": "{{ ait(xs)|map('string')|join(',') }}{{ af(1) }}{% for v in ait(xs)|select('odd') %}{{ af(v) }}{% endfor %}",
    "afirst": "{{ ait(xs)|first }}{{ af(1) }}",
}
MAIN = ["base", "child", "grand", "usemac", "loops", "setfilter", "page", "page2", "incloop", "dynext", "incforms", "condext", "condext2", "importforms",
        "syncgen", "syncgen2",
        "loopfilter", "afilters", "afirst"]
KNOWN_LEAKY = {"loopfilter", "afilters"}
P = {}
ENV = None
LEFT_OPEN = []


class Gate:
    def __await__(self):
        yield self


class Boom(Exception):
    pass


class Ctl:
    def __init__(self, raise_at=None):
        self.n = 0
        self.raise_at = raise_at

    async def af(self, v):
        self.n += 1
        if self.raise_at is not None and self.n == self.raise_at:
            raise Boom()
        await Gate()
        return v

    def ait(self, xs):
        ctl = self

        async def gen():
            for x in xs:
                await Gate()
                yield x
        return gen()


def setup(param):
    global P, ENV
    P = dict(param or {})
    ENV = Environment(loader=DictLoader(TPLS), enable_async=True)
    for n in TPLS:
        ENV.get_template(n)


def _step(coro):
    """Advance to the next gate. Returns ('gate',) / ('done', value) / ('exc', exception)."""
    try:
        coro.send(None)
        return ("gate",)
    except StopIteration as e:
        return ("done", e.value)
    except StopAsyncIteration as e:
        return ("stop",)
    except BaseException as e:
        return ("exc", e)


def _finish(coro):
    while True:
        r = _step(coro)
        if r[0] != "gate":
            return r


def scenario_native(name, mode, k, nitems):
    """Run one interruption scenario; True iff every async generator opened is finished afterwards."""
    tracked = []
    old = sys.get_asyncgen_hooks()
    sys.set_asyncgen_hooks(firstiter=lambda ag: tracked.append(ag), finalizer=lambda ag: None)
    ok = True
    with warnings.catch_warnings(record=True) as wlist:
        warnings.simplefilter("always")
        try:
            ctl = Ctl(raise_at=k if mode == "raise" else None)
            # a fresh Environment per scenario: module caches must not hide generators
            env = Environment(loader=DictLoader(TPLS), enable_async=True)
            env.globals.update(af=ctl.af, ait=ctl.ait, sg=lambda xs: (x for x in xs), it=lambda xs: iter(list(xs)),
                               dv=lambda xs: {x: x for x in xs}.items())
            t = env.get_template(name)
            ctx = dict(xs=list(range(1, nitems + 1)), parent="base")
            if mode in ("complete", "cancel", "raise"):
                coro = t.render_async(**ctx)
                gates = 0
                while True:
                    r = _step(coro)
                    if r[0] != "gate":
                        break
                    gates += 1
                    if mode == "cancel" and gates == k:
                        try:
                            coro.throw(asyncio.CancelledError())
                            r = ("gate",)
                            continue
                        except StopIteration as e:
                            r = ("done", e.value)
                        except BaseException as e:
                            r = ("exc", e)
                        break
                if mode == "cancel" and r[0] == "exc" and not isinstance(r[1], asyncio.CancelledError):
                    ok = False
                if mode == "raise" and r[0] == "exc" and not isinstance(r[1], Boom):
                    ok = False
            else:
                agen = t.generate_async(**ctx)
                chunks = 0
                r = None
                while True:
                    if chunks == k:
                        if mode == "aclose":
                            r = _finish(agen.aclose())
                        elif mode == "athrow":
                            r = _finish(agen.athrow(Boom()))
                            if r[0] == "exc" and not isinstance(r[1], Boom):
                                ok = False
                        elif mode == "cancel-in-anext":
                            # cancel at the first suspension reached at or after chunk k
                            while True:
                                c = agen.__anext__()
                                r = _step(c)
                                if r[0] == "gate":
                                    try:
                                        c.throw(asyncio.CancelledError())
                                        r = _finish(c)
                                    except BaseException as e:
                                        r = ("exc", e)
                                    if r[0] != "exc" or not isinstance(r[1], asyncio.CancelledError):
                                        ok = False
                                    # the consumer's own stream object: a cancelled consumer closes it (aclosing / loop shutdown)
                                    _finish(agen.aclose())
                                    break
                                if r[0] != "done":
                                    break
                        break
                    r = _finish(agen.__anext__())
                    if r[0] != "done":
                        break
                    chunks += 1
        finally:
            sys.set_asyncgen_hooks(*old)
        gc.collect()
        for ag in tracked:
            if ag.ag_code.co_filename == __file__:
                continue  # the data's own async iterables belong to the caller, not to the render
            if ag.ag_frame is not None and not ag.ag_running:
                ok = False
                LEFT_OPEN.append((ag.ag_code.co_name, ag.ag_code.co_filename.rsplit("/", 1)[-1]))
        for w in wlist:
            if issubclass(w.category, RuntimeWarning) and ("never awaited" in str(w.message) or "async generator" in str(w.message)):
                ok = False
    return ok


MODES = ["complete", "aclose", "athrow", "cancel", "cancel-in-anext", "raise"]


def closed_ok(mode: int, k: int, nitems: int) -> bool:
    """
    pre: 0 <= mode < len(MODES) and 0 <= k <= 10 and 0 <= nitems <= 2
    post: _
    """
    m = MODES[pick(mode, len(MODES))]
    kk = pick(k, 11)
    n = pick(nitems, 3)
    with NoTracing():
        return scenario_native(P.get("tpl", "base"), m, kk, n)


def conditions(tier, seed):
    th = tier == "thorough"
    to = 200 if th else 60
    out = []
    for name in MAIN:
        if name in KNOWN_LEAKY:
            continue
        out.append(Cond(f"closed[{name}]", "closed_ok", mode="B", param={"tpl": name}, timeout=to,
                        witnesses=[[0, 0, 2], [1, 1, 2], [3, 2, 1], [2, 0, 0], [5, 1, 2]],
                        bounds="6 interruption modes x interruption index 0..10 x 0..2 items in the async iterables"))
    return out


def known_loop_filter_generator_ok():
    """Known-finding witness: the helper generator of a loop filter over an async iterable is left open when the render is cancelled."""
    return scenario_native("loopfilter", "aclose", 1, 1)


def known_async_filter_generator_ok():
    """Known-finding witness: async filter generators (map/select over an async iterable) are left open when the consumer stops early."""
    return scenario_native("afilters", "aclose", 3, 1)
