"""C08 — compile-time constant folding never changes what a template renders.

Mode A: the folding code itself (``Expr.as_const`` and ``Optimizer.visit``) is executed on ASTs whose
``Const`` leaves hold *symbolic* ints/bools; whenever folding returns a value it must equal the value of the
lifted expression (same tree over context variables) evaluated at run time.

Mode B: expression templates with two constant slots, placed in six statement contexts and six escaping
regions (static on/off, ``{% autoescape true|false %}``, runtime ``{% autoescape flag %}`` both ways) in
escaping and non-escaping environments; the slot values come from a table of ints, plain strings with
markup characters and values marked safe.  The inline template rendered with the optimizer, the inline
template rendered without it, and the lifted template (slots replaced by context variables holding the
same values) must all render the same text.
"""
from typing import List

from jinja2 import Environment, nodes
from jinja2.optimizer import Optimizer
from markupsafe import Markup
from vfw.core import Cond, pick
from vfw.support import NoTracing

FUNCTIONS = ["jinja2.optimizer.Optimizer.generic_visit", "jinja2.nodes.Expr.as_const implementations (BinExpr, UnaryExpr, Concat, Compare, CondExpr, Filter, Test, Getattr, Getitem, MarkSafe, MarkSafeIfAutoescape, List/Tuple/Dict)",
             "jinja2.compiler.optimizeconst / visit_Output / _output_child_to_const / has_safe_repr / visit_Const", "jinja2.nodes.EvalContext (volatile)"]
OUTSIDE = ["expressions outside the corpus", "slot values outside the table", "environment finalize hooks that transform strings (order of finalize and escaping differs between compile time and run time)"]
ASSUMPTIONS = ["the lifted template (slots as context variables) defines the run-time meaning"]

# ---------------------------------------------------------------- mode B corpus
EXPRS = [
    "@1 ~ @2", "@1 ~ '-' ~ @2", "[@1, @2]|join", "[@1, @2]|join('|')", "(@1, @2)|join(@2)", "@1|upper", "@1|string ~ @2", "@1 * 2", "@1 + @1", "@1|default(@2)",
    "@1|e", "@1|escape ~ @2", "(@1|safe) ~ @2", "@1 ~ (@2|safe)", "@1|replace('b', @2)", "@1|center(7)", "@1|indent(2, true)", "@1 if @2 else 'n<'", "@2 if @1 else @1",
    "@1 in [@2, '<b>']", "@1 == @2", "[{'k': @1, 'v': @2}]|groupby('k')|map(attribute='grouper')|join", "[{'k': @1}]|groupby('k')|first|attr('list')|length",
    "{'a': @1, 'b': @2}.a", "{'a': @1}['a'] ~ @2", "[@1, @2][0]", "[@1, @2]|first", "[@1, @2]|last ~ ''", "(@1 ~ @2)|length", "@1|trim ~ @2", "'%s|%s'|format(@1, @2)",
    "@1|truncate(3, true, @2, 0)", "[@1, @2]|map('string')|join(',')", "[@1, @2]|list", "(@1, @2)", "{'k': @1}", "[@1]|map('upper')|list", "@1|forceescape ~ @2",
    "@1|striptags", "@1|wordcount", "@1|title ~ @2", "[@2, @1]|sort|join", "[@1, @2]|unique|join", "@1|list|join(@2)", "-@1", "@1 ** 2", "(-@1) ** 2", "@1 // 2 ~ @2", "not @1", "@1 and @2", "@1 or @2",
    "{'items': @1}.items is number", "{'keys': @1, 'a': @2}.keys is callable", "{'a': @1}.get('a') ~ @2", "{'items': @1}['items']", "{'values': @1}.values is mapping", "(@1, @2).count is callable",
    "@1 ** kk", "-@1 ** kk", "(@1 * -1) ** kk", "@1 * -1 ~ @2", "(@1 - @1) * -1.0", "@1 // -1 ** kk", "kk - -@1", "-@1 ** 2 ** kk",
    "@1|xmlattr", "{'c': @1}|xmlattr", "@1|tojson", "[@1, @2]|tojson", "@1|urlize", "@1|float ~ @2", "@1|int + 1", "@1|abs", "[@1, @2]|sum", "[@1, @2]|max", "range(@1 if @1 is number else 1)|list",
]
WRAPS = ["{{ E }}", "{% set v = E %}{{ v }}", "{% if E %}y{{ E }}{% else %}n{% endif %}", "{% for g in [E] %}{{ g }}{% endfor %}", "{{ x ~ (E) }}", "{{ (E)|string|length }}",
         "{% filter upper %}{{ E }}{% endfilter %}", "{% set v %}{{ E }}{% endset %}{{ v }}"]
REGIONS = [("", ""), ("{% autoescape true %}", "{% endautoescape %}"), ("{% autoescape false %}", "{% endautoescape %}"),
           ("{% autoescape on %}", "{% endautoescape %}"), ("{% autoescape off %}", "{% endautoescape %}"), ("{% autoescape none %}", "{% endautoescape %}")]
# slot values: (source literal, run-time value)
VALS = [("0", 0), ("1", 1), ("7", 7), ("-2", -2), ("'<b>'", "<b>"), ("'a&b'", "a&b"), ("''", ""), ("'x y'", "x y"), ("('<i>'|safe)", Markup("<i>")), ("('&amp;'|safe)", Markup("&amp;")),
        ("true", True), ("none", None), ("2.5", 2.5), ("'\"q\\''", "\"q'"), ("0.0", 0.0), ("-0.0", -0.0)]
V2 = [0, 4, 8, 11]   # second slot: a representative subset of VALS
P = {}
ENVS = {}


def _envs():
    if not ENVS:
        for ae in (False, True):
            for opt in (False, True):
                ENVS[(ae, opt)] = Environment(autoescape=ae, optimized=opt)
                ENVS[(ae, opt, "async")] = Environment(autoescape=ae, optimized=opt, enable_async=True)
    return ENVS


def setup(param):
    global P
    P = dict(param or {})
    _envs()


def _render(env, src, ctx):
    try:
        t = env.from_string(src)
    except Exception as e:
        return ("compile-exc", type(e).__name__)
    try:
        if env.is_async:
            from vfw.support import drive
            return ("ok", drive(t.render_async(**ctx)))
        return ("ok", t.render(**ctx))
    except Exception as e:
        return ("exc", type(e).__name__)


def _same(a, b):
    # an error raised while folding at compile time counts as the same error at render time
    if a[0] != "ok" and b[0] != "ok":
        return a[1] == b[1]
    return a == b


def fold_ok(w: int, v1: int, v2: int, reg: int, ae: bool) -> bool:
    """
    pre: w == 0 and 0 <= v1 < len(VALS) and 0 <= v2 < len(V2) and 0 <= reg < len(REGIONS)
    post: _
    """
    wi = P.get("wrap", 0) if w == 0 else 0
    a = pick(v1, len(VALS))
    b = V2[pick(v2, len(V2))]
    r = pick(reg, len(REGIONS))
    ae = bool(ae)
    with NoTracing():
        return fold_native(P.get("expr", 0), wi, a, b, r, ae)


def fold_native(ei, wi, a, b, r, ae):
    expr = EXPRS[ei]
    inline = expr.replace("@1", VALS[a][0]).replace("@2", VALS[b][0])
    lifted = expr.replace("@1", "s1").replace("@2", "s2")
    pre, post = REGIONS[r]
    src_i = pre + WRAPS[wi].replace("E", inline) + post
    src_l = pre + WRAPS[wi].replace("E", lifted) + post
    for flags in ((True, False), (False, True)):
        # the region keywords on/off/none are context variables: runtime-decided (volatile) autoescape
        ctx = dict(x="<x>", s1=VALS[a][1], s2=VALS[b][1], on=flags[0], off=flags[1], none=None, kk=0 if flags[0] else 2)
        asyncm = bool(P.get("asyncm"))
        key = lambda opt: (ae, opt, "async") if asyncm else (ae, opt)
        r_opt = _render(ENVS[key(True)], src_i, ctx)
        r_noopt = _render(ENVS[key(False)], src_i, ctx)
        r_lift = _render(ENVS[key(True)], src_l, ctx)
        r_lift2 = _render(ENVS[key(False)], src_l, ctx)
        if not (_same(r_opt, r_noopt) and _same(r_opt, r_lift) and _same(r_lift, r_lift2)):
            return False
    return True


# ---------------------------------------------------------------- mode A: folding code on symbolic constants
AENV = Environment()
LIFT = {}


def _const_tree(kind, a, b, c, p):
    C = nodes.Const
    if kind == "arith":
        return nodes.Add(nodes.Mul(C(a), C(b)), nodes.Sub(C(c), nodes.Neg(C(a))))
    if kind == "cmp":
        return nodes.Compare(C(a), [nodes.Operand("lt", C(b)), nodes.Operand("lteq", C(c))])
    if kind == "cond":
        return nodes.CondExpr(C(p), nodes.Add(C(a), C(1)), nodes.FloorDiv(C(b), C(2)))
    if kind == "logic":
        return nodes.Or(nodes.And(C(p), C(a)), nodes.Not(C(b)))
    if kind == "filter":
        return nodes.Filter(nodes.Sub(C(a), C(b)), "abs", [], [], None, None)
    if kind == "test":
        return nodes.Test(nodes.Add(C(a), C(b)), "odd", [], [], None, None)
    if kind == "list":
        return nodes.Getitem(nodes.List([C(a), C(b), C(c)]), C(1), "load")
    if kind == "mod":
        return nodes.Mod(C(a), nodes.Add(C(b), C(1)))
    raise AssertionError(kind)


LIFT_SRC = {"arith": "a * b + (c - -a)", "cmp": "a < b <= c", "cond": "(a + 1) if p else (b // 2)", "logic": "(p and a) or not b",
            "filter": "(a - b)|abs", "test": "(a + b) is odd", "list": "[a, b, c][1]", "mod": "a % (b + 1)"}


def asconst_ok(a: int, b: int, c: int, p: bool, use_optimizer: bool) -> bool:
    """
    post: _
    """
    kind = P.get("kind", "arith")
    tree = _const_tree(kind, a, b, c, p)
    tree.set_environment(AENV)
    ctx = nodes.EvalContext(AENV)
    if kind not in LIFT:
        with NoTracing():
            LIFT[kind] = AENV.compile_expression(LIFT_SRC[kind], undefined_to_none=False)
    try:
        exp = ("ok", LIFT[kind](a=a, b=b, c=c, p=p))
    except Exception as e:
        exp = ("exc", type(e).__name__)
    if use_optimizer:
        new = Optimizer(AENV).visit(tree, ctx)
        if not isinstance(new, nodes.Const):
            return exp[0] == "exc" or True  # not folded (e.g. raises at run time): nothing to compare
        return exp == ("ok", new.value)
    try:
        got = ("ok", tree.as_const(ctx))
    except nodes.Impossible:
        return True
    except Exception as e:
        got = ("exc", type(e).__name__)
    return got == exp


def conditions(tier, seed):
    th = tier == "thorough"
    to = 300 if th else 60
    out = []
    for kind in LIFT_SRC:
        out.append(Cond(f"as_const/Optimizer on symbolic constants[{kind}]", "asconst_ok", mode="A", param={"kind": kind}, timeout=40,
                        witnesses=[[3, 4, 5, True, False], [0, 0, 0, False, True], [-7, 2, -1, True, True]],
                        bounds=f"Const leaves hold any ints / bool; folded value == run-time value of '{LIFT_SRC[kind]}'"))
    for i, e in enumerate(EXPRS):
        for wi in range(len(WRAPS)):
            if not th and ((i + seed) % 3 or (wi + i + seed) % 4):
                continue
            for asyncm in ((False, True) if (th and wi == 0) else (False,)):
                out.append(Cond(f"fold[{e}][{WRAPS[wi]}]{'[async]' if asyncm else ''}", "fold_ok", mode="B", param={"expr": i, "wrap": wi, "asyncm": asyncm}, timeout=to,
                                witnesses=[[0, 4, 2, 0, True], [0, 0, 2, 3, False], [0, 8, 1, 1, False], [0, 1, 0, 5, True]],
                                bounds=f"one expression in one statement context x {len(VALS)} x {len(V2)} slot values x {len(REGIONS)} escaping regions (runtime flags both ways) x autoescape on/off; optimized vs unoptimized vs lifted"))
    return out
