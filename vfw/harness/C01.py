"""C01 — every template source either compiles or fails with a template syntax error.

E2 (regex -> SMT on the live rule table): no rule that leaves the lexer state
unchanged can match the empty string (the "yielded empty string without stack
change" RuntimeError is unreachable, i.e. the lexer cannot spin), every
operator the operator rule can match is a key of the operator table, number
rules only match spellings Python's converters accept.

E1 mode B: (a) token sequences over a ~75-token alphabet are fed to the real
Parser; token i is only decoded (solver fork) when the parser, run natively on
the first i-1 tokens, asked for it — otherwise every extension fails the same way
and the subtree is pruned soundly; complete candidates are then loaded through
Environment.from_string (lexer + parser + code generator + Python compile).
(b) single-token edits (delete / duplicate / replace / swap) of a corpus of
syntactic seeds.  (c) identifier-like character runs through Lexer.wrap.
Only TemplateSyntaxError (incl. TemplateAssertionError) with a line number
inside the source may escape.
"""
import re
from typing import List

import z3

from jinja2 import Environment, lexer
from jinja2.exceptions import TemplateSyntaxError
from jinja2.lexer import Lexer, Token, TokenStream
from jinja2.parser import Parser
from jinja2.sandbox import SandboxedEnvironment
from vfw import rx, wsmodel as W
from vfw.core import Cond, pick
from vfw.support import NoTracing

FUNCTIONS = ["jinja2.lexer.Lexer.__init__ rule table / tokeniter / wrap", "jinja2.parser.Parser (all parse_* methods, fail/fail_eof/fail_unknown_tag, subparse)",
             "jinja2.compiler.CodeGenerator (all visitors) + Python compile() of the generated source", "jinja2.idtracking", "Environment.from_string/_parse/_generate/_compile",
             "jinja2.ext (i18n, do, loopcontrols, debug) parse methods"]
OUTSIDE = ["token sequences longer than N inside one tag (N = 3 quick, 4 thorough) except single-token edits of the seed corpus",
           "free-form Unicode source text through tokeniter (the lexer's totality is covered by the E2 lemmas, not by executing it on symbolic strings)",
           "'never hangs' only as: the lexer cannot match empty without a state change; per-path timeouts"]
ASSUMPTIONS = ["regex->z3 translation; anchors and look-behinds only restrict a rule's language further (dropped = over-approximation of what can match)"]

P = {}
ENVS = {}


def _envs():
    if not ENVS:
        ENVS["default"] = Environment()
        ENVS["ext"] = Environment(extensions=["jinja2.ext.i18n", "jinja2.ext.do", "jinja2.ext.loopcontrols", "jinja2.ext.debug"])
        ENVS["sandbox"] = SandboxedEnvironment()
        ENVS["async"] = Environment(enable_async=True)
        ENVS["line"] = Environment(line_statement_prefix="#", line_comment_prefix="##", trim_blocks=True)
    return ENVS


def setup(param):
    global P
    P = dict(param or {})
    _envs()


# ---------------------------------------------------------------- totality oracle
def load_ok(env, src, wrap=True):
    """True iff loading `src` yields a template or a TemplateSyntaxError with a line number inside the source."""
    if wrap and not _load_ok(env, "{% autoescape flag %}" + src + "{% endautoescape %}"):
        return False  # the same source in a runtime-decided (volatile) autoescape region: other code paths of the generator
    return _load_ok(env, src)


def _load_ok(env, src):
    try:
        env.from_string(src)
    except TemplateSyntaxError as e:
        nlines = src.count("\n") + src.count("\r") + 1
        return isinstance(e.lineno, int) and 1 <= e.lineno <= nlines
    except RecursionError:
        return True
    return True


# ---------------------------------------------------------------- (a) token sequences with parser-driven pruning
KW = ["if", "elif", "else", "endif", "for", "endfor", "in", "is", "not", "and", "or", "set", "endset", "block", "endblock", "extends",
      "include", "import", "from", "macro", "endmacro", "call", "endcall", "filter", "endfilter", "with", "endwith", "autoescape",
      "endautoescape", "recursive", "scoped", "required", "ignore", "missing", "context", "without", "as", "true", "none", "loop",
      "super", "self", "caller", "a", "b", "_"]
EXTKW = ["do", "break", "continue", "trans", "endtrans", "pluralize", "debug", "trimmed"]
OPS = ["+", "-", "*", "/", "//", "%", "**", "~", "(", ")", "[", "]", "{", "}", "==", "!=", "<", ">", "<=", ">=", "=", ".", ":", "|", ",", ";"]
LITS = ["1", "1.5", "'s'"]  # (number spellings are covered by the E2 inclusion lemmas)
STRUCT = ["{{", "}}", "{%", "%}", "x"]


def alphabet():
    a = KW + (EXTKW if P.get("env") == "ext" else []) + OPS + LITS + STRUCT
    return a


# the third and later free positions of a deep condition draw from this representative subset (one per token class)
TAIL = ["if", "else", "endif", "for", "endfor", "in", "is", "not", "and", "set", "block", "endblock", "macro", "call", "as", "a", "-", "*", "**", "~",
        "(", ")", "[", "]", "{", "}", "=", ".", ":", "|", ",", "1", "'s'", "{{", "}}", "{%", "%}", "x"]


class NeedMore(Exception):
    pass


def _tok(sp):
    if sp == "{{":
        return Token(1, "variable_begin", sp)
    if sp == "}}":
        return Token(1, "variable_end", sp)
    if sp == "{%":
        return Token(1, "block_begin", sp)
    if sp == "%}":
        return Token(1, "block_end", sp)
    if sp == "x":
        return Token(1, "data", sp)
    if sp in lexer.operators:
        return Token(1, lexer.operators[sp], sp)
    if sp == "1":
        return Token(1, "integer", 1)
    if sp == "1.5":
        return Token(1, "float", 1.5)
    if sp == "'s'":
        return Token(1, "string", "s")
    return Token(1, "name", sp)


def wants_more(env, spellings):
    """Run the real parser natively on the prefix; True iff it pulled a token beyond the prefix."""
    def gen():
        for sp in spellings:
            yield _tok(sp)
        raise NeedMore()
    p = Parser(env, "", None, None)
    p.stream = TokenStream(gen(), None, None)
    try:
        p.parse()
    except NeedMore:
        return True
    except TemplateSyntaxError:
        return False
    except RecursionError:
        return False
    except AssertionError:
        # the synthetic stream put an expression token where a real lexer can only produce template data (after the
        # tag was closed): not a prefix the lexer can produce, nothing to extend; the text itself is still checked
        # through the public API by seq_check
        return False
    return False


def seq_ok(sel: List[int]) -> bool:
    """
    pre: len(sel) == MAXN() and all(0 <= s < NALPHA() for s in sel[:2]) and all(0 <= s < len(TAIL) for s in sel[2:])
    post: _
    """
    env = ENVS[P.get("env", "default")]
    alpha = alphabet()
    first = P.get("first", "{{")
    prefix = [first] + list(P.get("lead", []))
    for i in range(len(sel)):
        with NoTracing():
            more = wants_more(env, prefix)
        if not more:
            break
        if i >= 2:
            prefix.append(TAIL[pick(sel[i], len(TAIL))])
        else:
            prefix.append(alpha[pick(sel[i], len(alpha))])
    with NoTracing():
        return seq_check(env, prefix)


def seq_check(env, spellings):
    # the candidate itself and its natural closings, through the public API (lexer included)
    body = " ".join(spellings)
    ok = load_ok(env, body)
    ok = ok and load_ok(env, body + (" }}" if spellings[0] == "{{" else " %}"))
    return ok


def NALPHA():
    return len(alphabet())


def MAXN():
    return P.get("n", 3)


# ---------------------------------------------------------------- (b) single-token edits of a seed corpus
SEEDS = [
    "{{ f(a=1, b=2) }}", "{{ a[1:2] }}", "{{ a[1:2, 3] }}", "{{ a[:, :] }}", "{{ a[1, 3] }}", "{{ a.b['c'](1, *d, **e) }}", "{{ a|f(1)|g }}", "{{ a is divisibleby 3 }}",
    "{{ a if b else c }}", "{{ [1, (2, 3), {'k': 4}] }}", "{{ a ~ 'b' ~ 1.5 }}", "{{ -a ** 2 }}", "{{ a < b <= c }}", "{{ a in b and not c }}", "{{ f(x, class=1, *y) }}",
    "{% set x = 1 %}", "{% set x, y = 1, 2 %}", "{% set ns.attr = 1 %}", "{% set x | default(y) %}{% endset %}", "{% set x %}t{% endset %}",
    "{% for a, b in c if a recursive %}{{ loop(a) }}{% else %}e{% endfor %}", "{% if a %}1{% elif b %}2{% else %}3{% endif %}",
    "{% macro m(a, b=1) %}{{ caller() }}{% endmacro %}", "{% macro m(a, a) %}{% endmacro %}", "{% call(x, y) m(1, k=2) %}c{% endcall %}", "{% call(a, a) m() %}{% endcall %}",
    "{% filter upper|lower(1) %}t{% endfilter %}", "{% with a = 1, b = 2 %}{{ a }}{% endwith %}", "{% block b scoped required %}{% endblock b %}",
    "{% extends 'p' %}", "{% include ['a', 'b'] ignore missing with context %}", "{% import 'm' as m with context %}", "{% from 'm' import a as b, c without context %}",
    "{% autoescape true %}t{% endautoescape %}", "{% raw %}{{ x }}{% endraw %}", "{# c #}t", "{{ 1e999 }}", "{{ 0x1_f + 0b1 + 0o7 + 1_0.5e-3 }}", "{{ 'a' 'b' \"c\" }}",
    "{{ a.1 }}", "{{ a.b.c() }}", "{{ (a, ) }}", "{{ a(**b) }}", "{{ a if b }}", "{{ loop.cycle('a', 'b') }}", "{{ self.b() ~ super() }}", "{{ namespace(a=1).a }}",
    "{% for x in y %}{% for x in x %}{{ loop.index }}{% endfor %}{% endfor %}", "{% block a %}{% block b %}{{ super() }}{% endblock %}{% endblock %}",
    "{% if a is not none and b is defined(1) %}{% endif %}", "{% call foo(caller=1) %}{% endcall %}", "{% call(x) foo(1, caller=x, k=2) %}{% endcall %}",
    "{{ 1 if x }}{{ (1 if x) + 1 }}", "{% from 'm' import a as b %}{{ b }}", "{% import 'm' as m %}{{ m.a }}", "{% include 'm' %}", "{{ 2**3**2 }}{{ 7 // 0 if false }}", "{{ 9**9 }}", "{{ a|map(attribute='x')|select('odd')|list }}", "{{ not a == b }}", "{{ a // b % c }}",
]
EXT_SEEDS = ["{% trans a=f(), b=2 %}x {{ a }}{% pluralize b %}y{% endtrans %}", "{% trans trimmed %} t {% endtrans %}", "{% do a.append(1) %}",
             "{% for x in y %}{% break %}{% continue %}{% endfor %}", "{% debug %}", "{{ _('m', a=1) }}", "{% trans count=n %}{{ count }}{% pluralize %}{{ count }}{% endtrans %}"]
REPL = ["a", "1", "'s'", "(", ")", "[", "]", ",", ":", "=", "|", ".", "*", "**", "if", "else", "for", "in", "is", "not", "set", "endset", "block", "%}", "{%", "}}", "{{", "-", "~", "{", "}", "recursive", "with", "as", "import"]
_TOKRE = re.compile(r"\{\{|\}\}|\{%|%\}|\{#|#\}|\*\*|//|==|!=|<=|>=|'[^']*'|\"[^\"]*\"|[A-Za-z_][A-Za-z_0-9]*|\d[\d_.xobe+-]*|\s+|.", re.S)


def seed_tokens(s):
    return [t for t in _TOKRE.findall(s)]


def edit_ok(seed: int, pos: int, kind: int, repl: int) -> bool:
    """
    pre: 0 <= seed < NSEEDS() and 0 <= pos < 40 and 0 <= kind <= 3 and 0 <= repl < len(REPL)
    post: _
    """
    seeds = SEEDS + (EXT_SEEDS if P.get("env") == "ext" else [])
    lo = P.get("lo", 0)
    si = lo + pick(seed, NSEEDS())
    toks = seed_tokens(seeds[si])
    idx = [i for i, t in enumerate(toks) if not t.isspace()]
    p = pick(pos, 40)
    if p >= len(idx):
        return True
    k = pick(kind, 4)
    r = 0
    if k == 2:
        r = pick(repl, len(REPL))
    elif repl != 0:
        return True
    with NoTracing():
        t = list(toks)
        i = idx[p]
        if k == 0:
            del t[i]
        elif k == 1:
            t.insert(i, t[i] + " ")
        elif k == 2:
            t[i] = REPL[r]
        else:
            if p + 1 >= len(idx):
                return True
            j = idx[p + 1]
            t[i], t[j] = t[j], t[i]
        src = "".join(t)
        env = ENVS[P.get("env", "default")]
        return load_ok(env, src) and load_ok(env, "l1\n" + src + "\nl3")


def NSEEDS():
    return P.get("nseeds", 4)


def seeds_ok(i: int, envk: int) -> bool:
    """
    pre: 0 <= i < len(SEEDS) + len(EXT_SEEDS) and 0 <= envk <= 4
    post: _
    """
    k = pick(i, len(SEEDS) + len(EXT_SEEDS))
    e = ["default", "ext", "sandbox", "async", "line"][pick(envk, 5)]
    with NoTracing():
        return load_ok(ENVS[e], (SEEDS + EXT_SEEDS)[k])


TNAMES = ["plain", "a'b", 'a"b', "a{b}", "a\\b", "a\nb", "é%s", "x y", "a\"'b", "{{", "''" + "'", "\\"]


def names_ok(ni: int, si: int) -> bool:
    """
    pre: 0 <= ni < len(TNAMES) and 0 <= si < len(SEEDS)
    post: _
    """
    n = TNAMES[pick(ni, len(TNAMES))]
    k = pick(si, len(SEEDS))
    with NoTracing():
        from jinja2 import DictLoader
        ok = True
        for asyncm in (False, True):
            env = Environment(loader=DictLoader({n: SEEDS[k], "m": "{% macro a() %}{% endmacro %}"}), enable_async=asyncm)
            try:
                env.get_template(n)
            except TemplateSyntaxError as e:
                ok = ok and isinstance(e.lineno, int) and e.lineno >= 1
        return ok


def known_int_digit_limit_ok():
    """Known-finding witness: Python's int<->str digit limit (4300) surfaces as a bare ValueError."""
    try:
        Environment().from_string("{{ 10**5000 }}")
        Environment().from_string("{{ " + "9" * 5000 + " }}")
    except TemplateSyntaxError:
        return True
    except ValueError:
        return False
    return True


# ---------------------------------------------------------------- (d) "never hangs": pathological inputs under a time limit
import signal

SLOW = [
    '{{ "' + "Welcome back, dear customer of the shop " * 2 + " }}</h1>", "{{ '" + "a" * 60, "{% set x = '" + "\\\\" * 40 + " %}", '{{ "' + "\\'" * 40 + " }}",
    "{{ " + "(" * 60 + " }}", "{{ a" + "[" * 60 + " }}", "{{ " + "1_" * 60 + " }}", "{{ " + "1" * 60 + "e }}", "{{ 0x" + "_f" * 50 + "g }}", "{{ " + "a" * 200 + "· }}",
    "{% raw %}" + "{% endra " * 60, "{#" + " #" * 200, "{{" * 60, "{% if " + "not " * 200 + "%}", "x" + " \n" * 300 + "{%- if -%}", "{{ a" + ".b" * 200 + "( }}",
    "{{ '" + "\\\\x" * 40 + "' }}", "{{ " + "-" * 300 + "1 }}", "{{ a" + "|f" * 200 + " }}", "# " * 200, "{{ 1" + " if a else 1" * 100 + " }}",
]


class _Timeout(Exception):
    pass


def _alarm(signum, frame):
    raise _Timeout()


def hang_ok(i: int, envk: int) -> bool:
    """
    pre: 0 <= i < len(SLOW) and 0 <= envk <= 1
    post: _
    """
    k = pick(i, len(SLOW))
    e = ["default", "line"][pick(envk, 2)]
    with NoTracing():
        old = signal.signal(signal.SIGALRM, _alarm)
        signal.setitimer(signal.ITIMER_REAL, 8.0)
        try:
            return _load_ok(ENVS[e], SLOW[k])
        except _Timeout:
            return False  # loading did not return within the limit
        finally:
            signal.setitimer(signal.ITIMER_REAL, 0)
            signal.signal(signal.SIGALRM, old)


# ---------------------------------------------------------------- (c) identifier-like runs through Lexer.wrap
NAMECH = ["a", "1", "·", "é", "_", "٣", "℘", "́"]


def name_ok(cs: List[int], ctx: int) -> bool:
    """
    pre: 1 <= len(cs) <= 3 and all(0 <= c < len(NAMECH) for c in cs) and ctx == 0
    post: _
    """
    s = "".join(NAMECH[pick(c, len(NAMECH))] for c in cs)
    k = P.get("ctx", 0) if ctx == 0 else 0
    with NoTracing():
        src = ["{{ %s }}", "{%% set %s = 1 %%}{{ %s }}", "{{ x.%s }}", "{%% macro %s(%s) %%}{%% endmacro %%}"][k].replace("%s", s)
        return all(load_ok(e, src) for e in (ENVS["default"], ENVS["async"]))


# ---------------------------------------------------------------- E2
def smt_lexer(param):
    d = W.DELIMS[param.get("delims", 0)]
    kw = dict(block_start_string=d["bs"], block_end_string=d["be"], variable_start_string=d["vs"], variable_end_string=d["ve"],
              comment_start_string=d["cs"], comment_end_string=d["ce"], trim_blocks=param.get("trim", False))
    if param.get("line"):
        kw.update(line_statement_prefix="#", line_comment_prefix="##")
    lx = Lexer(Environment(**kw))
    q = rx.Q()
    s = z3.String("s")
    bad = None
    n = 0
    for state, rules in lx.rules.items():
        for rule in rules:
            if rule.command is not None:
                continue  # state changes: progress even on an empty match
            if isinstance(rule.tokens, tuple) and any(isinstance(t, lexer.Failure) for t in rule.tokens):
                continue  # raises TemplateSyntaxError
            R, _ = rx.to_z3(rule.pattern, drop_context=True)
            n += 1
            r, _m = q.check(f"{state}:{rule.pattern.pattern[:30]!r}:matches-empty", z3.InRe(z3.StringVal(""), R))
            if r != "unsat" and bad is None:
                bad = {"kind": "empty", "state": state, "pattern": rule.pattern.pattern, "result": r}
    # operator rule only matches keys of the operator table
    R, _ = rx.to_z3(lexer.operator_re)
    keys = rx.zunion(z3.Re(z3.StringVal(k)) for k in lexer.operators)
    r, m = q.check("operator_re within operators", z3.InRe(s, R), z3.Not(z3.InRe(s, keys)))
    if r != "unsat" and bad is None:
        bad = {"kind": "operator", "string": rx.zstr_to_py(rx.model_str(m, s)) if r == "sat" else None, "result": r}
    out = {"queries": q.queries, "solver_s": round(q.solver_s, 3), "detail": {"rules_checked": n, "log": q.log[:40]}}
    if n == 0:
        out["verdict"] = "HARNESS_ERROR"
    elif bad is None:
        out["verdict"] = "CONFIRMED"
    elif bad.get("result") == "sat":
        out.update(verdict="REFUTED", cex=bad)
    else:
        out["verdict"] = "CANNOT_CONFIRM"
    return out


def smt_numbers(param):
    from vfw.harness import C14
    return C14.smt_inclusion(param)


def number_replay(w):
    return all(load_ok(e, "{{ " + w + " }}") and load_ok(e, "{% set q = " + w + " %}") for e in (ENVS["default"], ENVS["async"]))


def smt_replay(cex):
    if isinstance(cex, str):
        return True
    if cex["kind"] == "operator":
        w = cex["string"]
        return not lexer.operator_re.fullmatch(w) or w in lexer.operators
    # empty-match rule: demonstrate on the real lexer that the rule can match empty (pattern-level replay)
    return re.compile(cex["pattern"], re.M | re.S).match("") is None


def conditions(tier, seed):
    th = tier == "thorough"
    to = 240 if th else 55
    out = []
    for dl in (0, 2):
        for line in (False, True):
            out.append(Cond(f"E2 lexer rules cannot match empty / operators[delims={dl},line={line}]", "smt_lexer", kind="smt", mode="A",
                            param={"delims": dl, "line": line, "trim": line}, replay="smt_replay", timeout=120, bounds="every state-preserving rule of the live rule table"))
    for which in ("integer_re", "float_re"):
        out.append(Cond(f"E2 L({which}) within what Python's converters accept", "smt_numbers", kind="smt", mode="A", param={"which": which},
                        replay="number_replay", timeout=120, witnesses=["0x_1F", "1_000", "00", "1e5"],
                        bounds="all strings <= 64 chars: int(v, 0) / literal_eval cannot raise for a spelling the number rules match"))
    out.append(Cond("seed corpus loads or fails with TemplateSyntaxError", "seeds_ok", mode="B", param={}, timeout=to,
                    witnesses=[[0, 0], [2, 3], [18, 1]], bounds=f"{len(SEEDS) + len(EXT_SEEDS)} seeds x 5 environments"))
    leads = {"{{": [[], ["a"], ["a", "("], ["a", "["], ["a", "|"], ["a", "is"], ["(", "a"], ["a", "if"], ["[", "1"], ["{", "'s'"], ["a", "(", "a", "="], ["a", "[", "1", ":"],
                    ["a", ".", "a", "("], ["a", "if", "a", "else"], ["not", "a"], ["a", "in"], ["-", "a"], ["a", "**"], ["a", "(", "*"]],
             "{%": [[], ["set"], ["for"], ["if"], ["macro"], ["call"], ["block"], ["from"], ["import"], ["include"], ["with"], ["filter"], ["set", "a"], ["for", "a", "in"],
                    ["macro", "a", "("], ["call", "("], ["from", "'s'", "import"], ["set", "a", "|"], ["for", "a", ",", "b", "in", "a"], ["macro", "a", "(", "a", ","],
                    ["call", "(", "a", ")"], ["include", "'s'"], ["import", "'s'", "as"], ["block", "a"], ["with", "a", "="], ["extends"], ["autoescape"], ["if", "a", "%}", "{%"],
                    ["for", "a", "in", "a", "%}", "{%"], ["set", "a", "%}", "{%"], ["endif"], ["raw"]]}
    envs = ["default", "ext", "sandbox", "async"] if th else ["default", "ext"]
    k = 0
    for envk in envs:
        for first, ls in leads.items():
            for lead in ls:
                k += 1
                if envk != "default" and (k + seed) % (2 if th else 4):
                    continue
                deep = (k + seed) % (8 if th else 9) == 0
                n = (3 if deep else 2) if th else (2 if deep else 1)
                out.append(Cond(f"tokens[{envk}] {first} {' '.join(lead)} + <= {n} more", "seq_ok", mode="B",
                                param={"env": envk, "first": first, "lead": lead, "n": n}, timeout=to * ((2 if th else 3) if n > 1 else 1),
                                witnesses=[[[0] * n], [[45, 46, 17][:n]], [[len(KW) + 8, 43, 20][:n]]],
                                bounds=f"fixed lead + up to {n} further tokens from the {len(KW) + len(OPS) + len(LITS) + len(STRUCT)}(+{len(EXTKW)})-token alphabet (a third token from a {len(TAIL)}-token representative subset), pruned by what the real parser asks for"))
    ns = 3
    total = len(SEEDS)
    for envk in (["default", "ext", "async", "sandbox"] if th else ["default", "ext"]):
        tot = total + (len(EXT_SEEDS) if envk == "ext" else 0)
        for lo in range(0, tot, ns):
            if not th and ((envk != "default" and (lo // ns + seed) % 4) or (envk == "default" and (lo // ns + seed) % 2)):
                continue
            out.append(Cond(f"edits[{envk}] seeds {lo}..{min(lo + ns, tot) - 1}", "edit_ok", mode="B",
                            param={"env": envk, "lo": lo, "nseeds": min(ns, tot - lo)}, timeout=to,
                            witnesses=[[0, 1, 0, 0], [0, 3, 2, 5], [0, 2, 3, 0], [0, 4, 1, 0]],
                            bounds="every single-token deletion, duplication, swap and replacement (35 replacement tokens) of each seed, alone and embedded between text lines"))
    out.append(Cond("template names with quotes/braces/backslashes x seed corpus", "names_ok", mode="B", param={}, timeout=to * 2,
                    witnesses=[[1, 8], [2, 0], [8, 50]], bounds=f"{len(TNAMES)} template names x {len(SEEDS)} seeds, sync and async environments (names are embedded in generated code)"))
    out.append(Cond("pathological inputs return within 8 s", "hang_ok", mode="B", param={}, timeout=240, path_timeout=30,
                    witnesses=[[0, 0], [4, 1]], bounds=f"{len(SLOW)} inputs built to provoke backtracking / deep recursion (unterminated strings with long tails, long digit/underscore runs, deep nesting) x 2 environments"))
    for cx in range(4):
        out.append(Cond(f"identifier-like character runs[position {cx}]", "name_ok", mode="B", param={"ctx": cx}, timeout=to,
                        witnesses=[[[0, 2], 0], [[1, 0], 0], [[5], 0]], bounds=f"1..3 characters from {NAMECH!r}"))
    return out
