"""C23 — string and number filters satisfy their documented contracts.

Mode A (genuinely symbolic str/int through the real filter code) for truncate,
center, trim, replace, int, float, filesizeformat; mode B (strings assembled
from selector lists over small alphabets, exhausted by the solver, filter run
natively through a compiled template) for the regex/C-library based filters.
"""
import math
import urllib.parse
from typing import List

from jinja2 import Environment
from markupsafe import Markup
from vfw.core import Cond, pick
from vfw.support import NoTracing, Rec, drive, norm

FUNCTIONS = [
    "jinja2.filters: do_truncate do_center do_trim do_replace do_indent do_int do_float do_round do_filesizeformat "
    "do_wordcount do_wordwrap do_title do_capitalize do_upper do_lower do_format do_striptags do_urlencode",
    "jinja2.utils.url_quote",
]
OUTSIDE = ["strings longer than the stated length bounds / outside the stated alphabets (mode B)",
           "last-digit float rounding of filesizeformat mantissas (the printed number is compared with the exact quotient to within half a printed digit) and of round() scaling (the exact and the float-scaled answer are both accepted)"]
ASSUMPTIONS = ["float(int) raises OverflowError iff abs(x) >= 2**1024 (E3 stub, replayed natively)"]

ENV = Environment()
AENV = Environment(enable_async=True)
P = {}
T = {}


def _t(expr, asyncm=False):
    key = (expr, asyncm)
    if key not in T:
        T[key] = (AENV if asyncm else ENV).from_string("{{ rec('r', " + expr + ") }}")
    return T[key]


def call(expr, **ctx):
    """Evaluate a filter expression through a compiled template; ('ok', v) or ('exc', name)."""
    rec = Rec()
    try:
        if P.get("asyncm"):
            drive(_t(expr, True).render_async(rec=rec, **ctx))
        else:
            _t(expr).render(rec=rec, **ctx)
    except Exception as e:
        return ("exc", type(e).__name__)
    return ("ok", rec.log[0][1])


EXPRS = [
    "s|truncate(n, k, e, lw)", "s|truncate(n, k)", "s|center(n)", "s|trim", "s|trim(e)", "s|replace(a, b)", "s|replace(a, b, n)",
    "v|int", "v|int(d)", "v|float", "v|float(dflt)", "v|filesizeformat(b)", "s|indent(n, f, bl)", "s|indent(e, f, bl)",
    "s|wordcount", "s|wordwrap(n, br)", "s|title", "s|capitalize", "s|upper", "s|lower", "s|striptags", "s|urlencode", "d|urlencode",
    "v|round(p, m)", "f|format(a, b)", "f|format(x=a)", "f|format(a, x=b)", "v|int(d, 16)", "s|int(0, n)",
]


def setup(param):
    global P
    P = dict(param or {})
    for e in EXPRS:
        _t(e, bool(P.get("asyncm")))


# ------------------------------------------------------------------ mode A
def truncate_ok(s: str, n: int, k: bool, lw: int, eidx: int) -> bool:
    """
    pre: len(s) <= MAXS() and 0 <= eidx <= 2 and [3, 1, 0][eidx] <= n <= 6 and 0 <= lw <= 3
    post: _
    """
    e = ["...", "~", ""][pick(eidx, 3)]
    r = call("s|truncate(n, k, e, lw)", s=s, n=n, k=k, e=e, lw=lw)
    if r[0] != "ok":
        return False
    out = r[1]
    if len(s) <= n + lw:
        return out == s
    cut = s[: n - len(e)]
    if k:
        return out == cut + e
    # discard the last (partial) word: cut at the last space of the prefix, if any
    i = cut.rfind(" ")
    return out == (cut[:i] if i >= 0 else cut) + e and len(out) <= n


def truncate_default_leeway_ok(s: str, n: int) -> bool:
    """
    pre: len(s) <= 12 and 3 <= n <= 5
    post: _
    """
    r = call("s|truncate(n, k)", s=s, n=n, k=True)
    lw = ENV.policies["truncate.leeway"]
    if len(s) <= n + lw:
        return r == ("ok", s)
    return r == ("ok", s[: n - 3] + "...")


def center_ok(s: str, n: int) -> bool:
    """
    pre: len(s) <= MAXS() and 0 <= n <= 9
    post: _
    """
    r = call("s|center(n)", s=s, n=n)
    if r[0] != "ok":
        return False
    out = r[1]
    pad = n - len(s)
    if pad <= 0:
        return out == s
    if len(out) != n:
        return False
    lo = pad // 2
    for left in (lo, pad - lo):
        if out == " " * left + s + " " * (pad - left):
            return True
    return False


def trim_ok(s: str, useset: bool) -> bool:
    """
    pre: len(s) <= MAXS()
    post: _
    """
    if useset:
        r = call("s|trim(e)", s=s, e="xy")
        chars = "xy"
    else:
        r = call("s|trim", s=s)
        chars = " \t\n\r\x0b\x0c\x1c\x1d\x1e\x1f\x85\xa0"
    if r[0] != "ok":
        return False
    out = r[1]
    # out is s minus a prefix and a suffix made only of strip characters, and cannot be stripped further
    i = 0
    while i < len(s) and (s[i] in chars if useset else s[i].isspace()):
        i += 1
    j = len(s)
    while j > i and (s[j - 1] in chars if useset else s[j - 1].isspace()):
        j -= 1
    return out == s[i:j]


def replace_ok(s: str, a: str, b: str, n: int, usecount: bool) -> bool:
    """
    pre: len(s) <= 3 and 1 <= len(a) <= 2 and len(b) <= 1 and 0 <= n <= 2
    post: _
    """
    if usecount:
        r = call("s|replace(a, b, n)", s=s, a=a, b=b, n=n)
    else:
        r = call("s|replace(a, b)", s=s, a=a, b=b)
    # reference: left-to-right non-overlapping replacement
    out = []
    i = 0
    done = 0
    while i < len(s):
        if s[i:i + len(a)] == a and (not usecount or done < n):
            out.append(b)
            i += len(a)
            done += 1
        else:
            out.append(s[i])
            i += 1
    return r == ("ok", "".join(out))


def int_of_int_ok(v: int, d: int) -> bool:
    """
    post: _
    """
    return call("v|int(d)", v=v, d=d) == ("ok", v) and call("v|int", v=v) == ("ok", v)


def float_of_int_ok(v: int, d: int) -> bool:
    """
    post: _
    """
    # any int: either its float value, or (when not representable) the default; never an exception
    r = call("v|float(dflt)", v=v, dflt=d)
    if r[0] != "ok":
        return False
    if -(2 ** 1024) < v < 2 ** 1024:
        return r[1] == v or isinstance(r[1], float)
    return r[1] == d


def int_of_bool_none_ok(which: int, d: int) -> bool:
    """
    pre: 0 <= which <= 5
    post: _
    """
    vals = [True, False, None, [], {}, (1, 2)]
    exp = [1, 0, d, d, d, d]
    w = pick(which, 6)
    fexp = [1.0, 0.0, d, d, d, d]
    return call("v|int(d)", v=vals[w], d=d) == ("ok", exp[w]) and call("v|float(dflt)", v=vals[w], dflt=d) == ("ok", fexp[w])


FS_MULT = [1, 5, 999]


def filesize_ok(k: int, delta: int, b: bool, m: int) -> bool:
    """
    pre: 1 <= k <= 10 and -1 <= delta <= 1 and 0 <= m < len(FS_MULT)
    post: _
    """
    from fractions import Fraction
    kk = 1 + pick(k - 1, 10)
    dd = pick(delta + 1, 3) - 1
    mult = FS_MULT[pick(m, len(FS_MULT))]
    b = bool(b)
    with NoTracing():
        base = 1024 if b else 1000
        v = mult * base ** kk + dd
        r = call("v|filesizeformat(b)", v=v, b=b)
        if r[0] != "ok":
            return False
        out = r[1]
        units = ["KiB", "MiB", "GiB", "TiB", "PiB", "EiB", "ZiB", "YiB"] if b else ["kB", "MB", "GB", "TB", "PB", "EB", "ZB", "YB"]
        if v < base:
            return out == f"{v} Bytes"
        if mult == 1 and (int(float(base ** kk)) != base ** kk or (float(v) != v and dd == -1)):
            return True  # boundary not exactly representable as a float: rounding decides, outside the claim
        i = min(kk - 1 if (dd >= 0 or mult > 1) else kk - 2, 7)
        if not out.endswith(" " + units[i]):
            return False
        # the number in front of the unit is the size in that unit to one decimal place (sizes beyond the largest
        # prefix keep that prefix): compare with the exact quotient, allowing float noise well below the printed digit
        try:
            mant = Fraction(out.split(" ")[0])
        except ValueError:
            return False
        exact = Fraction(v, base ** (i + 1))
        return abs(mant - exact) <= Fraction(1, 20) + exact / 10 ** 9


def filesize_small_ok(v: int, b: bool) -> bool:
    """
    pre: 0 <= v < 1000
    post: _
    """
    w = pick(v, 1000)
    with NoTracing():
        out = call("v|filesizeformat(b)", v=w, b=bool(b))
        return out == ("ok", "1 Byte" if w == 1 else f"{w} Bytes")


# ------------------------------------------------------------------ mode B helpers
def sel_str(codes, alphabet):
    return "".join(alphabet[pick(c, len(alphabet))] for c in codes)


def SOK(codes, k, maxlen):
    return len(codes) <= maxlen and all(0 <= c < k for c in codes)


A_INDENT = ["a", " ", "\n"]


def indent_ok(codes: List[int], n: int, f: bool, bl: bool, strw: bool) -> bool:
    """
    pre: SOK(codes, 3, MAXB()) and 0 <= n <= 2
    post: _
    """
    s = sel_str(codes, A_INDENT)
    w = pick(n, 3)
    f = bool(f)
    bl = bool(bl)
    strw = bool(P.get("strw")) if strw in (True, False) else False
    with NoTracing():
        ind = ">" * w if strw else " " * w
        r = call("s|indent(e, f, bl)", s=s, e=ind, f=f, bl=bl) if strw else call("s|indent(n, f, bl)", s=s, n=w, f=f, bl=bl)
        lines = s.split("\n")
        out = []
        for i, ln in enumerate(lines):
            if i == 0:
                if f and not bl and ln == "":
                    return True  # documentation is silent on an empty first line with first=True
                out.append(ind + ln if f else ln)
            else:
                out.append(ind + ln if (ln or bl) else ln)
        return r == ("ok", "\n".join(out))


A_WORDS = ["a", "B", " ", "-", "\n", "é"]


def words_ok(codes: List[int], which: int) -> bool:
    """
    pre: SOK(codes, 6, MAXB()) and which == 0
    post: _
    """
    s = sel_str(codes, A_WORDS)
    w = P.get("which", 0) if which >= 0 else 0
    with NoTracing():
        if w == 0:
            import re
            return call("s|wordcount", s=s) == ("ok", len([x for x in re.split(r"[^\w]+", s) if x]))
        if w == 1:
            return call("s|upper", s=s) == ("ok", s.upper())
        if w == 2:
            return call("s|lower", s=s) == ("ok", s.lower())
        if w == 3:
            return call("s|capitalize", s=s) == ("ok", (s[:1].upper() + s[1:].lower()))
        if w == 4:
            # title: every maximal run not containing separators starts uppercase, rest lowercase
            r = call("s|title", s=s)
            exp = []
            start = True
            for ch in s:
                if ch in "- \n\t({[<":
                    exp.append(ch)
                    start = True
                else:
                    exp.append(ch.upper() if start else ch.lower())
                    start = False
            return r == ("ok", "".join(exp))
        r = call("s|trim", s=s)
        return r == ("ok", s.strip())


A_WRAP = ["ab", "c", " ", "\n", "defgh", "-"]


def wordwrap_ok(codes: List[int], width: int, br: bool) -> bool:
    """
    pre: SOK(codes, 6, MAXB()) and 1 <= width <= 4
    post: _
    """
    s = sel_str(codes, A_WRAP)
    w = 1 + pick(width - 1, 4)
    br = bool(P.get("br")) if br in (True, False) else False
    with NoTracing():
        r = call("s|wordwrap(n, br)", s=s, n=w, br=br)
        if r[0] != "ok":
            return False
        out = r[1]
        # all non-whitespace text kept, in order
        if "".join(out.split()) != "".join(s.split()):
            return False
        if br and any(len(line) > w for line in out.split("\n")):
            return False
        return True


A_HTML = ["<", ">", "a", " ", "&amp;", "b/", "!--", "\n"]


def striptags_ok(codes: List[int]) -> bool:
    """
    pre: SOK(codes, 8, MAXB())
    post: _
    """
    s = sel_str(codes, A_HTML)
    with NoTracing():
        r = call("s|striptags", s=s)
        if r[0] != "ok":
            return False
        out = r[1]
        # definition: MarkupSafe's striptags of the value's markup form
        return out == Markup(s).striptags() and "  " not in out and out == out.strip()


A_URL = ["a", "+", " ", "/", "&", "=", "é", "%"]


def urlencode_ok(codes: List[int], codes2: List[int], shape: int) -> bool:
    """
    pre: SOK(codes, 8, 2) and SOK(codes2, 8, 1) and shape == 0
    post: _
    """
    s = sel_str(codes, A_URL)
    s2 = sel_str(codes2, A_URL)
    sh = P.get("shape", 0) if shape == 0 else 0
    with NoTracing():
        if sh == 0:
            return call("s|urlencode", s=s) == ("ok", urllib.parse.quote(s, safe="/"))
        if sh == 1:
            d = {s: s2, "k": s}
            r = call("d|urlencode", d=d)
        else:
            d = [(s, s2), ("k", s), (s2, 5)]
            r = call("d|urlencode", d=d)
        if r[0] != "ok":
            return False
        # a query string must parse back to the pairs that went in
        pairs = list(d.items()) if isinstance(d, dict) else d
        back = urllib.parse.parse_qsl(r[1], keep_blank_values=True, strict_parsing=False)
        return back == [(str(k), str(v)) for k, v in pairs] or (
            # parse_qsl cannot represent empty keys+values in every case; fall back to exact reference
            r[1] == "&".join(f"{urllib.parse.quote_plus(str(k))}={urllib.parse.quote_plus(str(v))}" for k, v in pairs))


NUMS = ["42", " 7 ", "4.9", "-3.5", "1e3", "0x1f", "1f", "abc", "", "inf", "-inf", "nan", "1_000", "١٢", "9" * 400, "1e999", "0b11", "0o17", "+5"]
SPECIALS = [float("inf"), float("-inf"), float("nan"), 1e308, -1e308, 10 ** 400, -(10 ** 400), 2.5, -0.0, 1e22, b"12", "12", None, [], [1], {}, (), True]


def conv_table_ok(i: int, which: int, d: int) -> bool:
    """
    pre: 0 <= i < NCONV() and 0 <= which <= 1 and -1 <= d <= 1
    post: _
    """
    k = pick(i, NCONV())
    w = pick(which, 2)
    dd = pick(d + 1, 3) - 1
    with NoTracing():
        v = (NUMS + SPECIALS)[k]
        if w == 0:
            r = call("v|int(d)", v=v, d=dd)
            try:
                exp = int(v) if not isinstance(v, (float,)) or math.isfinite(v) else dd
            except (TypeError, ValueError):
                try:
                    exp = int(float(v))
                except (TypeError, ValueError, OverflowError):
                    exp = dd
            return r == ("ok", exp) and type(r[1]) is type(exp)
        r = call("v|float(dflt)", v=v, dflt=dd)
        try:
            exp = float(v)
        except (TypeError, ValueError, OverflowError):
            exp = dd
        if r[0] != "ok":
            return False
        return (r[1] == exp or (exp != exp and r[1] != r[1]))


def NCONV():
    return len(NUMS) + len(SPECIALS)


def int_base_ok(i: int, base: int) -> bool:
    """
    pre: 0 <= i < len(NUMS) and 0 <= base <= 3
    post: _
    """
    k = pick(i, len(NUMS))
    b = [2, 8, 10, 16][pick(base, 4)]
    with NoTracing():
        v = NUMS[k]
        r = call("s|int(0, n)", s=v, n=b)
        try:
            exp = int(v, b)
        except ValueError:
            try:
                exp = int(float(v))
            except (ValueError, OverflowError):
                exp = 0
        return r == ("ok", exp)


ROUND_VALS = [42.55, 2.5, -2.5, 0.125, 7, -7.77, 1e15 + 0.5, 0.0, 2.00000000001, 1.99999999999, -6.99999999998, 1.1, 0.29, 1e-12, -1e-12, 5e-10, 123456.00000001]


def round_ok(i: int, p: int, m: int) -> bool:
    """
    pre: 0 <= i < len(ROUND_VALS) and 0 <= p <= 2 and 0 <= m <= 3
    post: _
    """
    v = ROUND_VALS[pick(i, len(ROUND_VALS))]
    pp = pick(p, 3)
    mm = ["common", "ceil", "floor", "bogus"][pick(m, 4)]
    with NoTracing():
        r = call("v|round(p, m)", v=v, p=pp, m=mm)
        if mm == "bogus":
            return r == ("exc", "FilterArgumentError")
        if mm == "common":
            exp = round(v, pp)
        else:
            from fractions import Fraction
            # 'ceil' always rounds up, 'floor' always down: the exact answer for the float's own value, or the one
            # obtained when the float product v * 10**p itself rounds (float noise of the scaling, nothing more)
            exact = float(Fraction(getattr(math, mm)(Fraction(v) * 10 ** pp), 10 ** pp))
            noisy = getattr(math, mm)(v * 10 ** pp) / 10 ** pp
            return r[0] == "ok" and r[1] in (exact, noisy) and (isinstance(r[1], float) or isinstance(v, int))
        return r == ("ok", exp) and (isinstance(r[1], float) or isinstance(v, int))


FMTS = ["%s-%s", "%d|%05d", "%(x)s", "plain", "%s", "%%", "%s %(x)s"]


def format_ok(i: int, shape: int, a: int, b: int) -> bool:
    """
    pre: 0 <= i < 7 and 0 <= shape <= 2 and -2 <= a <= 2 and 0 <= b <= 1
    post: _
    """
    f = FMTS[pick(i, 7)]
    sh = pick(shape, 3)
    aa = pick(a + 2, 5) - 2
    bb = pick(b, 2)
    with NoTracing():
        if sh == 0:
            r = call("f|format(a, b)", f=f, a=aa, b=bb)
            try:
                exp = ("ok", f % (aa, bb))
            except Exception as e:
                exp = ("exc", type(e).__name__)
        elif sh == 1:
            r = call("f|format(x=a)", f=f, a=aa)
            try:
                exp = ("ok", f % {"x": aa})
            except Exception as e:
                exp = ("exc", type(e).__name__)
        else:
            r = call("f|format(a, x=b)", f=f, a=aa, b=bb)
            exp = ("exc", "FilterArgumentError")
        return r == exp


def MAXS():
    return P.get("maxs", 5)


def MAXB():
    return P.get("maxb", 4)


def conditions(tier, seed):
    th = tier == "thorough"
    to = 300 if th else 45
    pa = {"maxs": 7 if th else 5, "maxb": 5 if th else 4}
    out = []
    A = lambda name, fn, wit, bounds, **kw: out.append(Cond(name, fn, mode="A", param=dict(pa, **kw), timeout=to, witnesses=wit, bounds=bounds))
    B = lambda name, fn, wit, bounds, **kw: out.append(Cond(name, fn, mode="B", param=dict(pa, **kw), timeout=to, witnesses=wit, bounds=bounds))
    for asyncm in (False, True):
        sfx = "[async]" if asyncm else ""
        if asyncm and not th:
            A("int(int)" + sfx, "int_of_int_ok", [[5, 0]], "all ints", asyncm=True)
            continue
        A("truncate" + sfx, "truncate_ok", [["foo bar baz", 9, False, 0, 0], ["abcdefghij", 5, True, 2, 1], ["ab", 3, False, 0, 0]],
          f"all strings of length <= {pa['maxs']}, length 0..6, leeway 0..3 (explicit, incl. 0), 3 end markers", asyncm=asyncm)
        A("truncate-default-leeway" + sfx, "truncate_default_leeway_ok", [["abcdefghij", 4], ["abcdefghi", 4]], "all strings <= 12, policy leeway", asyncm=asyncm)
        A("center" + sfx, "center_ok", [["ab", 5], ["abc", 2], ["", 3]], f"all strings <= {pa['maxs']}, width 0..9", asyncm=asyncm)
        A("trim" + sfx, "trim_ok", [[" a ", False], ["xayx", True]], f"all strings <= {pa['maxs']}", asyncm=asyncm)
        A("replace" + sfx, "replace_ok", [["aaa", "a", "b", 2, True], ["aba", "ab", "", 0, False]], "s<=3, old 1..2, new<=1, count 0..2", asyncm=asyncm)
        A("int(int)" + sfx, "int_of_int_ok", [[5, 0], [-10 ** 30, 1]], "all ints", asyncm=asyncm)
        A("float(int)" + sfx, "float_of_int_ok", [[5, 0], [3, 1]], "all ints incl. |v| >= 2**1024 (float() overflow stub)", asyncm=asyncm)
        B("int/float(bool,None,containers)" + sfx, "int_of_bool_none_ok", [[0, 7], [2, 7], [4, -1]], "6 non-numeric kinds, any default", asyncm=asyncm)
        B("filesizeformat-unit" + sfx, "filesize_ok", [[1, -1, False, 0], [1, 0, False, 0], [3, 1, True, 1], [9, 0, False, 0], [10, 1, True, 2]], "v = m * base**k + {-1,0,1}, k 1..10, m in {1,5,999}, both bases; unit selection at every boundary and the printed number against the exact quotient (incl. sizes beyond the largest prefix)", asyncm=asyncm)
        B("filesizeformat-bytes" + sfx, "filesize_small_ok", [[1, True], [512, False]], "v < 1000 exact text", asyncm=asyncm)
        for strw in (False, True):
            B(f"indent[strwidth={strw}]" + sfx, "indent_ok", [[[0, 2, 0], 2, False, False, False], [[0, 2, 2], 1, True, True, True]], f"strings <= {pa['maxb']-1} over {A_INDENT!r}, width 0..2 / string width", asyncm=asyncm, strw=strw, maxb=pa["maxb"] - 1)
        for wi, wn in enumerate(["wordcount", "upper", "lower", "capitalize", "title", "trim"]):
            B(wn + sfx, "words_ok", [[[0, 1, 2, 0], 0], [[5, 3, 0], 0], [[0, 2, 1], 0]], f"strings <= {pa['maxb']} over {A_WORDS!r}", asyncm=asyncm, which=wi)
        for br in (False, True):
            B(f"wordwrap[break_long_words={br}]" + sfx, "wordwrap_ok", [[[4, 2, 0], 2, True], [[0, 3, 1], 3, False]], f"<= {pa['maxb']-1} pieces from {A_WRAP!r}, width 1..4", asyncm=asyncm, br=br, maxb=pa["maxb"] - 1)
        B("striptags" + sfx, "striptags_ok", [[[0, 2, 1]], [[4, 2]]], f"<= {pa['maxb']-1} pieces from {A_HTML!r}", asyncm=asyncm, maxb=pa["maxb"] - 1)
        for sh, shn in enumerate(["str", "dict", "pairs"]):
            B(f"urlencode[{shn}]" + sfx, "urlencode_ok", [[[0, 1], [2], 0], [[1, 0], [5], 0], [[6, 3], [], 0]], f"<=2 / <=1 pieces from {A_URL!r}", asyncm=asyncm, shape=sh)
        B("int/float(table)" + sfx, "conv_table_ok", [[0, 0, 0], [9, 0, 1], [len(NUMS), 0, 1], [len(NUMS) + 5, 1, -1]], f"{len(NUMS)} numeric spellings + {len(SPECIALS)} special values (inf, nan, 10**400, containers...)", asyncm=asyncm)
        B("int(base)" + sfx, "int_base_ok", [[5, 3], [0, 2]], "numeric spellings x bases 2/8/10/16", asyncm=asyncm)
        B("round" + sfx, "round_ok", [[0, 1, 2], [1, 0, 0]], f"{len(ROUND_VALS)} values (incl. values 1e-11 away from a step) x precision 0..2 x 4 methods", asyncm=asyncm)
        B("format" + sfx, "format_ok", [[0, 0, 1, 1], [2, 1, 0, 0], [0, 2, 0, 0]], "7 format strings x 3 call shapes", asyncm=asyncm)
    return out
