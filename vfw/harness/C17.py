"""C17 — a sandboxed template cannot obtain private or internal attributes.

Part (a), mode A: ``SandboxedEnvironment.is_safe_attribute`` and
``ImmutableSandboxedEnvironment.is_safe_attribute`` (with ``is_internal_attribute``) are run on a
*symbolic* attribute-name string for a table of object kinds: a name that starts with ``_`` or that
the sandbox classifies internal is never declared safe.

Part (b), mode B: a finite grammar of sandboxed templates.  A template is ``prefix + FORM + suffix``
where FORM is one of ~55 *reach forms* (dot, subscript, ``attr`` filter, attribute arguments of
map/sort/groupby/sum/unique/min/max/selectattr/rejectattr/join, ``str.format`` / ``format_map`` /
``Markup.format`` field lookups, stored bound format methods, aliases, loops, macro arguments, the
Python-level ``getattr``/``getitem`` API) applied to one of ~55 *objects* (probe objects whose private
attributes hold tracer values — plain, slotted, ``__getattr__`` proxy, list/dict/set/deque subclasses,
function, bound method, class, module — builtin instances, generators/coroutines/code/frames/
tracebacks, and objects that exist inside every template: literals, ``self``, ``loop``, macros,
``caller``, ``namespace``, ``cycler``, ``lipsum`` ...) and one *unsafe name* of that object.  Selectors
are decoded by explicit forks; the template is compiled and rendered natively in a
``SandboxedEnvironment`` / ``ImmutableSandboxedEnvironment``, sync and driven-async.

Oracle (the property text): the access yields an undefined value or raises ``SecurityError``; no
tracer value is ever operated on, printed, or handed to the recording callable ``rec``.
"""
import atexit
import collections
import sys
import types
import warnings
from typing import List

from jinja2 import DictLoader, Environment
from jinja2.exceptions import SecurityError, TemplateSyntaxError, UndefinedError
from jinja2.runtime import Undefined
from jinja2.sandbox import ImmutableSandboxedEnvironment, SandboxedEnvironment, is_internal_attribute
from markupsafe import Markup
from vfw.core import Cond, pick, pickb
from vfw.support import NoTracing, drive

FUNCTIONS = [
    "jinja2.sandbox.SandboxedEnvironment.is_safe_attribute / ImmutableSandboxedEnvironment.is_safe_attribute / is_internal_attribute",
    "jinja2.sandbox.SandboxedEnvironment.getattr / getitem / unsafe_undefined / wrap_str_format",
    "jinja2.sandbox.SandboxedFormatter.get_field / SandboxedEscapeFormatter",
    "jinja2.filters.make_attrgetter / make_multi_attrgetter / do_attr / do_map / do_sort / do_groupby / do_sum / do_unique / do_min / do_max / select_or_reject / do_join (sync and async variants)",
    "jinja2.compiler.CodeGenerator.visit_Getattr / visit_Getitem / visit_Filter / visit_Call (generated code), jinja2.nodes.Getattr/Getitem.as_const (constant folding)",
]
OUTSIDE = [
    "attribute names longer than the stated length (mode A) / outside the per-object name tables (mode B)",
    "templates outside the reach-form grammar; environments with overridden is_safe_attribute or a custom Undefined type",
    "values reachable as *items* (obj['_x'] for mappings) — the property is about attributes",
    "format-method references handed in by the application (only references the template takes itself)",
]
ASSUMPTIONS = [
    "mode B: templates are compiled and rendered natively per decoded path; the solver certifies that the selector space is exhausted",
    "tracer objects log every operation performed on them (str/repr/format/html/compare/hash/bool/arith/iter/call)",
    "internal-name table for generators/coroutines/async generators/classes/code/frame/traceback transcribed from sandbox.py at the pinned commit",
]

MARK = "TRACER-LEAK"


class StrProxy:
    """A lazy-string style proxy: not a str, forwards attribute access to the wrapped string."""

    def __init__(self, s):
        self._s = s

    def __getattr__(self, name):
        if name.startswith("_"):
            raise AttributeError(name)
        return getattr(self._s, name)

    def __getitem__(self, k):
        raise KeyError(k)

    def __str__(self):
        return self._s


class FmtHolder:
    """Data object that stores bound format methods (taken outside the sandbox, by the application)."""

    def __init__(self, f, fx):
        self.fmt = f.format
        self.mfmt = Markup(f).format
        self.fmtx = fx.format_map

    def __getitem__(self, k):
        if k in ("fmt", "mfmt", "fmtx"):
            return getattr(self, k)
        raise KeyError(k)
TOUCHED: list = []


class Tracer:
    """Stands for a secret held in a private attribute; logs everything done with it."""

    def __init__(self, tag):
        self.tag = tag

    def _t(self, op):
        TOUCHED.append((self.tag, op))

    def __str__(self):
        self._t("str")
        return MARK

    def __repr__(self):
        self._t("repr")
        return MARK

    def __html__(self):
        self._t("html")
        return MARK

    def __format__(self, spec):
        self._t("format")
        return MARK

    def __bool__(self):
        self._t("bool")
        return True

    def __lt__(self, o):
        self._t("lt")
        return False

    __gt__ = __le__ = __ge__ = __lt__

    def __eq__(self, o):
        self._t("eq")
        return self is o

    def __ne__(self, o):
        self._t("ne")
        return self is not o

    def __hash__(self):
        self._t("hash")
        return 7

    def __add__(self, o):
        self._t("add")
        return self

    __radd__ = __add__

    def __iter__(self):
        self._t("iter")
        return iter(())

    def __len__(self):
        self._t("len")
        return 0

    def __call__(self, *a, **k):
        self._t("call")
        return self

    def __getitem__(self, k):
        self._t("getitem")
        return self


# ------------------------------------------------------------------------------------ probe objects
class Plain:
    _cls = Tracer("Plain._cls")

    def __init__(self, i, child=True):
        self.pub = i
        self._priv = Tracer("Plain._priv")
        setattr(self, "__dunder__", Tracer("Plain.__dunder__"))
        setattr(self, "_Plain__m", Tracer("Plain.__m"))
        setattr(self, "_", Tracer("Plain._"))
        setattr(self, "__", Tracer("Plain.__"))
        setattr(self, "_Upper", Tracer("Plain._Upper"))
        self.child = Plain(i, False) if child else None

    @property
    def _prop(self):
        return Tracer("Plain._prop")

    def __getattr__(self, name):
        if name in ("_dyn", "__dyn__"):
            return Tracer("Plain." + name)
        raise AttributeError(name)


class Slotted:
    __slots__ = ("_slot", "pub", "child")

    def __init__(self, i, child=True):
        self.pub = i
        self._slot = Tracer("Slotted._slot")
        self.child = Slotted(i, False) if child else None


class Proxy:
    """Serves every underscore name only through __getattr__."""

    def __init__(self, i, child=True):
        self.pub = i
        self.child = Proxy(i, False) if child else None

    def __getattr__(self, name):
        if name.startswith("_"):
            return Tracer("Proxy." + name)
        raise AttributeError(name)


def _sub(base, label):
    def __init__(self, i, child=True):
        if base is dict:
            base.__init__(self, {"k": i})
        else:
            base.__init__(self, [i])
        self.pub = i
        self._priv = Tracer(label + "._priv")
        setattr(self, "__dunder__", Tracer(label + ".__dunder__"))
        self.child = type(self)(i, False) if child else None

    def __getattr__(self, name):
        if name in ("_dyn", "__dyn__"):
            return Tracer(label + "." + name)
        raise AttributeError(name)

    ns = {"__init__": __init__, "__getattr__": __getattr__, "_cls": Tracer(label + "._cls")}
    if base is not dict and base is not set:
        ns["__hash__"] = lambda self: 1
    return type(label, (base,), ns)


ListSub = _sub(list, "ListSub")
DictSub = _sub(dict, "DictSub")
SetSub = _sub(set, "SetSub")
DequeSub = _sub(collections.deque, "DequeSub")


def _mk_fn(i, child=True):
    def fn():
        return i

    fn.pub = i
    fn._priv = Tracer("fn._priv")
    setattr(fn, "__dunder__", Tracer("fn.__dunder__"))
    fn.child = _mk_fn(i, False) if child else None
    return fn


class Holder:
    def __init__(self, i):
        self.i = i

    def meth(self):
        return self.i

    meth.pub = 0
    meth._priv = Tracer("meth._priv")
    setattr(meth, "__dunder__", Tracer("meth.__dunder__"))
    meth.child = None


def _mk_meth(i):
    return Holder(i).meth


def _mk_cls(i, child=True):
    return type("Cls", (), {"pub": i, "_cls": Tracer("Cls._cls"), "__dunder__": Tracer("Cls.__dunder__"),
                            "child": _mk_cls(i, False) if child else None})


def _mk_mod(i, child=True):
    m = types.ModuleType("vfmod")
    m.pub = i
    m._priv = Tracer("mod._priv")
    m.__builtins__ = Tracer("mod.__builtins__")
    m.child = _mk_mod(i, False) if child else None
    return m


def _gen():
    yield 1


async def _coro():
    return 1


async def _agen():
    yield 1


def _mk_tb(i):
    try:
        raise ValueError(i)
    except ValueError as e:
        return e.__traceback__


def _mk_exc(i):
    try:
        raise ValueError(i)
    except ValueError as e:
        return e


# names the sandbox classifies internal although they do not start with an underscore
# (transcribed from sandbox.py: UNSAFE_*_ATTRIBUTES, "mro" on classes, everything on code/frame/traceback)
INTERNAL = {
    "gen": ["gi_frame", "gi_code"],
    "coro": ["cr_frame", "cr_code"],
    "agen": ["ag_frame", "ag_code"],
    "cls": ["mro"],
    "code": ["co_code", "co_consts", "co_names", "co_filename", "co_varnames", "replace"],
    "frame": ["f_globals", "f_locals", "f_back", "f_builtins", "f_code", "f_lineno"],
    "tb": ["tb_frame", "tb_next", "tb_lineno", "tb_lasti"],
}

CURATED = ["__class__", "__init__", "__dict__", "__globals__", "__dunder__", "__dyn__", "__code__", "__func__", "__self__",
           "__subclasses__", "__mro__", "__bases__", "__base__", "__builtins__", "__traceback__", "__call__",
           "__getattribute__", "__reduce_ex__", "__closure__", "__wrapped__", "__doc__", "__module__", "__slots__",
           "__html__", "__hash__", "__len__", "__context__", "__loader__", "__name__", "__self_class__"]
QUICK_DUNDERS = 5
QUICK_PRIVATES = 5

# context-provided objects: key, factory(i) -> fresh object, tracer-capable?, internal-table kind, extra names
CTX_OBJS = [
    ("plain", Plain, True, None, ["_dyn", "__dyn__"]),
    ("slotted", Slotted, True, None, []),
    ("proxy", Proxy, True, None, ["_x", "__x__", "_Proxy__m", "__html__", "__globals__", "__call__", "__getitem__"]),
    ("listsub", ListSub, True, None, ["_dyn", "__dyn__"]),
    ("dictsub", DictSub, True, None, ["_dyn", "__dyn__"]),
    ("setsub", SetSub, True, None, ["_dyn", "__dyn__"]),
    ("dequesub", DequeSub, True, None, ["_dyn", "__dyn__"]),
    ("function", _mk_fn, True, None, []),
    ("method", _mk_meth, True, None, []),
    ("class", _mk_cls, True, "cls", []),
    ("module", _mk_mod, True, None, []),
    ("list", lambda i: [i], False, None, []),
    ("dict", lambda i: {"k": i}, False, None, []),
    ("set", lambda i: {i}, False, None, []),
    ("deque", lambda i: collections.deque([i]), False, None, []),
    ("tuple", lambda i: (i,), False, None, []),
    ("str", lambda i: "s%d" % i, False, None, []),
    ("markup", lambda i: Markup("m%d" % i), False, None, []),
    ("int", lambda i: 7 + i, False, None, []),
    ("none", lambda i: None, False, None, []),
    ("undefined", lambda i: Undefined(name="u%d" % i), False, None, []),
    ("generator", lambda i: _gen(), False, "gen", []),
    ("coroutine", lambda i: _coro(), False, "coro", []),
    ("asyncgen", lambda i: _agen(), False, "agen", []),
    ("code", lambda i: _gen.__code__, False, "code", []),
    ("frame", lambda i: sys._getframe(), False, "frame", []),
    ("traceback", _mk_tb, False, "tb", []),
    ("exception", _mk_exc, False, None, []),
    ("builtin_fn", lambda i: len, False, None, []),
]

# objects every template can name without any help from the application: (key, prefix, expr, suffix, internal kind)
TPL_OBJS = [
    ("lit_str", "", "''", "", None),
    ("lit_list", "", "[]", "", None),
    ("lit_dict", "", "{}", "", None),
    ("lit_tuple", "", "()", "", None),
    ("lit_int", "", "(1)", "", None),
    ("lit_none", "", "none", "", None),
    ("lit_true", "", "true", "", None),
    ("undefined_name", "", "nope", "", None),
    ("g_lipsum", "", "lipsum", "", None),
    ("g_range", "", "range", "", None),
    ("g_range1", "", "range(1)", "", None),
    ("g_dict", "", "dict", "", "cls"),
    ("g_cycler", "", "cycler", "", "cls"),
    ("g_joiner", "", "joiner", "", "cls"),
    ("g_namespace", "", "namespace", "", "cls"),
    ("namespace()", "{% set nsx = namespace(a=1) %}", "nsx", "", None),
    ("cycler()", "{% set cyx = cycler(1, 2) %}", "cyx", "", None),
    ("joiner()", "{% set jox = joiner() %}", "jox", "", None),
    ("self", "", "self", "", None),
    ("loop", "{% for it0 in [1] %}", "loop", "{% endfor %}", None),
    ("macro", "{% macro mx(a) %}{% endmacro %}", "mx", "", None),
    ("caller", "{% macro cm() %}", "caller", "{% endmacro %}{% call cm() %}{% endcall %}", None),
    ("varargs", "{% macro vm() %}{% set va = varargs %}{% set kw = kwargs %}", "kw", "{% endmacro %}{{ vm(1, k=2) }}", None),
    ("import_module", "{% import 'mod' as imx %}", "imx", "", None),
    ("str_method", "", "''.join", "", None),
    ("dict_items", "", "{}.items()", "", None),
]

# ------------------------------------------------------------------------------------ reach forms
# @O object expression, @X a two-element list of such objects, @N the name, @A/@B the name split in two
# kind: value -> every value handed to rec must be undefined
#       print -> the output must be empty
#       fmt   -> rec must receive exactly `expect`
#       agg   -> SecurityError, or completion without any tracer in rec / output
#       api   -> python-level environment.getattr / getitem
V = "value"
FORMS = [
    ("dot", V, "{{ rec(@O.@N) }}"),
    ("dot_print", "print", "{{ @O.@N }}"),
    ("sub", V, "{{ rec(@O['@N']) }}"),
    ("sub_print", "print", "{{ @O['@N'] }}"),
    ("sub_dyn", V, "{{ rec(@O[n]) }}"),
    ("sub_concat", V, "{{ rec(@O['@A' ~ '@B']) }}"),
    ("sub_markup", V, "{{ rec(@O['@N'|safe]) }}"),
    ("sub_markup_dyn", V, "{{ rec(@O[mn]) }}"),
    ("attr", V, "{{ rec(@O|attr('@N')) }}"),
    ("attr_dyn", V, "{{ rec(@O|attr(n)) }}"),
    ("attr_markup", V, "{{ rec(@O|attr(mn)) }}"),
    ("attr_print", "print", "{{ @O|attr('@N') }}"),
    ("map_attr", V, "{{ rec(@X|map(attribute='@N')|list) }}"),
    ("map_attr_dyn", V, "{{ rec(@X|map(attribute=n)|list) }}"),
    ("map_attrfilter", V, "{{ rec(@X|map('attr', '@N')|list) }}"),
    ("map_path_int", V, "{{ rec([@X]|map(attribute='0.@N')|list) }}"),
    ("map_path_item", V, "{{ rec([{'q': @O}]|map(attribute='q.@N')|list) }}"),
    ("set_alias", V, "{% set v0 = @O.@N %}{{ rec(v0) }}"),
    ("with_alias", V, "{% with v0 = @O['@N'] %}{{ rec(v0) }}{% endwith %}"),
    ("loop_container", V, "{% for v0 in [@O.@N, @O['@N']] %}{{ rec(v0) }}{% endfor %}"),
    ("macro_arg", V, "{% macro mm(v0) %}{{ rec(v0) }}{% endmacro %}{{ mm(@O.@N) }}"),
    ("condexpr", V, "{{ rec(@O.@N if one else 0) }}"),
    ("set_block_dot", "print", "{% set v0 %}{{ @O.@N }}{% endset %}{{ v0 }}"),
    ("api_getattr", "api", "getattr"),
    ("api_getitem", "api", "getitem"),
    # ---- format-string field lookups
    ("fmt_pos", "fmt", "{{ rec('[{0.@N}]'.format(@O)) }}", "[]"),
    ("fmt_kw", "fmt", "{{ rec('[{x.@N}]'.format(x=@O)) }}", "[]"),
    ("fmt_item", "fmt", "{{ rec('[{0[@N]}]'.format(@O)) }}", "[]"),
    ("fmt_auto", "fmt", "{{ rec('[{.@N}]'.format(@O)) }}", "[]"),
    ("fmt_conv", "fmt", "{{ rec('[{0.@N!s}]'.format(@O)) }}", "[]"),
    ("fmt_nested_spec", "fmt", "{{ rec('[{0:{1.@N}}]'.format(1, @O)) }}", "[1]"),
    ("fmt_child", "fmt", "{{ rec('[{0[0].@N}]'.format([@O])) }}", "[]"),
    ("fmt_map", "fmt", "{{ rec('[{x.@N}]'.format_map({'x': @O})) }}", "[]"),
    ("fmt_markup", "fmt", "{{ rec(('[{0.@N}]'|safe).format(@O)) }}", "[]"),
    ("fmt_markup_map", "fmt", "{{ rec(('[{x.@N}]'|safe).format_map({'x': @O})) }}", "[]"),
    ("fmt_stored", "fmt", "{% set f0 = '[{0.@N}]'.format %}{{ rec(f0(@O)) }}", "[]"),
    ("fmt_stored_map", "fmt", "{% set f0 = '[{x.@N}]'.format_map %}{{ rec(f0({'x': @O})) }}", "[]"),
    ("fmt_stored_markup", "fmt", "{% set f0 = ('[{0.@N}]'|safe).format %}{{ rec(f0(@O)) }}", "[]"),
    ("fmt_stored_item", "fmt", "{% set f0 = '[{0.@N}]'['format'] %}{{ rec(f0(@O)) }}", "[]"),
    ("fmt_stored_attr", "fmt", "{% set f0 = '[{0.@N}]'|attr('format') %}{{ rec(f0(@O)) }}", "[]"),
    ("fmt_stored_map_attr", "fmt", "{% set f0 = ['[{0.@N}]']|map(attribute='format')|first %}{{ rec(f0(@O)) }}", "[]"),
    ("fmt_stored_list", "fmt", "{% set fs = ['[{0.@N}]'.format] %}{% for f0 in fs %}{{ rec(f0(@O)) }}{% endfor %}", "[]"),
    ("fmt_ctx", "fmt", "{{ rec(fmt.format(@O)) }}", "[]"),
    ("fmt_ctx_markup", "fmt", "{{ rec(mfmt.format(@O)) }}", "[]"),
    ("fmt_ctx_map", "fmt", "{{ rec(fmtx.format_map({'x': @O})) }}", "[]"),
    ("fmt_ctx_stored", "fmt", "{% set f0 = mfmt.format %}{{ rec(f0(@O)) }}", "[]"),
    # the format method reached through objects that are not str instances (a lazy-string proxy, a stored bound method)
    ("fmt_proxy", "fmt", "{{ rec(pfmt.format(@O)) }}", "[]"),
    ("fmt_proxy_item", "fmt", "{{ rec(pfmt['format'](@O)) }}", "[]"),
    ("fmt_proxy_attr", "fmt", "{{ rec((pfmt|attr('format'))(@O)) }}", "[]"),
    ("fmt_proxy_map", "fmt", "{{ rec(pfmtx.format_map({'x': @O})) }}", "[]"),
    ("fmt_holder", "fmt", "{{ rec(hold.fmt(@O)) }}", "[]"),
    ("fmt_holder_markup", "fmt", "{{ rec(hold.mfmt(@O)) }}", "[]"),
    ("fmt_holder_map", "fmt", "{{ rec(hold.fmtx({'x': @O})) }}", "[]"),
    ("fmt_print", "fmtprint", "{{ '[{0.@N}]'.format(@O) }}", "[]"),
    # ---- attribute arguments of aggregating filters (tracer-capable objects only)
    ("sort", "agg", "{{ rec(@X|sort(attribute='@N')) }}"),
    ("sort_multi", "agg", "{{ rec(@X|sort(attribute='pub,@N')) }}"),
    ("sort_path", "agg", "{{ rec(@X|sort(attribute='child.@N')) }}"),
    ("groupby", "agg", "{{ rec(@X|groupby('@N')|list) }}"),
    ("groupby_grouper", "agg", "{{ rec(@X|groupby(attribute='@N')|map(attribute='grouper')|list) }}"),
    ("groupby_default", "agg", "{{ rec(@X|groupby('@N', default=7)|list) }}"),
    ("sum", "agg", "{{ rec(@X|sum(attribute='@N')) }}"),
    ("unique", "agg", "{{ rec(@X|unique(attribute='@N')|list) }}"),
    ("min", "agg", "{{ rec(@X|min(attribute='@N')) }}"),
    ("max", "agg", "{{ rec(@X|max(attribute='@N')) }}"),
    ("selectattr", "agg", "{{ rec(@X|selectattr('@N')|list) }}"),
    ("rejectattr", "agg", "{{ rec(@X|rejectattr('@N')|list) }}"),
    ("selectattr_test", "agg", "{{ rec(@X|selectattr('@N', 'eq', 1)|list) }}"),
    ("join_attr", "agg", "{{ rec(@X|join('-', attribute='@N')) }}"),
    ("join_attr_print", "agg", "{{ @X|join('-', attribute='@N') }}"),
    ("map_default", "agg", "{{ rec(@X|map(attribute='@N', default='D')|list) }}"),
    ("map_print", "agg", "{{ @X|map(attribute='@N')|join('-') }}"),
    ("one_sort", "agg", "{{ rec([@O]|sort(attribute='@N')) }}"),
    ("one_min", "agg", "{{ rec([@O]|min(attribute='@N')) }}"),
    ("one_groupby", "agg", "{{ rec([@O]|groupby('@N')|map(attribute='grouper')|list) }}"),
    ("one_unique", "agg", "{{ rec([@O]|unique(attribute='@N')|list) }}"),
]
FORM_BY_NAME = {f[0]: f for f in FORMS}
VALUE_FORMS = [f[0] for f in FORMS if f[1] in (V, "print", "api")]
FMT_FORMS = [f[0] for f in FORMS if f[1] in ("fmt", "fmtprint")]
AGG_FORMS = [f[0] for f in FORMS if f[1] == "agg"]
# thin slice used for the second environment class in the quick tier
SLICE_FORMS = ["dot", "sub_dyn", "attr", "map_attr", "fmt_pos", "fmt_stored_markup", "sort", "sum", "api_getitem"]

LOADER = DictLoader({"mod": "{% macro pm() %}{% endmacro %}{% set pubv = 1 %}"})
ENVS = {}
PLAIN_ENV = Environment(loader=LOADER)


def _envs():
    if not ENVS:
        for cls_name, cls in (("sandboxed", SandboxedEnvironment), ("immutable", ImmutableSandboxedEnvironment)):
            for asyncm in (False, True):
                ENVS[(cls_name, asyncm)] = cls(loader=LOADER, enable_async=asyncm)
    return ENVS


# ------------------------------------------------------------------------------------ name tables
def _is_dunder(n):
    return n.startswith("__") and n.endswith("__") and len(n) > 4


def _names_for(obj, ikind, extra, thorough, seed):
    """Unsafe names to try on obj: privates, dunders (curated in quick), internal-table names, extras."""
    have = [n for n in dir(obj) if n.startswith("_")]
    priv = sorted(n for n in have if not _is_dunder(n))
    dund = [n for n in CURATED if n in have] + sorted(n for n in have if _is_dunder(n) and n not in CURATED)
    if not thorough:
        if len(priv) > QUICK_PRIVATES:
            r = seed % len(priv)
            priv = (priv[r:] + priv[:r])[:QUICK_PRIVATES]
        dund = dund[:QUICK_DUNDERS]
    out = list(extra) + priv + dund + list(INTERNAL.get(ikind, []))
    seen = []
    for n in out:
        if n not in seen and n.isidentifier() and not _is_item(obj, n):
            seen.append(n)
    return seen


def _is_item(obj, n):
    """obj[n] is an *item* (e.g. dict['__class__'] is the generic alias dict.__class_getitem__('__class__')): the
    subscript forms legitimately return it, the property is about attributes only (see OUTSIDE)."""
    if isinstance(obj, Undefined):
        return False
    try:
        obj[n]
    except Exception:
        return False
    return True


_GRABBED = {}


def _grab(key):
    """The live object behind a template-native expression (rendered once in a plain environment)."""
    if key not in _GRABBED:
        _k, pre, expr, suf, _ik = next(o for o in TPL_OBJS if o[0] == key)
        box = []
        PLAIN_ENV.from_string(pre + "{{ grab(" + expr + ") }}" + suf).render(grab=lambda v: box.append(v) or "")
        _GRABBED[key] = box[0]
    return _GRABBED[key]


def build_pairs(cat, thorough, seed):
    """[(object key, name)] for an object category: T tracer-capable ctx, B builtin ctx, N template-native."""
    out = []
    with warnings.catch_warnings():
        warnings.simplefilter("ignore")
        if cat in ("T", "B"):
            for key, make, tr, ikind, extra in CTX_OBJS:
                if tr != (cat == "T"):
                    continue
                obj = make(0)
                for n in _names_for(obj, ikind, extra, thorough, seed):
                    out.append((key, n))
                if isinstance(obj, (types.CoroutineType, types.GeneratorType)):
                    obj.close()
        else:
            for key, _pre, _expr, _suf, ikind in TPL_OBJS:
                for n in _names_for(_grab(key), ikind, [], thorough, seed):
                    out.append((key, n))
    return out


# ------------------------------------------------------------------------------------ running one case
P: dict = {}
PAIRS: list = []
FORMSEL: list = []
_TCACHE: dict = {}
CTX_BY_KEY = {o[0]: o for o in CTX_OBJS}
TPL_BY_KEY = {o[0]: o for o in TPL_OBJS}


def setup(param):
    global P, PAIRS, FORMSEL
    P = dict(param or {})
    del TOUCHED[:]
    _TCACHE.clear()
    _envs()
    _a_setup()
    PAIRS = []
    FORMSEL = []
    if "cat" in P:
        allp = build_pairs(P["cat"], P.get("thorough", False), P.get("seed", 0))
        PAIRS = allp[P.get("lo", 0): P.get("hi", len(allp))]
        FORMSEL = list(P["forms"])


def NPAIRS():
    return len(PAIRS)


def NFORMS():
    return len(FORMSEL)


def _source(form, okey, name):
    f = FORM_BY_NAME[form]
    if okey in CTX_BY_KEY:
        pre, o, x, suf = "", "o", "xs", ""
    else:
        _k, pre, o, suf, _ik = TPL_BY_KEY[okey]
        x = "[%s, %s]" % (o, o)
    h = max(1, len(name) // 2)
    body = f[2].replace("@O", o).replace("@X", x).replace("@N", name).replace("@A", name[:h]).replace("@B", name[h:])
    return pre + body + suf


def _template(envkey, form, okey, name):
    k = (envkey, form, okey if okey in TPL_BY_KEY else None, name)
    t = _TCACHE.get(k)
    if t is None:
        try:
            t = ENVS[envkey].from_string(_source(form, okey, name))
        except TemplateSyntaxError as e:
            t = e
        _TCACHE[k] = t
    return t


def _leaks(v, depth=0):
    """Does a value handed to the template side contain a tracer?"""
    if isinstance(v, Tracer):
        return True
    if depth > 4:
        return False
    if isinstance(v, dict):
        return any(_leaks(a, depth + 1) or _leaks(b, depth + 1) for a, b in list(v.items()))
    if isinstance(v, (list, tuple, set, frozenset, collections.deque)):
        return any(_leaks(a, depth + 1) for a in list(v))
    return False


def _all_undefined(v):
    if isinstance(v, Undefined):
        return True
    if type(v) is list:
        return all(_all_undefined(a) for a in v)
    return False


def run_case(envcls, asyncm, okey, name, form):
    """True iff the property holds for this (environment, object, unsafe name, reach form)."""
    envkey = (envcls, asyncm)
    env = _envs()[envkey]
    f = FORM_BY_NAME[form]
    kind = f[1]
    made = []
    if okey in CTX_BY_KEY:
        make = CTX_BY_KEY[okey][1]
        made = [make(1), make(2)]
    del TOUCHED[:]
    recd = []

    def rec(*a):
        recd.extend(a)
        return ""

    out = ""
    exc = None
    with warnings.catch_warnings():
        warnings.simplefilter("ignore")
        try:
            if kind == "api":
                obj = made[0] if made else _grab(okey)
                recd.append(getattr(env, f[2])(obj, name))
            else:
                t = _template(envkey, form, okey, name)
                if isinstance(t, Exception):
                    raise t
                ctx = dict(rec=rec, n=name, mn=Markup(name), one=1, fmt="[{0.%s}]" % name, mfmt=Markup("[{0.%s}]" % name),
                           fmtx="[{x.%s}]" % name, pfmt=StrProxy("[{0.%s}]" % name), pfmtx=StrProxy("[{x.%s}]" % name),
                           hold=FmtHolder("[{0.%s}]" % name, "[{x.%s}]" % name))
                if made:
                    ctx["o"] = made[0]
                    ctx["xs"] = [made[0], made[1]]
                if asyncm:
                    out = drive(t.render_async(**ctx))
                else:
                    out = t.render(**ctx)
        except Exception as e:
            exc = e
        finally:
            for m in made:
                if isinstance(m, (types.CoroutineType, types.GeneratorType)):
                    m.close()
    touched = list(TOUCHED)
    del TOUCHED[:]
    if touched:
        return False
    if exc is not None:
        # the property allows SecurityError; refusing to compile the access at all is also no access
        if isinstance(exc, (SecurityError, TemplateSyntaxError)):
            return True
        # subscripting / formatting an *undefined* object fails before any attribute is looked up
        if isinstance(exc, UndefinedError) and okey in ("undefined", "undefined_name"):
            return True
        # string.Formatter of this Python has no auto-numbering for '{.name}': KeyError('') before any lookup
        # (the form is kept: it does reach get_field on interpreters that support it)
        if form == "fmt_auto" and isinstance(exc, KeyError) and exc.args == ("",):
            return True
        return False
    if MARK in out:
        return False
    for v in recd:
        if _leaks(v):
            return False
    if kind in (V, "api"):
        return len(recd) >= 1 and all(_all_undefined(v) for v in recd)
    if kind == "print":
        return out == ""
    if kind == "fmt":
        return len(recd) >= 1 and all(isinstance(v, str) and v == f[3] for v in recd)
    if kind == "fmtprint":
        return out == f[3]
    return True


def reach_ok(pair: int, form: int, asyncm: bool) -> bool:
    """
    pre: 0 <= pair < NPAIRS() and 0 <= form < NFORMS()
    post: _
    """
    okey, name = PAIRS[pick(pair, len(PAIRS))]
    fname = FORMSEL[pick(form, len(FORMSEL))]
    am = pickb(asyncm)
    with NoTracing():
        return run_case(P.get("env", "sandboxed"), am, okey, name, fname)


# ------------------------------------------------------------------------------------ mode A: is_safe_attribute
A_ENVS = {}
A_OBJS = []
VALUE = object()


def _a_setup():
    if A_OBJS:
        return
    A_ENVS["sandboxed"] = SandboxedEnvironment()
    A_ENVS["immutable"] = ImmutableSandboxedEnvironment()
    with warnings.catch_warnings():
        warnings.simplefilter("ignore")
        co = _coro()
        atexit.register(co.close)
    A_OBJS.extend([
        ("plain", Plain(0), None), ("function", _mk_fn(0), None), ("method", _mk_meth(0), None), ("class", Plain, "cls"),
        ("generator", _gen(), "gen"), ("coroutine", co, "coro"), ("asyncgen", _agen(), "agen"),
        ("list", [1], None), ("dict", {"k": 1}, None), ("set", {1}, None), ("deque", collections.deque([1]), None),
        ("code", _gen.__code__, "code"), ("frame", sys._getframe(), "frame"), ("traceback", _mk_tb(0), "tb"),
        ("str", "s", None), ("module", types, None),
    ])


def NKINDS():
    _a_setup()
    return len(A_OBJS)


def MAXNAME():
    return P.get("maxname", 8)


def underscore_unsafe_ok(name: str, kind: int) -> bool:
    """
    pre: len(name) <= MAXNAME() and name.startswith("_") and 0 <= kind < NKINDS()
    post: _
    """
    obj = A_OBJS[pick(kind, len(A_OBJS))][1]
    return A_ENVS[P.get("env", "sandboxed")].is_safe_attribute(obj, name, VALUE) is False


def _ci_kinds():
    # ImmutableSandboxedEnvironment looks non-underscore names of list/dict/set/deque up in a frozenset (hashing
    # realises the symbolic name: not exhaustible).  Those kinds have no internal-table names, so for them
    # "classified internal" implies "starts with an underscore", which underscore_unsafe_ok covers for all kinds.
    _a_setup()
    if P.get("env") == "immutable":
        return [o for o in A_OBJS if o[0] not in ("list", "dict", "set", "deque")]
    return A_OBJS


def NCIKINDS():
    return len(_ci_kinds())


def classified_internal_unsafe_ok(name: str, kind: int) -> bool:
    """
    pre: len(name) <= MAXNAME() and 0 <= kind < NCIKINDS()
    post: _
    """
    sel = _ci_kinds()
    obj = sel[pick(kind, len(sel))][1]
    safe = A_ENVS[P.get("env", "sandboxed")].is_safe_attribute(obj, name, VALUE)
    if safe is not True:
        return safe is False
    # declared safe: then it neither starts with an underscore nor is it classified internal
    if name.startswith("_"):
        return False
    return not is_internal_attribute(obj, name)


def everything_internal_ok(name: str, kind: int) -> bool:
    """
    pre: len(name) <= MAXNAME() and 0 <= kind < 3
    post: _
    """
    # code, frame and traceback objects: every attribute is internal
    k = pick(kind, 3)
    obj = [o for o in A_OBJS if o[2] in ("code", "frame", "tb")][k][1]
    return A_ENVS[P.get("env", "sandboxed")].is_safe_attribute(obj, name, VALUE) is False


def _itable():
    _a_setup()
    out = []
    for key, obj, ik in A_OBJS:
        for n in INTERNAL.get(ik, []):
            out.append((obj, n))
    return out


def NITABLE():
    return len(_itable())


def internal_table_ok(idx: int, imm: bool) -> bool:
    """
    pre: 0 <= idx < NITABLE()
    post: _
    """
    obj, n = _itable()[pick(idx, NITABLE())]
    env = A_ENVS["immutable" if pickb(imm) else "sandboxed"]
    with NoTracing():
        if env.is_safe_attribute(obj, n, VALUE) is not False:
            return False
        return isinstance(env.getattr(obj, n), Undefined) and isinstance(env.getitem(obj, n), Undefined)


# ------------------------------------------------------------------------------------ conditions
def _chunks(n, size):
    k = max(1, -(-n // size))
    step = -(-n // k)
    return [(lo, min(n, lo + step)) for lo in range(0, n, step)]


# ---------------------------------------------------------------- from-import of private names (compiled to a raw getattr on the module)
FI_NAMES = ["_body_stream", "__class__", "__dict__", "__init__", "__module__", "_priv", "_pv", "__doc__", "_TemplateModule__x"]
FI_FORMS = ["{% from 'fimod' import @N %}{{ rec(@N) }}", "{% from 'fimod' import @N as pub %}{{ rec(pub) }}", "{% from 'fimod' import pubm, @N as pub2 %}{{ rec(pub2) }}",
            "{% from 'fimod' import @N as pub with context %}{{ rec(pub) }}", "{% macro w() %}{% from 'fimod' import @N as q %}{{ rec(q) }}{% endmacro %}{{ w() }}"]


def fromimport_ok(n: int, f: int, asyncm: bool) -> bool:
    """
    pre: 0 <= n < len(FI_NAMES) and 0 <= f < len(FI_FORMS)
    post: _
    """
    from vfw.core import pickb
    from jinja2.sandbox import SandboxedEnvironment, ImmutableSandboxedEnvironment
    name = FI_NAMES[pick(n, len(FI_NAMES))]
    form = FI_FORMS[pick(f, len(FI_FORMS))]
    am = pickb(asyncm)
    with NoTracing():
        for cls in (SandboxedEnvironment, ImmutableSandboxedEnvironment):
            env = cls(loader=DictLoader({"fimod": "{% macro _priv() %}P{% endmacro %}{% macro pubm() %}M{% endmacro %}{% set _pv = 1 %}{% set pubv = 2 %}"}), enable_async=am)
            got = []
            try:
                t = env.from_string(form.replace("@N", name))
            except TemplateSyntaxError:
                continue        # rejected when the template is compiled
            try:
                if am:
                    drive(t.render_async(rec=lambda v: got.append(v) or ""))
                else:
                    t.render(rec=lambda v: got.append(v) or "")
            except (SecurityError, UndefinedError):
                continue
            for v in got:
                if not isinstance(v, Undefined):
                    return False        # a private / internal attribute of the module object reached the template
        return True


def conditions(tier, seed):
    th = tier == "thorough"
    to = 300 if th else 60
    _a_setup()
    out = []
    maxname = 10 if th else 8
    for envc in ("sandboxed", "immutable"):
        p = {"env": envc, "maxname": maxname}
        out.append(Cond(f"is_safe_attribute[{envc}]: underscore names never safe", "underscore_unsafe_ok", mode="A", param=p, timeout=to,
                        witnesses=[["_", 0], ["__class__", 3], ["_x", 9], ["_Ab", 4]],
                        bounds=f"every str name of length <= {maxname} starting with '_' x {len(A_OBJS)} object kinds ({', '.join(o[0] for o in A_OBJS)})"))
        nci = len(A_OBJS) - (4 if envc == "immutable" else 0)
        out.append(Cond(f"is_safe_attribute[{envc}]: safe implies not underscore and not classified internal", "classified_internal_unsafe_ok",
                        mode="A", param=p, timeout=to, witnesses=[["mro", 3], ["gi_frame", 4], ["append", 7], ["x", 0], ["cr_code", 5]],
                        bounds=f"every str name of length <= {maxname} x {nci} object kinds"
                               + (" (list/dict/set/deque: no internal-table names, covered by the underscore condition)" if envc == "immutable" else "")))
        out.append(Cond(f"is_safe_attribute[{envc}]: code/frame/traceback attributes never safe", "everything_internal_ok",
                        mode="A", param=p, timeout=to, witnesses=[["co_code", 0], ["f_back", 1], ["tb_next", 2], ["", 0]],
                        bounds=f"every str name of length <= {maxname} x code, frame, traceback objects"))
    out.append(Cond("internal-name table never safe / never handed out by getattr, getitem", "internal_table_ok", mode="B", param={}, timeout=to,
                    witnesses=[[0, False], [1, True], [6, False]],
                    bounds=f"{NITABLE()} (object kind, internal name) pairs from the transcribed table x both sandbox classes"))

    limit = 1800 if th else 900
    for envc in ("sandboxed", "immutable"):
        for cat, label in (("T", "probe objects with tracer attributes"), ("B", "builtin / interpreter objects"), ("N", "template-native objects")):
            pairs = build_pairs(cat, th, seed)
            groups = [("value", VALUE_FORMS), ("format", FMT_FORMS)] + ([("aggregate", AGG_FORMS)] if cat == "T" else [])
            if envc == "immutable" and not th:
                groups = [("slice", [f for f in SLICE_FORMS if cat == "T" or f not in AGG_FORMS])]
            for gname, forms in groups:
                # split forms so that chunk(pairs) x forms x 2 stays exhaustible
                fchunks = [forms[i:i + 12] for i in range(0, len(forms), 12)]
                for fi, fc in enumerate(fchunks):
                    per = max(1, limit // (2 * len(fc)))
                    for lo, hi in _chunks(len(pairs), per):
                        objs = sorted({k for k, _n in pairs[lo:hi]})
                        w = [[0, 0, False], [(hi - lo) - 1, len(fc) - 1, True], [(hi - lo) // 2, len(fc) // 2, False]]
                        out.append(Cond(
                            f"reach[{envc},{label},{gname}{fi if len(fchunks) > 1 else ''},pairs {lo}..{hi - 1}]", "reach_ok", mode="B",
                            param={"env": envc, "cat": cat, "thorough": th, "seed": seed, "lo": lo, "hi": hi, "forms": fc},
                            timeout=to * (1 if th else 1), witnesses=w,
                            bounds=f"{hi - lo} (object, unsafe name) pairs over objects {objs} x forms {fc} x sync/async; "
                                   f"compiled and rendered natively per path"))
    out.append(Cond("from-import of private / internal names", "fromimport_ok", mode="B", param={}, timeout=60,
                    witnesses=[[0, 1, False], [1, 1, True], [5, 0, False], [3, 3, False], [8, 4, True]],
                    bounds=f"{len(FI_NAMES)} underscore / dunder names of a template module x {len(FI_FORMS)} import forms (plain, aliased, mixed, with context, inside a macro) x sync/async x both sandbox classes: rejected at compile time, SecurityError, or an undefined value"))
    return out
