"""C38 — exceptions from data propagate unchanged and leave the engine usable.

Data objects (attribute / property / item / call / iteration / ``__str__`` / ``__html__`` / ``__len__`` /
``__bool__`` / ``__eq__``, async call / async iteration) report every protocol event to a controller which
raises ONE private exception instance at event index k.

* seq_ok (mode A): symbolic k, symbolic loop data (list of ints) and a symbolic branch flag run through the
  real render / generate / render_async / generate_async of templates with blocks, macros, loops, includes,
  imports and inheritance: the entry point raises that very object (``is``) iff the event happens, and two
  further clean renders (same template, another template sharing the helper templates) give the clean results.
* fault_ok (mode B): the same on a fresh environment per run (so the fault also hits the first creation of
  imported modules: ``{% import %}``, ``{% from .. import %}``, ``{% include .. without context %}``,
  ``Template.module`` / ``make_module``), every event index of the clean run x entry points (incl. sync
  render / generate on an async environment) x private exception classes deriving from Exception, KeyError,
  AttributeError, TypeError, RuntimeError.
* lookup_ok (mode B): the documented lookup rule.  Objects whose item access / attribute (``__getattr__`` or
  property) return, are absent, raise AttributeError / KeyError / IndexError / TypeError, or raise the private
  exception, looked up as ``o.name``, ``o['name']``, ``o[key]``, ``o[0]``, ``o|attr('name')``,
  ``map(attribute=...)``: value, undefined or the private exception object exactly as the rule says.
* stop_ok (mode B): StopIteration from a callable called in a template gives an undefined value.
"""
from typing import List

from jinja2 import DictLoader, Environment
from vfw.core import Cond, pick, pickb
from vfw.support import NoTracing, Rec, drive, drive_agen

try:
    from crosshair import ResumedTracing
    from crosshair.tracers import is_tracing
except ImportError:  # native replay without CrossHair: k is always a plain int
    ResumedTracing = None

    def is_tracing():
        return True


def _install_code_replace_patch():
    """jinja2.debug.fake_traceback builds the location name with an f-string (``f"block {name!r}"``); under CrossHair that string
    is a symbolic-string object although its value is fully determined, and the C method ``code.replace`` rejects it.  Hand the
    plain ``str`` of the same value to the real method (nothing is chosen: the value is a function of concrete inputs)."""
    import types

    try:
        import crosshair.core_and_libs  # noqa: F401  (its import resets the patch table, so it has to come first)
        from crosshair import realize, register_patch
    except ImportError:
        return
    orig = types.CodeType.replace

    def _replace(self, **kw):
        with NoTracing():
            return orig(self, **{k: realize(v) for k, v in kw.items()})

    try:
        register_patch(orig, _replace)
    except Exception:       # already registered in this process
        pass


_install_code_replace_patch()

FUNCTIONS = [
    "jinja2.environment.Template.render/generate/render_async/generate_async/make_module/make_module_async/module",
    "jinja2.environment.Environment.getattr/getitem/handle_exception/call_filter", "jinja2.debug.rewrite_traceback_stack",
    "jinja2.runtime.Context.call/resolve_or_missing, Macro, LoopContext/AsyncLoopContext, BlockReference, TemplateReference",
    "jinja2.environment.Template._get_default_module/_get_default_module_async (module cache), TemplateModule",
    "generated code for for / if / macro / call / filter / set blocks, include, import, from-import, extends, super()",
    "jinja2.filters (map, sort, selectattr, join, list, first, length, string, attr), jinja2.tests.test_sequence",
]
OUTSIDE = [
    "exceptions not derived from Exception (KeyboardInterrupt ...); StopIteration raised anywhere but directly by a called callable "
    "(Python turns it into RuntimeError inside generators / coroutines)",
    "LookupError / TypeError raised by an *attribute* access (property, __getattr__): only AttributeError is tested as the attribute signal",
    "undefined types other than the default Undefined; sandboxed environments; awaitables that really suspend",
    "templates outside the scenario table; more than 2 loop items",
]
ASSUMPTIONS = [
    "templates are compiled natively (setup, or inside NoTracing for the fresh environments of mode B)",
    "lookup rule taken from the documentation (templates.rst 'Variables', filter attr): foo.bar = attribute, then item, then undefined; "
    "foo['bar'] = item, then attribute (string subscripts only), then undefined; signals: AttributeError for attributes, "
    "AttributeError / TypeError / LookupError for items",
]
SUSPECTED_DEFECTS = []

# ---------------------------------------------------------------- fault controller and data objects
class Ctl:
    def __init__(self, k=-1, exc=None):
        self.n = 0
        self.k = k
        self.exc = exc
        self.kinds = []
        self.fired = None

    def ev(self, kind):
        i = self.n
        self.n = i + 1
        self.kinds.append(kind)
        if self.exc is not None and _same(i, self.k):
            self.fired = kind
            raise self.exc


def _same(i, k):
    """i == k; k may be symbolic, and the event may come from inside a C function that CrossHair runs untraced."""
    if type(k) is int or is_tracing():
        return i == k
    with ResumedTracing():
        return i == k


CUR = [Ctl()]


def ev(kind):
    CUR[0].ev(kind)


class Boom(Exception):
    def __init__(self, a, b):
        super().__init__(a, b)


class BoomKey(KeyError):
    pass


class BoomAttr(AttributeError):
    pass


class BoomType(TypeError):
    pass


class BoomRuntime(RuntimeError):
    pass


def _mk_exc(i):
    if i == 0:
        return Boom("private", 38)
    return [None, BoomKey, BoomAttr, BoomType, BoomRuntime][i]("private")


FLAVOURS = ["Boom(Exception)", "BoomKey(KeyError)", "BoomAttr(AttributeError)", "BoomType(TypeError)", "BoomRuntime(RuntimeError)"]
LOOKUP_KINDS = ("attr", "prop", "item")
# (event kind, flavour) pairs for which the exception is a documented signal at that event, so propagation is not demanded
# (lookups: AttributeError / LookupError / TypeError; __len__: TypeError means "has no length" to LoopContext.length and to Python's own
# list(); an AttributeError escaping from the attribute lookup ``loop.length`` is an attribute error of that lookup)
NOT_DEMANDED = {(k, f) for k in LOOKUP_KINDS for f in (1, 2, 3)} | {("len", 2), ("len", 3)}


class It:
    def __init__(self, xs):
        self.xs = xs
        self.i = 0

    def __iter__(self):
        return self

    def __next__(self):
        ev("next")
        i = self.i
        if i >= len(self.xs):
            raise StopIteration
        self.i = i + 1
        return self.xs[i]


class Seq:
    def __init__(self, xs):
        self.xs = xs

    def __iter__(self):
        ev("iter")
        return It(self.xs)

    def __len__(self):
        ev("len")
        return len(self.xs)


class AIt:
    def __init__(self, xs):
        self.xs = xs
        self.i = 0

    def __aiter__(self):
        return self

    async def __anext__(self):
        ev("anext")
        i = self.i
        if i >= len(self.xs):
            raise StopAsyncIteration
        self.i = i + 1
        return self.xs[i]


class ASeq:
    def __init__(self, xs):
        self.xs = xs

    def __aiter__(self):
        ev("aiter")
        return AIt(self.xs)


class Obj:
    def __init__(self, name):
        self._n = name

    def __getattr__(self, name):
        if name[:1] == "_":
            raise AttributeError(name)
        ev("attr")
        if name in ("missing", "nokey"):
            raise AttributeError(name)
        return self._n + "." + name

    @property
    def p(self):
        ev("prop")
        return self._n + ".p"

    def __getitem__(self, key):
        ev("item")
        if key == "i" or key == 0:
            return self._n + "[" + str(key) + "]"
        raise KeyError(key)

    def __str__(self):
        ev("str")
        return "<" + self._n + ">"

    def __html__(self):
        ev("html")
        return "&lt;" + self._n + "&gt;"

    def __len__(self):
        ev("len")
        return 2

    def __bool__(self):
        ev("bool")
        return True

    def __eq__(self, other):
        ev("eq")
        return other is self

    __hash__ = object.__hash__

    def __iter__(self):
        ev("iter")
        return It([self._n + "0", self._n + "1"])

    def meth(self, x):
        ev("call")
        return self._n + ".meth"


class Fn:
    def __init__(self, name):
        self._n = name

    def __call__(self, *a, **kw):
        ev("call")
        return self._n + "(" + str(len(a)) + ")"


class AFn:
    def __init__(self, name):
        self._n = name

    async def __call__(self, *a, **kw):
        ev("acall")
        return self._n + "(" + str(len(a)) + ")"


class Probe:
    """Only used in ``is sequence``: the capability test reports false when ``__len__`` raises."""

    def __len__(self):
        ev("len?")
        return 1

    def __getitem__(self, i):
        raise IndexError(i)


G = Obj("G")
GF = Fn("gf")
XG = Obj("xg")

# ---------------------------------------------------------------- templates
SRC = {
    "helper": "{% set top = gf('top') %}"
              "{% macro show(o) %}<{{ o.a }}{{ o['i'] }}{{ o }}{{ G.b }}>{% endmacro %}"
              "{% macro twice(c) %}{{ c(1) }}{{ c(2) }}{% endmacro %}"
              "{% macro wrap() %}({{ caller(G) }}){% endmacro %}"
              "{% macro esc(c) %}{% autoescape true %}{{ c(1) }}{{ '<' }}{% endautoescape %}{% autoescape false %}{{ c(2) }}{% endautoescape %}{% endmacro %}"
              "{% macro mix(x) %}{{ [x, '-'|safe]|join(',') }}{{ x }}{% endmacro %}",
    "helper_x": "{% set tv = xg.a %}{% macro mm() %}{{ tv }}{{ xg['i'] }}{% endmacro %}",
    "part": "{% for x in it %}({{ rec('x', x) }}{{ loop.index }}/{{ loop.length }}){% endfor %}{{ o.a }}",
    "part_nc": "[{{ gf('p') }}{{ G.a }}]",
    "base": "A{% block one %}{{ o.a }}{% endblock %}B{% block two %}{{ f(2) }}{% endblock %}C{{ self.one() }}D",
    # ---- scenarios
    "basic": "{{ f(1) }}{% for x in it %}{{ rec('x', x) }}{% if o %}y{% endif %}{% else %}E{% endfor %}"
             "{{ o.a }}|{{ o['i'] }}|{{ o[0] }}|{{ o }}|{{ o|length }}|{% if o == 3 %}e{% endif %}"
             "{% if flag %}{{ o.p }}{{ f(2) }}{% endif %}{{ o.meth(4) }}[{{ o.missing }}][{{ o['nokey'] }}]{{ it|length }}",
    "import": "{% import 'helper' as h %}{{ h.show(o) }}{{ h.twice(f) }}{{ h.top }}"
              "{% call(g) h.wrap() %}{{ g.a }}{{ o['i'] }}{% if flag %}{{ f(3) }}{% endif %}{% endcall %}"
              "{% for x in it %}{{ rec('x', x) }}{{ h.twice(o.meth) }}{% endfor %}",
    "fromimport": "{% from 'helper' import show, twice with context %}{{ show(o) }}{{ twice(o.meth) }}"
                  "{% for x in it %}{{ rec('x', x) }}{{ show(o) if flag else '-' }}{% endfor %}",
    "include": "{% include 'part' %}{% include 'part_nc' without context %}{% include ['nope', 'part'] ignore missing %}"
               "{% if flag %}{% include 'part_nc' %}{% endif %}{{ f(3) }}",
    "child": "{% extends 'base' %}{% block one %}{{ super() }}{{ o['i'] }}{% for x in it %}{{ rec('x', x) }}{% endfor %}{% endblock %}",
    "child2": "{% extends 'base' %}{% block two %}{{ f(5) }}{% if flag %}{{ o }}{% endif %}{{ super() }}{% endblock %}",
    "nested": "{% set s %}{{ f(1) }}{{ o }}{% endset %}{{ s }}{% filter upper %}{{ o.a }}{% endfilter %}"
              "{% with w = o['i'] %}{{ w }}{% endwith %}"
              "{% macro loc(v=o.a) %}{{ v }}{{ varargs|length }}{% if flag %}{{ f(9) }}{% endif %}{% endmacro %}{{ loc() }}{{ loc(f(7), 1) }}"
              "{% for x in it recursive %}{{ rec('x', x) }}{% if loop.first %}{{ loop([]) }}{% endif %}{% endfor %}"
              "{% for a in o %}{{ a }}{% endfor %}",
    "filters": "{{ objs|map(attribute='a')|join(',') }}|{{ objs|sort(attribute='a')|length }}|{{ it|list|length }}|{{ it|first is defined }}"
               "|{{ o|string }}|{{ objs|selectattr('a')|list|length }}|{% if sq is sequence %}@Y@{% else %}@N@{% endif %}"
               "|{{ 3 in objs }}|{{ objs|join('+') }}|{{ o|attr('a') }}{% if flag %}{{ objs|map('string')|list|length }}{% endif %}",
    # regions that change per-render state of a cached module's context, then templates that observe it
    "escimport": "{% import 'helper' as h %}{{ h.esc(f) }}{{ h.mix('<a>') }}{% autoescape true %}{{ f(3) }}{{ o }}{% endautoescape %}{{ '<' ~ o.a }}",
    "escimport2": "{% import 'helper' as h %}{{ h.mix('<b>') }}{% from 'helper' import esc %}{{ esc(f) }}{{ h.mix(o.a) }}",
    "globals": "{% import 'helper' as h %}{{ h.show(G) }}{{ gf(1) }}{{ G.a }}{% include 'part_nc' without context %}{{ h.top }}",
    "xglobals": "{% import 'helper_x' as hx %}{{ hx.mm() }}{{ hx.tv }}{% from 'helper_x' import mm %}{{ mm() }}"
                "{% import 'helper' as h %}{{ h.top }}",
    "async": "{{ af(1) }}{% for x in ait %}{{ rec('x', x) }}{% if flag %}{{ af(2) }}{% endif %}{% endfor %}{{ o.a }}"
             "{% import 'helper' as h %}{{ h.show(o) }}{{ h.twice(af) }}{% include 'part' %}",
}
# scenario -> the other template rendered afterwards (shares helper / part / base with it)
OTHER = {"basic": "include", "import": "fromimport", "fromimport": "globals", "include": "globals", "child": "child2", "child2": "child",
         "nested": "import", "filters": "basic", "globals": "import", "xglobals": "import", "async": "import",
         "escimport": "escimport2", "escimport2": "escimport"}
SCENARIOS = list(OTHER)
TGLOBALS = {"xglobals": {"xg": XG}}

ENVKINDS = {"sync": dict(), "async": dict(enable_async=True), "sync-autoescape": dict(autoescape=True)}
ENTRIES = {
    "sync": ["render", "generate", "make_module", "stream@2", "stream@3", "dump@2"],
    "sync-autoescape": ["render", "generate", "make_module", "stream@3"],
    "async": ["render_async", "generate_async", "make_module_async", "render@async", "generate@async", "stream@2"],
}


def mkenv(kind):
    env = Environment(loader=DictLoader(SRC), **ENVKINDS[kind])
    env.globals.update(G=G, gf=GF)
    return env


def run(env, name, entry, ctx):
    t = env.get_template(name, globals=TGLOBALS.get(name))
    if entry in ("render", "render@async"):
        return t.render(ctx)
    if entry in ("generate", "generate@async"):
        return "".join(t.generate(ctx))
    if entry.startswith("stream@") or entry.startswith("dump@"):
        # buffered template stream: an exception from the data must not be absorbed by the buffering
        st = t.stream(ctx)
        st.enable_buffering(int(entry.split("@")[1]))
        if entry.startswith("dump@"):
            parts = []

            class _W:
                def write(self, x):
                    parts.append(x)
            st.dump(_W())
            return "".join(parts)
        return "".join(st)
    if entry == "make_module":
        return str(t.make_module(ctx))
    if entry == "module":       # the cached default module: the template may only use globals
        return str(t.module)
    if entry == "render_async":
        return drive(t.render_async(ctx))
    if entry == "generate_async":
        return "".join(drive_agen(t.generate_async(ctx)))
    if entry == "make_module_async":
        return str(drive(t.make_module_async(ctx)))
    raise AssertionError(entry)


def mkctx(xs, flag, rec):
    return dict(o=Obj("o"), f=Fn("f"), it=Seq(xs), objs=[Obj("p"), Obj("q")], sq=Probe(), flag=flag, rec=rec,
                af=AFn("af"), ait=ASeq(xs))


def attempt(env, name, entry, xs, flag, k, exc):
    """One render under a controller -> (controller, 'ok' | 'exc', text | exception, rec log)."""
    ctl = Ctl(k, exc)
    CUR[0] = ctl
    rec = Rec()
    try:
        out = run(env, name, entry, mkctx(xs, flag, rec))
    except Exception as e:
        return ctl, "exc", e, rec.log
    finally:
        CUR[0] = Ctl()
    return ctl, "ok", out, rec.log


def follow_ups_ok(env, name, entry, xs, flag, exp_same, exp_other, other_entry):
    """Two further clean renders in the same environment give the clean results."""
    _, how, out, log = attempt(env, name, entry, xs, flag, -1, None)
    if how != "ok" or out != exp_same[0] or log != exp_same[1]:
        return False
    _, how, out, log = attempt(env, OTHER[name], other_entry, xs, flag, -1, None)
    return how == "ok" and out == exp_other[0] and log == exp_other[1]


# ---------------------------------------------------------------- mode A
P = {}
ENV_A = None


def seq_ok(k: int, xs: List[int], flag: bool) -> bool:
    """
    pre: 0 <= k <= P["kmax"] and len(xs) <= P["maxn"]
    post: _
    """
    name, entry, oentry = P["scenario"], P["entry"], P["oentry"]
    data = [v for v in xs]
    c0, how, out0, log0 = attempt(ENV_A, name, entry, data, flag, -1, None)
    if how != "ok":
        return False
    _, how, out1, log1 = attempt(ENV_A, OTHER[name], oentry, data, flag, -1, None)
    if how != "ok":
        return False
    boom = Boom("private", 38)
    c, how, res, log = attempt(ENV_A, name, entry, data, flag, k, boom)
    if c.fired is None:
        # k is beyond the events of this run: nothing was raised by the data, the result is the clean one
        if not (k >= c0.n and how == "ok" and res == out0 and log == log0):
            return False
    elif c.fired == "len?":
        if not (how == "ok" and res == out0.replace("@Y@", "@N@")):
            return False
    elif not (how == "exc" and res is boom):
        return False
    return follow_ups_ok(ENV_A, name, entry, data, flag, (out0, log0), (out1, log1), oentry)


# ---------------------------------------------------------------- mode B: fresh environment per run
CLEAN = {}      # (envkind, scenario, entry, nxs, flag) -> (text, log, number of events) of the first render on a fresh environment


def clean(kind, name, entry, nxs, flag):
    key = (kind, name, entry, nxs, flag)
    r = CLEAN.get(key)
    if r is None:
        c, how, out, log = attempt(mkenv(kind), name, entry, list(range(1, nxs + 1)), flag, -1, None)
        if how != "ok":
            raise out
        r = CLEAN[key] = (out, log, c.n)
    return r


def entries_of(kind, name):
    es = list(ENTRIES[kind])
    if name == "globals" and kind != "async":
        es.append("module")
    return es


def fault_ok(k: int, combo: int, nxs: int, flag: bool) -> bool:
    """
    pre: 0 <= k < P["kmax"] and 0 <= combo < len(P["combos"]) and 0 <= nxs < len(P["nxs"])
    post: _
    """
    kk = pick(k, P["kmax"])
    en, fl = P["combos"][pick(combo, len(P["combos"]))]
    n = P["nxs"][pick(nxs, len(P["nxs"]))]
    fg = pickb(flag)
    with NoTracing():
        return _fault_native(P["kind"], P["scenario"], en, kk, fl, n, fg)


def _fault_native(kind, name, entry, k, fl, nxs, flag):
    out0, log0, n0 = clean(kind, name, entry, nxs, flag)
    oentry = "render_async" if kind == "async" else "render"
    exp_other = clean(kind, OTHER[name], oentry, nxs, flag)
    env = mkenv(kind)
    xs = list(range(1, nxs + 1))
    boom = _mk_exc(fl)
    c, how, res, log = attempt(env, name, entry, xs, flag, k, boom)
    if c.fired is None:
        if not (k >= n0 and how == "ok" and res == out0 and log == log0):
            return False
    elif c.fired == "len?":
        if not (how == "ok" and res == out0.replace("@Y@", "@N@")):
            return False
    elif (c.fired, fl) in NOT_DEMANDED:
        if not (how == "exc" and res is boom):
            # became an undefined value: cached modules may legitimately hold it, nothing more is demanded
            return True
    elif not (how == "exc" and res is boom):
        return False
    return follow_ups_ok(env, name, entry, xs, flag, (out0, log0), exp_other, oentry)


# ---------------------------------------------------------------- mode B: the documented lookup rule
BEH = ["value", "absent", "AttributeError", "KeyError", "IndexError", "TypeError", "boom"]
ITEM_BEH = BEH
ATTR_BEH = ["value", "absent", "AttributeError", "boom"]
SYNTAX = ["o.name", "o['name']", "o[key]", "o[0]", "o|attr('name')", "[o]|map(attribute='name')|first"]
USES = ["[{{ X }}]", "{{ (X) is defined }}", "{{ (X)|default('D') }}", "{% if (X) is undefined %}U{% else %}{{ X }}{% endif %}",
        "{% set v = X %}[{{ v }}]", "{% macro m(v) %}[{{ v }}]{% endmacro %}{{ m(X) }}"]
L_ENTRIES = ["render", "generate", "render_async", "generate_async"]
_EXC = {"AttributeError": AttributeError, "KeyError": KeyError, "IndexError": IndexError, "TypeError": TypeError}
L_ENV = {False: Environment(), True: Environment(enable_async=True)}
L_T = {}


def _act(beh, val, boom):
    if beh == "value":
        return val
    if beh == "boom":
        raise boom
    raise _EXC[beh]("signal")


def mk_obj(item_beh, attr_beh, prop, boom):
    ns = {}
    if item_beh != "absent":
        def __getitem__(self, key):
            ev("item")
            return _act(item_beh, "I", boom)
        ns["__getitem__"] = __getitem__
    if attr_beh != "absent":
        if prop:
            def name(self):
                ev("prop")
                return _act(attr_beh, "A", boom)
            ns["name"] = property(name)
        else:
            def __getattr__(self, n):
                if n != "name":
                    raise AttributeError(n)
                ev("attr")
                return _act(attr_beh, "A", boom)
            ns["__getattr__"] = __getattr__
    return type("LObj", (), ns)()


def model(syntax, item_beh, attr_beh, prop=False):
    """The documented rule -> 'I', 'A', '' (undefined) or 'BOOM'; None where the documentation does not decide."""
    if syntax == "o|attr('name')" and prop and attr_beh == "AttributeError" and item_beh != "absent":
        # "returns undefined instead of falling back to foo['bar'] if the attribute doesn't exist": the property exists but
        # raises AttributeError; the filter then does consult the item.  Not a matter of this property: left open.
        return None
    def item(then):
        if item_beh == "value":
            return "I"
        if item_beh == "boom":
            return "BOOM"
        return then()       # absent (TypeError: not subscriptable) or a signal

    def attr(then):
        if attr_beh == "value":
            return "A"
        if attr_beh == "boom":
            return "BOOM"
        return then()       # absent or AttributeError

    undefined = lambda: ""  # noqa: E731
    if syntax == "o.name":
        return attr(lambda: item(undefined))
    if syntax in ("o['name']", "o[key]", "[o]|map(attribute='name')|first"):
        return item(lambda: attr(undefined))
    if syntax == "o[0]":
        return item(undefined)
    if syntax == "o|attr('name')":
        return attr(undefined)
    raise AssertionError(syntax)


def _use_expected(use, v):
    if use == 1:
        return "True" if v else "False"
    if use == 2:
        return v or "D"
    if use == 3:
        return v or "U"
    return "[" + v + "]"


def lookup_ok(syntax: int, item_beh: int, attr_beh: int, prop: bool, use: int, entry: int) -> bool:
    """
    pre: syntax == P["syntax"] and 0 <= item_beh < len(ITEM_BEH) and 0 <= attr_beh < len(ATTR_BEH)
    pre: 0 <= use < P["nuses"] and 0 <= entry < len(L_ENTRIES)
    post: _
    """
    sy = P["syntax"]
    ib = ITEM_BEH[pick(item_beh, len(ITEM_BEH))]
    ab = ATTR_BEH[pick(attr_beh, len(ATTR_BEH))]
    pr = pickb(prop)
    us = pick(use, P["nuses"])
    en = L_ENTRIES[pick(entry, len(L_ENTRIES))]
    with NoTracing():
        return _lookup_native(sy, ib, ab, pr, us, en)


def _lookup_t(sy, us, asyn):
    key = (sy, us, asyn)
    t = L_T.get(key)
    if t is None:
        t = L_T[key] = L_ENV[asyn].from_string(USES[us].replace("X", SYNTAX[sy]))
    return t


def _small(t, en, ctx):
    CUR[0] = ctl = Ctl()
    try:
        if en == "render":
            out = t.render(ctx)
        elif en == "generate":
            out = "".join(t.generate(ctx))
        elif en == "render_async":
            out = drive(t.render_async(ctx))
        else:
            out = "".join(drive_agen(t.generate_async(ctx)))
        return ctl, "ok", out
    except Exception as e:
        return ctl, "exc", e
    finally:
        CUR[0] = Ctl()


def _lookup_native(sy, ib, ab, pr, us, en):
    t = _lookup_t(sy, us, en.endswith("_async"))
    boom = Boom("private", 38)
    # the faulty object, then an object whose lookups all succeed, then the faulty one again
    for i_b, a_b in ((ib, ab), ("value", "value"), (ib, ab)):
        _, how, res = _small(t, en, {"o": mk_obj(i_b, a_b, pr, boom), "key": "name"})
        exp = model(SYNTAX[sy], i_b, a_b, pr)
        if exp is None:
            continue
        if exp == "BOOM":
            if not (how == "exc" and res is boom):
                return False
        elif not (how == "ok" and res == _use_expected(us, exp)):
            return False
    return True


# ---------------------------------------------------------------- mode B: StopIteration from a callable
S_CALLS = ["f()", "f(1, k=2)", "o.meth()", "o['meth']()", "nxt(it)", "f(*[1])"]
S_USES = [("[{{ X }}]", "[]"), ("{{ (X) is defined }}", "False"), ("{{ (X)|default('D') }}", "D"),
          ("{% for x in [X, 1] %}<{{ x }}>{% endfor %}", "<><1>"), ("{% set v = X %}{{ v is undefined }}", "True"),
          ("{% if X %}T{% else %}F{% endif %}", "F"), ("{{ [X, 2]|length }}", "2"),
          ("{% macro m(v) %}{{ v is undefined }}{% endmacro %}{{ m(X) }}", "True")]
S_T = {}


class Stopper:
    def meth(self, *a, **kw):
        ev("call")
        raise StopIteration

    def __getitem__(self, key):
        return self.meth


def _stop_fn(*a, **kw):
    ev("call")
    raise StopIteration


def stop_ok(call: int, use: int, entry: int) -> bool:
    """
    pre: 0 <= call < len(S_CALLS) and 0 <= use < len(S_USES) and 0 <= entry < len(L_ENTRIES)
    post: _
    """
    ca = pick(call, len(S_CALLS))
    us = pick(use, len(S_USES))
    en = L_ENTRIES[pick(entry, len(L_ENTRIES))]
    with NoTracing():
        return _stop_native(ca, us, en)


def _stop_native(ca, us, en):
    asyn = en.endswith("_async")
    key = (ca, us, asyn)
    t = S_T.get(key)
    if t is None:
        t = S_T[key] = L_ENV[asyn].from_string(S_USES[us][0].replace("X", S_CALLS[ca]))
    for _ in range(2):
        ctl, how, out = _small(t, en, {"f": _stop_fn, "o": Stopper(), "nxt": next, "it": iter([])})
        if how != "ok" or out != S_USES[us][1]:
            return False
        if S_CALLS[ca] != "nxt(it)" and ctl.n != 1:
            return False
    return True


# ---------------------------------------------------------------- framework hooks
def setup(param):
    global P, ENV_A
    P = dict(param or {})
    CUR[0] = Ctl()
    CLEAN.clear()
    ENV_A = None
    if P.get("mode") == "A":
        ENV_A = mkenv(P["kind"])
        for name in SRC:
            ENV_A.get_template(name, globals=TGLOBALS.get(name))


def _kmax(kind, name, entries, ns):
    return max(clean(kind, name, e, n, fg)[2] for e in entries for n in ns for fg in (False, True))


A_SCENARIOS = ["basic", "import", "include", "child", "nested", "fromimport", "filters", "async"]
AE_SCENARIOS = ["basic", "import", "nested", "filters"]     # the autoescape environment is only used with these


def conditions(tier, seed):
    th = tier == "thorough"
    to = 300 if th else 60
    out = []
    CLEAN.clear()
    # ---- mode A
    maxn = 2 if th else 1
    for name in A_SCENARIOS if th else A_SCENARIOS[:4]:
        for kind, entry, oentry in (("sync", "render", "render"), ("sync", "generate", "render"),
                                    ("async", "render_async", "render_async"), ("async", "generate_async", "render_async")):
            if name == "async" and kind != "async":
                continue
            if not th and (name, entry) not in (("basic", "render"), ("basic", "generate_async"), ("import", "generate"),
                                                ("include", "render_async"), ("child", "generate"), ("child", "render_async")):
                continue
            kmax = _kmax(kind, name, [entry], range(maxn + 1))
            out.append(Cond(f"seq[{name},{kind},{entry}]", "seq_ok", mode="A", timeout=to * 3 // 2 if not th else to,
                            param={"mode": "A", "kind": kind, "scenario": name, "entry": entry, "oentry": oentry, "kmax": kmax, "maxn": maxn},
                            witnesses=[[0, [5], True], [3, [7], False], [kmax - 1, [1] * maxn, True], [kmax, [], False], [2, [], True]],
                            bounds=f"template {name!r} (then {OTHER[name]!r}) in the {kind} environment through {entry}: fault at any event index "
                                   f"0..{kmax} (indices beyond the run: no fault), loop data any list of <= {maxn} ints, any flag"))
    # ---- mode B: fresh environments
    ns = [0, 1, 2] if th else [2]
    for kind in ENVKINDS:
        for name in SCENARIOS:
            if name == "async" and kind != "async":
                continue
            if kind == "sync-autoescape" and name not in AE_SCENARIOS:
                continue
            es = entries_of(kind, name)
            if th:
                combos = [[e, f] for e in es for f in range(len(FLAVOURS))]
            else:
                combos = [[e, 0] for e in es] + [[es[(f - 1) % 2], f] for f in range(1, len(FLAVOURS))]
            for n in ns:
                kmax = _kmax(kind, name, es, [n])
                out.append(Cond(f"fault[{name},{kind},items={n}]", "fault_ok", mode="B", timeout=to,
                                param={"kind": kind, "scenario": name, "combos": combos, "nxs": [n], "kmax": kmax},
                                witnesses=[[0, 0, 0, True], [kmax - 1, len(combos) - 1, 0, False], [kmax // 2, 1, 0, True],
                                           [1, len(combos) - 2, 0, False], [kmax // 3, 2, 0, False]],
                                bounds=f"fresh {kind} environment, template {name!r} then {OTHER[name]!r}, {n} loop items, both flag values: fault at "
                                       f"every event index 0..{kmax - 1} x (entry point, exception class) in "
                                       f"{[(e, FLAVOURS[f]) for e, f in combos]!r}"))
    CLEAN.clear()
    # ---- mode B: lookup rule, StopIteration
    nuses = len(USES) if th else 4
    for sy in range(len(SYNTAX)):
        out.append(Cond(f"lookup[{SYNTAX[sy]}]", "lookup_ok", mode="B", timeout=to, param={"syntax": sy, "nuses": nuses},
                        witnesses=[[sy, 0, 0, False, 0, 0], [sy, 3, 3, True, 1, 1], [sy, 6, 1, False, 2, 2], [sy, 1, 2, True, 3, 3], [sy, 5, 3, False, nuses - 1, 0]],
                        bounds=f"{SYNTAX[sy]}: item access {ITEM_BEH} x attribute {ATTR_BEH} (as __getattr__ or property) x uses {USES[:nuses]} x entry points {L_ENTRIES}; "
                               "faulty object, clean object, faulty object again"))
    out.append(Cond("stopiteration", "stop_ok", mode="B", timeout=to, param={},
                    witnesses=[[0, 0, 0], [2, 3, 1], [4, 1, 2], [3, 6, 3], [5, 7, 0], [1, 4, 1]],
                    bounds=f"calls {S_CALLS} raising StopIteration x uses {[u for u, _ in S_USES]} x entry points {L_ENTRIES}, rendered twice"))
    return out
