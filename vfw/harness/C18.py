"""C18 — a sandboxed template never calls a callable the sandbox deems unsafe.

A *recording callable* (plain function, ``pass_context`` function, bound method, class method, callable
object with instance- or class-level flags, callable objects whose ``__call__`` is decorated with
``pass_context`` / ``pass_eval_context`` / ``pass_environment``, a class, a coroutine function) carries
``unsafe_callable`` / ``alters_data`` flags given by symbolic bools.  It is handed to a sandboxed template
that reaches it along one of ~80 *reach forms* (direct call, call with arguments, through an attribute /
subscript / ``attr`` filter / ``map(attribute=...)``, dict and list containers, set/with/namespace
aliases, macro arguments / defaults / varargs / kwargs / closures, ``{% call %}`` blocks (as callee, in
the body, as ``caller`` argument, forwarded ``caller``), loop variables and loop bodies, blocks, ``super()``
and ``self.block()``, included / imported / extended templates, filter and test arguments incl.
``map``/``select``, nested call arguments, conditional expressions, ...) in four environment policies:
``SandboxedEnvironment``, ``ImmutableSandboxedEnvironment`` and two subclasses overriding
``is_safe_callable`` with a predicate that consults a symbolic bool (alone / and-ed with the default),
each sync and driven-async.

Oracle (property text): if the safety predicate rejects the callable, the render raises ``SecurityError``
and the recorder has run 0 times; if it accepts, no ``SecurityError`` is raised (and, as a vacuity guard,
the recorder really ran the number of times the form calls it).  Forms whose call is not evaluated
(short-circuit, dead branch, macro never invoked) must neither raise nor run the recorder.

Mode B: form / kind / flags are decoded by explicit solver forks, the render runs natively.
Mode A: for a slice of forms the flag bools stay symbolic, are stored on the callable, and flow through
the real ``is_safe_callable`` / ``SandboxedEnvironment.call`` / ``Context.call`` under tracing.
"""
from jinja2 import DictLoader, Environment, pass_context, pass_environment, pass_eval_context
from jinja2.exceptions import SecurityError
from jinja2.nodes import EvalContext
from jinja2.runtime import Context
from jinja2.sandbox import ImmutableSandboxedEnvironment, SandboxedEnvironment
from vfw.core import Cond, pick, pickb
from vfw.support import NoTracing, drive

FUNCTIONS = [
    "jinja2.sandbox.SandboxedEnvironment.call / is_safe_callable (default and overridden)",
    "jinja2.runtime.Context.call (pass_context / pass_eval_context / pass_environment dispatch, decorated __call__)",
    "jinja2.compiler.CodeGenerator.visit_Call / visit_CallBlock / macro_body / visit_Filter / visit_Test (generated code, sync and async)",
    "jinja2.runtime.Macro.__call__ / _invoke (caller forwarding), BlockReference, LoopContext, auto_await",
]
OUTSIDE = [
    "templates outside the reach-form table",
    "callables the application registers as filters / tests / globals-with-wrappers and calls itself (not a call written in the template)",
    "unsafe callables invoked by *safe* Python callables (e.g. functools.partial objects, which do not proxy the flags)",
    "flag values other than absent / False / True",
]
ASSUMPTIONS = [
    "mode B: templates are rendered natively per decoded path; the solver certifies that the selector space is exhausted",
    "templates are compiled natively (cached per environment); only rendering happens under tracing in mode A",
    "the recorder appends to a log as its first action, so 'ran 0 times' is observed exactly",
]

CALLS: list = []
POLICY = {"allow": True}
RET = "R"


# ------------------------------------------------------------------------------------ environments
def _is_rec(obj):
    return getattr(obj, "vf_rec", False) is True


class OverrideOnlyEnv(SandboxedEnvironment):
    """is_safe_callable replaced: recorders are judged by the policy bool alone (flags ignored)."""

    def is_safe_callable(self, obj):
        if _is_rec(obj):
            return POLICY["allow"]
        return True


class OverrideAndEnv(SandboxedEnvironment):
    """is_safe_callable tightened: policy bool and the default rule."""

    def is_safe_callable(self, obj):
        if _is_rec(obj) and not POLICY["allow"]:
            return False
        return super().is_safe_callable(obj)


POLICIES = {
    "sandboxed": SandboxedEnvironment,
    "immutable": ImmutableSandboxedEnvironment,
    "override_only": OverrideOnlyEnv,
    "override_and": OverrideAndEnv,
}

LOADER = DictLoader({
    "inc": "{{ f() }}",
    "lib": "{% macro mc() %}{{ f() }}{% endmacro %}{% macro ma(g) %}{{ g() }}{% endmacro %}",
    "base": "[{% block b %}{% endblock %}]",
    "base_calls": "[{% block b %}{{ f() }}{% endblock %}]",
})
ENVS: dict = {}


def _env(policy, asyncm):
    k = (policy, asyncm)
    if k not in ENVS:
        ENVS[k] = POLICIES[policy](loader=LOADER, enable_async=asyncm, extensions=["jinja2.ext.do"])
    return ENVS[k]


# ------------------------------------------------------------------------------------ recorders
MARKS = [True, 1, "yes"]   # a marker is any true value (is_safe_callable tests truthiness; Django sets alters_data = True)
MARK = [0]


def _flag(target, u, a, absent):
    """Put the two flags on `target` (a function, an instance or a class namespace dict)."""
    d = target if isinstance(target, dict) else None
    for name, v in (("unsafe_callable", u), ("alters_data", a)):
        if absent and v is False:
            continue
        if v is True and MARK[0]:
            v = MARKS[MARK[0]]
        if d is not None:
            d[name] = v
        else:
            setattr(target, name, v)


def _hit(tag, args, kw):
    CALLS.append((tag, len(args), sorted(kw)))


class Holder:
    pass


def make(kind, u, a, absent):
    """-> (callable as reached directly, holder object whose attribute `f` is the callable)."""
    o = Holder()
    if kind == "fn":
        def f(*args, **kw):
            _hit("fn", args, kw)
            return RET
        f.vf_rec = True
        _flag(f, u, a, absent)
    elif kind == "fn_ctx":
        @pass_context
        def f(ctx, *args, **kw):
            _hit("fn_ctx" if isinstance(ctx, Context) else "fn_ctx:NOCTX", args, kw)
            return RET
        f.vf_rec = True
        _flag(f, u, a, absent)
    elif kind == "afn":
        async def f(*args, **kw):
            _hit("afn", args, kw)
            return RET
        f.vf_rec = True
        _flag(f, u, a, absent)
    elif kind in ("method", "classmethod"):
        def meth(self, *args, **kw):
            _hit(kind, args, kw)
            return RET
        meth.__name__ = meth.__qualname__ = "f"  # bound methods are copied/pickled by attribute name
        meth.vf_rec = True
        _flag(meth, u, a, absent)
        cls = type("M", (), {"f": classmethod(meth) if kind == "classmethod" else meth})
        o = cls()
        return o.f, o
    elif kind in ("cobj", "cobj_clsflags", "cobj_ctx", "cobj_ctx_clsflags", "cobj_evalctx", "cobj_env"):
        if kind in ("cobj_ctx", "cobj_ctx_clsflags"):
            @pass_context
            def call(self, ctx, *args, **kw):
                _hit(kind if isinstance(ctx, Context) else kind + ":NOCTX", args, kw)
                return RET
        elif kind == "cobj_evalctx":
            @pass_eval_context
            def call(self, ectx, *args, **kw):
                _hit(kind if isinstance(ectx, EvalContext) else kind + ":NOCTX", args, kw)
                return RET
        elif kind == "cobj_env":
            @pass_environment
            def call(self, env, *args, **kw):
                _hit(kind if isinstance(env, SandboxedEnvironment) else kind + ":NOCTX", args, kw)
                return RET
        else:
            def call(self, *args, **kw):
                _hit(kind, args, kw)
                return RET
        ns = {"__call__": call, "vf_rec": True}
        if kind.endswith("_clsflags"):
            _flag(ns, u, a, absent)
        f = type("C", (), ns)()
        if not kind.endswith("_clsflags"):
            _flag(f, u, a, absent)
    elif kind == "macro":
        # a template macro as the callable: the safety check applies to Macro objects like to any other callable
        f = MACRO_ENV.from_string("{% macro f() %}{{ vfhit(varargs, kwargs, caller) }}{% endmacro %}").module.f
        f.vf_rec = True
        _flag(f, u, a, absent)
    elif kind == "cls":
        def new(cls, *args, **kw):
            _hit("cls", args, kw)
            return str.__new__(cls, RET)
        ns = {"__new__": new, "vf_rec": True}
        _flag(ns, u, a, absent)
        f = type("K", (str,), ns)
    else:
        raise AssertionError(kind)
    o.f = f
    return f, o


def _vfhit(varargs, kwargs, caller):
    _hit("macro", tuple(varargs), dict(kwargs))
    return RET


MACRO_ENV = Environment()
MACRO_ENV.globals["vfhit"] = _vfhit

KINDS = ["macro", "fn", "fn_ctx", "method", "classmethod", "cobj", "cobj_clsflags", "cobj_ctx", "cobj_evalctx", "cobj_env", "cls", "afn",
         "cobj_ctx_clsflags"]
A_KINDS = ["fn", "method", "cobj_ctx", "cls", "cobj", "cobj_clsflags"]  # quick: the first four

# ------------------------------------------------------------------------------------ reach forms
# (name, source, calls when accepted, call attempted?)
M_CALLER = "{% macro m() %}{{ caller() }}{% endmacro %}"
FORMS = [
    # ---- direct
    ("direct", "{{ f() }}", 1, True),
    ("direct_args", "{{ f(1, k=2) }}", 1, True),
    ("direct_star", "{{ f(*[1], **{'k': 2}) }}", 1, True),
    ("direct_twice", "{{ f() }}{{ f() }}", 2, True),
    ("paren", "{{ (f)() }}", 1, True),
    ("do_stmt", "{% do f() %}", 1, True),
    # ---- through attributes / containers
    ("attr_dot", "{{ o.f() }}", 1, True),
    ("attr_sub", "{{ o['f']() }}", 1, True),
    ("attr_filter", "{{ (o|attr('f'))() }}", 1, True),
    ("attr_map", "{{ ([o]|map(attribute='f')|first)() }}", 1, True),
    ("dict_sub", "{{ d['f']() }}", 1, True),
    ("dict_dot", "{{ d.f() }}", 1, True),
    ("dict_get", "{{ d.get('f')() }}", 1, True),
    ("dict_literal", "{{ {'k': f}.k() }}", 1, True),
    ("list_idx", "{{ l[0]() }}", 1, True),
    ("list_first", "{{ (l|first)() }}", 1, True),
    ("list_literal", "{{ [f][0]() }}", 1, True),
    ("tuple_literal", "{{ (f,)[0]() }}", 1, True),
    ("nested_container", "{{ {'a': [o]}.a[0].f() }}", 1, True),
    ("cycler", "{{ cycler(f).next()() }}", 1, True),
    ("returned", "{{ getf()() }}", 1, True),
    ("identity", "{{ ident(f)() }}", 1, True),
    ("condexpr_callee", "{{ (f if true else none)() }}", 1, True),
    # ---- aliases
    ("set_alias", "{% set g = f %}{{ g() }}", 1, True),
    ("set_alias_attr", "{% set g = o.f %}{{ g() }}", 1, True),
    ("with_alias", "{% with g = f %}{{ g() }}{% endwith %}", 1, True),
    ("with_alias_nested", "{% with g = f %}{% with h = g %}{{ h() }}{% endwith %}{% endwith %}", 1, True),
    ("ns_alias", "{% set ns = namespace(g=f) %}{{ ns.g() }}", 1, True),
    ("ns_assign", "{% set ns = namespace() %}{% set ns.g = f %}{{ ns.g() }}", 1, True),
    # ---- where the result goes
    ("set_result", "{% set r = f() %}{{ r }}", 1, True),
    ("with_result", "{% with r = f() %}{{ r }}{% endwith %}", 1, True),
    ("set_block", "{% set r %}{{ f() }}{% endset %}{{ r }}", 1, True),
    ("filter_block", "{% filter upper %}{{ f() }}{% endfilter %}", 1, True),
    ("autoescape_block", "{% autoescape true %}{{ f() }}{% endautoescape %}", 1, True),
    ("if_test", "{% if f() %}x{% endif %}", 1, True),
    ("elif_test", "{% if false %}{% elif f() %}x{% endif %}", 1, True),
    ("for_iter", "{% for x in f() %}{{ x }}{% endfor %}", 1, True),
    ("condexpr_value", "{{ f() if true else 1 }}", 1, True),
    ("binop", "{{ f() ~ 'x' }}", 1, True),
    ("compare", "{{ f() == 1 }}", 1, True),
    ("result_item", "{{ f()[0] }}", 1, True),
    ("result_attr", "{{ f().nope }}", 1, True),
    ("in_list_literal", "{{ [f()]|length }}", 1, True),
    ("in_dict_literal", "{{ {'a': f()}|length }}", 1, True),
    # ---- macros
    ("macro_arg", "{% macro m(g) %}{{ g() }}{% endmacro %}{{ m(f) }}", 1, True),
    ("macro_kwarg", "{% macro m(g) %}{{ g() }}{% endmacro %}{{ m(g=f) }}", 1, True),
    ("macro_default", "{% macro m(g=f) %}{{ g() }}{% endmacro %}{{ m() }}", 1, True),
    ("macro_closure", "{% macro m() %}{{ f() }}{% endmacro %}{{ m() }}", 1, True),
    ("macro_varargs", "{% macro m() %}{{ varargs[0]() }}{% endmacro %}{{ m(f) }}", 1, True),
    ("macro_kwargs", "{% macro m() %}{{ kwargs.g() }}{% endmacro %}{{ m(g=f) }}", 1, True),
    ("macro_nested", "{% macro a(g) %}{{ g() }}{% endmacro %}{% macro b(g) %}{{ a(g) }}{% endmacro %}{{ b(f) }}", 1, True),
    ("macro_in_arg", "{% macro m(x) %}{{ x }}{% endmacro %}{{ m(f()) }}", 1, True),
    # ---- call blocks
    ("call_block_callee", "{% call f() %}x{% endcall %}", 1, True),
    ("call_block_callee_attr", "{% call o.f() %}x{% endcall %}", 1, True),
    ("call_block_callee_args", "{% call(x) f(1) %}{{ x }}{% endcall %}", 1, True),
    ("call_block_body", M_CALLER + "{% call m() %}{{ f() }}{% endcall %}", 1, True),
    ("call_block_arg", "{% macro m() %}{{ caller(f) }}{% endmacro %}{% call(g) m() %}{{ g() }}{% endcall %}", 1, True),
    ("call_block_loop_body", M_CALLER + "{% call m() %}{% for g in l %}{{ g() }}{% endfor %}{% endcall %}", 1, True),
    ("caller_is_f", M_CALLER + "{{ m(caller=f) }}", 1, True),
    ("call_block_in_loop", "{% for i in [1] %}{% call f() %}x{% endcall %}{% endfor %}", 1, True),
    ("call_block_in_block", "{% block b %}{% call f() %}x{% endcall %}{% endblock %}", 1, True),
    ("call_block_in_macro", "{% macro m() %}{% call f() %}x{% endcall %}{% endmacro %}{{ m() }}", 1, True),
    # ---- loops
    ("loop_var", "{% for g in l %}{{ g() }}{% endfor %}", 1, True),
    ("loop_var_dict", "{% for k, g in d.items() %}{{ g() }}{% endfor %}", 1, True),
    ("loop_var_filtered", "{% for g in l if g %}{{ g() }}{% endfor %}", 1, True),
    ("loop_body", "{% for i in [1, 2] %}{{ f() }}{% endfor %}", 2, True),
    ("loop_else", "{% for x in [] %}{% else %}{{ f() }}{% endfor %}", 1, True),
    ("loop_recursive", "{% for g in l recursive %}{{ g() }}{% endfor %}", 1, True),
    ("loop_nested", "{% for i in [1] %}{% for g in l %}{{ g() }}{% endfor %}{% endfor %}", 1, True),
    ("loop_changed_arg", "{% for i in [1] %}{{ loop.changed(f()) }}{% endfor %}", 1, True),
    ("loop_set_alias", "{% for i in [1] %}{% set g = f %}{{ g() }}{% endfor %}", 1, True),
    ("loop_cond", "{% for i in [1] if f() %}x{% endfor %}", 1, True),
    # ---- blocks / inheritance / other templates
    ("block_body", "{% block b %}{{ f() }}{% endblock %}", 1, True),
    ("block_loop", "{% block b %}{% for i in [1] %}{{ f() }}{% endfor %}{% endblock %}", 1, True),
    ("block_scoped", "{% for g in l %}{% block b scoped %}{{ g() }}{% endblock %}{% endfor %}", 1, True),
    ("block_self", "{% block b %}{{ f() }}{% endblock %}{{ self.b() }}", 2, True),
    ("extends_child", "{% extends 'base' %}{% block b %}{{ f() }}{% endblock %}", 1, True),
    ("extends_super", "{% extends 'base_calls' %}{% block b %}{{ super() }}{% endblock %}", 1, True),
    ("extends_parent", "{% extends 'base_calls' %}", 1, True),
    ("include", "{% include 'inc' %}", 1, True),
    ("from_import_ctx", "{% from 'lib' import mc with context %}{{ mc() }}", 1, True),
    ("from_import_arg", "{% from 'lib' import ma %}{{ ma(f) }}", 1, True),
    ("import_arg", "{% import 'lib' as lib %}{{ lib.ma(f) }}", 1, True),
    # ---- filter and test arguments
    ("filter_arg", "{{ none|default(f()) }}", 1, True),
    ("filter_kwarg", "{{ none|default(default_value=f()) }}", 1, True),
    ("filter_arg_map", "{{ [none]|map('default', f())|list }}", 1, True),
    ("filter_input", "{{ f()|string }}", 1, True),
    ("filter_arg_replace", "{{ 'a'|replace('a', f()) }}", 1, True),
    ("filter_chain", "{{ [1]|map('string')|join(f()) }}", 1, True),
    ("test_arg", "{{ 1 is eq(f()) }}", 1, True),
    ("test_arg_select", "{{ [1]|select('eq', f())|list }}", 1, True),
    ("test_arg_selectattr", "{{ [o]|selectattr('f', 'eq', f())|list|length }}", 1, True),
    ("test_input", "{{ f() is none }}", 1, True),
    ("nested_arg", "{{ ident(f()) }}", 1, True),
    ("nested_kwarg", "{{ ident(x=f()) }}", 1, True),
    ("nested_star", "{{ ident(*[f()]) }}", 1, True),
    # ---- the call is never evaluated
    ("dead_and", "{{ false and f() }}", 0, False),
    ("dead_or", "{{ true or f() }}", 0, False),
    ("dead_condexpr", "{{ 1 if true else f() }}", 0, False),
    ("dead_if", "{% if false %}{{ f() }}{% endif %}", 0, False),
    ("dead_macro", "{% macro m() %}{{ f() }}{% endmacro %}", 0, False),
    ("dead_loop", "{% for x in [] %}{{ f() }}{% endfor %}", 0, False),
    ("no_call_test", "{{ f is callable }}", 0, False),
    ("no_call_container", "{{ [f, o.f]|length }}", 0, False),
    ("no_call_macro_pass", "{% macro m(g) %}{{ g is defined }}{% endmacro %}{{ m(f) }}", 0, False),
]
FORM_BY_NAME = {f[0]: f for f in FORMS}
SLICE_FORMS = ["direct", "attr_dot", "dict_sub", "set_alias", "macro_arg", "call_block_callee", "caller_is_f", "loop_var",
               "loop_body", "block_body", "include", "filter_arg_map", "test_arg", "nested_arg", "dead_and"]
A_FORMS = ["direct", "attr_dot", "macro_arg", "call_block_callee", "loop_var", "filter_arg", "list_idx", "with_alias", "dead_or"]  # quick: the first six

_TCACHE: dict = {}


def _template(policy, asyncm, form):
    k = (policy, asyncm, form)
    t = _TCACHE.get(k)
    if t is None:
        t = _TCACHE[k] = _env(policy, asyncm).from_string(FORM_BY_NAME[form][1])
    return t


P: dict = {}
FORMSEL: list = []
KINDSEL: list = []


def setup(param):
    global P, FORMSEL, KINDSEL
    P = dict(param or {})
    del CALLS[:]
    POLICY["allow"] = True
    MARK[0] = P.get("mark", 0) % len(MARKS)
    FORMSEL = list(P.get("forms", []))
    KINDSEL = list(P.get("kinds", KINDS))
    with NoTracing():
        for f in FORMSEL:
            for am in (False, True):
                _template(P["policy"], am, f)


def NFORMS():
    return len(FORMSEL)


def NKINDS():
    return len(KINDSEL)


def _ident(x=None):
    return x


def render_case(policy, asyncm, form, kind, u, a, absent, allow):
    """Render one case; -> (exception or None, number of recorder runs, tags)."""
    t = _template(policy, asyncm, form)
    f, o = make(kind, u, a, absent)
    POLICY["allow"] = allow
    del CALLS[:]
    ctx = dict(f=f, o=o, d={"f": f}, l=[f], getf=lambda: f, ident=_ident)
    exc = None
    try:
        if asyncm:
            drive(t.render_async(**ctx))
        else:
            t.render(**ctx)
    except Exception as e:
        exc = e
    calls = list(CALLS)
    del CALLS[:]
    POLICY["allow"] = True
    return exc, calls


def rejected_by(policy, u, a, allow):
    """The safety predicate of the environment policy, as stated (not the implementation)."""
    if policy in ("sandboxed", "immutable"):
        return u or a
    if policy == "override_only":
        return not allow
    return (not allow) or u or a


def judge(policy, form, rejected, exc, calls):
    _n, _src, n_ok, attempted = FORM_BY_NAME[form]
    if any(c[0].endswith(":NOCTX") for c in calls):
        return False
    if attempted and rejected:
        # SecurityError before the callable runs
        return isinstance(exc, SecurityError) and len(calls) == 0
    # accepted (or never evaluated): no SecurityError; vacuity guard: the form really reached the callable
    if exc is not None:
        return False
    return len(calls) == n_ok


def unsafe_never_runs(form: int, kind: int, asyncm: bool, u: bool, a: bool, x: bool) -> bool:
    """
    pre: 0 <= form < NFORMS() and 0 <= kind < NKINDS()
    pre: P.get("xfree", True) or not x
    pre: P.get("afree", True) or not a
    post: _
    """
    fname = FORMSEL[pick(form, len(FORMSEL))]
    kname = KINDSEL[pick(kind, len(KINDSEL))]
    am, uu, aa, xx = pickb(asyncm), pickb(u), pickb(a), pickb(x)
    with NoTracing():
        policy = P["policy"]
        if kname == "afn" and not am:
            return True  # a coroutine function's body never runs in a sync render
        if policy in ("sandboxed", "immutable"):
            absent, allow = xx, True
        else:
            absent, allow = False, not xx
        exc, calls = render_case(policy, am, fname, kname, uu, aa, absent, allow)
        return judge(policy, fname, rejected_by(policy, uu, aa, allow), exc, calls)


def flags_symbolic(form: int, kind: int, asyncm: bool, u: bool, a: bool, allow: bool) -> bool:
    """
    pre: 0 <= form < NFORMS() and 0 <= kind < NKINDS()
    post: _
    """
    # selectors decoded; the three bools stay symbolic and are decided inside the real is_safe_callable
    fname = FORMSEL[pick(form, len(FORMSEL))]
    kname = KINDSEL[pick(kind, len(KINDSEL))]
    am = pickb(asyncm)
    policy = P["policy"]
    exc, calls = render_case(policy, am, fname, kname, u, a, False, allow)
    rej = rejected_by(policy, u, a, allow)
    if rej:
        rej = True
    else:
        rej = False
    return judge(policy, fname, rej, exc, calls)


# ------------------------------------------------------------------------------------ conditions
def conditions(tier, seed):
    th = tier == "thorough"
    to = 300 if th else 60
    out = []
    names = [f[0] for f in FORMS]
    for policy in ("sandboxed", "immutable", "override_only", "override_and"):
        forms = names
        if policy == "immutable" and not th:
            forms = SLICE_FORMS
        # quick: the third bool (flag absent vs False / policy bool) stays free, alters_data is fixed False for the
        # override policies and 'absent' fixed for the default ones
        xfree = th or policy in ("override_only", "override_and")
        afree = th or policy in ("sandboxed", "immutable")
        per_form = len(KINDS) * 2 * 2 * (2 if xfree else 1) * (2 if afree else 1)
        size = max(1, (1900 if th else 1800) // per_form)
        nchunks = -(-len(forms) // size)
        size = -(-len(forms) // nchunks)
        for ci in range(nchunks):
            fc = forms[ci * size:(ci + 1) * size]
            if not fc:
                continue
            third = "flag absent/False" if policy in ("sandboxed", "immutable") else "policy bool"
            out.append(Cond(
                f"unsafe never runs[{policy},forms {ci * size}..{ci * size + len(fc) - 1}]", "unsafe_never_runs", mode="B",
                param={"policy": policy, "forms": fc, "kinds": KINDS, "xfree": xfree, "afree": afree, "mark": (ci + seed) % len(MARKS)}, timeout=to,
                witnesses=[[0, 0, False, False, False, False], [len(fc) - 1, 6, True, True, False, False],
                           [len(fc) // 2, 2, False, False, afree, xfree], [1 % len(fc), 9, True, False, False, xfree]],
                bounds=f"marker value {MARKS[(ci + seed) % len(MARKS)]!r}; forms {fc} x callable kinds {KINDS} x sync/async x unsafe_callable x "
                       f"{'alters_data' if afree else 'alters_data=False'} x {third if xfree else 'flags present'}"))
    af, ak = (A_FORMS, A_KINDS) if th else (A_FORMS[:6], A_KINDS[:4])
    for policy in ("sandboxed", "override_only", "override_and"):
        out.append(Cond(
            f"flags symbolic through is_safe_callable[{policy}]", "flags_symbolic", mode="A",
            param={"policy": policy, "forms": af, "kinds": ak}, timeout=to,
            witnesses=[[0, 0, False, True, False, True], [3, 3, True, False, False, False], [5, 2, False, False, True, True],
                       [4, 1, True, True, True, False]],
            bounds=f"forms {af} x kinds {ak} x sync/async (decoded); unsafe_callable, alters_data and the "
                   f"override's policy bool are symbolic bools stored on the callable / consulted by the override"))
    return out
