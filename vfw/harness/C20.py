"""C20 — sandbox operator interception sees every intercepted operator application.

A ``SandboxedEnvironment`` subclass is built per configuration: membership of
each of the 7 binary operators in ``intercepted_binops`` and of the 2 unary
operators in ``intercepted_unops`` is a symbolic bool (decoded by explicit
forks; the template is then compiled *natively* for that configuration, since
the sets are consulted by the compiler and by ``as_const``).  ``call_binop`` /
``call_unop`` are overridden to log ``(arity, op, operands)``, delegate to the
real method and tag numeric results with ``+ 1000``.

Oracle: a reference evaluator over the arithmetic sub-expressions of each
template skeleton (trees read from jinja's own parser under a plain
environment; operator symbols come from a node-class table of this file).  It
applies Python's operators in evaluation order, logging and tagging exactly the
applications whose (arity, operator) is intercepted -- constant-only
applications included, so compile-time folding must be refused for them.  The
control flow around the arithmetic (if / loop filter / macro default / filter
argument / list literal / conditional expression / short circuit) is written
out per skeleton in Python.

Assertion: hook log == reference log (same operands, same order, nothing else
logged -- note + and - exist in both arities), values observed through ``rec``
== reference values (hook results propagated), same exception class if any.

* ``ops_ok[<skeleton>]`` mode A+B: symbolic bools for every (arity, operator)
  whose symbol occurs in the skeleton (both arities for + and -), one more
  symbolic bool for all remaining operators together, operands ``a b c`` are
  arbitrary ints flowing through the rendered code.
* ``cfg_ok[<group>]`` mode B: all 2**9 configurations x every skeleton of the
  group (incl. constant-only ones) x a table of concrete operand triples
  (zero divisors, negative values), rendered natively; types compared too.
"""
from jinja2 import Environment, nodes
from jinja2.sandbox import ImmutableSandboxedEnvironment, SandboxedEnvironment
from vfw.core import Cond, pickb
from vfw.support import NoTracing, Rec, drive

FUNCTIONS = [
    "jinja2.compiler._make_binop/_make_unop (sandbox branch), optimizeconst, CodeGenerator.visit_* for the skeleton statements",
    "jinja2.nodes.BinExpr.as_const / UnaryExpr.as_const (refusal to fold intercepted operators), Filter/List/Compare/CondExpr.as_const",
    "jinja2.optimizer.Optimizer", "jinja2.sandbox.SandboxedEnvironment.call_binop/call_unop, binop_table/unop_table, intercepted_binops/unops",
    "generated render code for output, if, for-with-filter, macro defaults, set, filter and call arguments, list/dict literals",
    "Environment.compile_expression",
]
OUTSIDE = ["templates other than the listed skeletons", "operand types other than ints (mode A) / the concrete operand table incl. str and list constants (mode B)",
           "true division with symbolic operands (CrossHair cannot decide float results: `/` is covered for the concrete operand table under all 512 configurations only)",
           "symbolic exponents of ** (only constant exponents with symbolic base; variable exponents in the concrete table)",
           "the shape of the parse tree is taken from jinja's parser (parser properties are checked elsewhere)"]
ASSUMPTIONS = ["templates are compiled natively after the configuration has been decoded by forks; only rendering runs under the solver",
               "Python's own operators are the reference semantics of non-intercepted operators"]

BINOPS = ["+", "-", "*", "/", "//", "%", "**"]
UNOPS = ["+", "-"]
PAIRS = [("b", op) for op in BINOPS] + [("u", op) for op in UNOPS]
_BIN = {nodes.Add: "+", nodes.Sub: "-", nodes.Mul: "*", nodes.Div: "/", nodes.FloorDiv: "//", nodes.Mod: "%", nodes.Pow: "**"}
_UN = {nodes.Neg: "-", nodes.Pos: "+"}
TAG = 1000

LOG = []


def _tag(x):
    if isinstance(x, (int, float)) and not isinstance(x, bool):
        return x + TAG
    return x


class _HookMixin:
    def call_binop(self, context, operator, left, right):
        LOG.append(("b", operator, left, right))
        return _tag(super().call_binop(context, operator, left, right))

    def call_unop(self, context, operator, arg):
        LOG.append(("u", operator, arg))
        return _tag(super().call_unop(context, operator, arg))


class HookEnv(_HookMixin, SandboxedEnvironment):
    pass


class ImmHookEnv(_HookMixin, ImmutableSandboxedEnvironment):
    pass


# ------------------------------------------------------------------ reference evaluator
def _tree(n):
    if isinstance(n, nodes.Const):
        return ("c", n.value)
    if isinstance(n, nodes.Name):
        return ("v", n.name)
    if type(n) in _BIN:
        return ("b", _BIN[type(n)], _tree(n.left), _tree(n.right))
    if type(n) in _UN:
        return ("u", _UN[type(n)], _tree(n.node))
    if isinstance(n, nodes.List):
        return ("l", [_tree(i) for i in n.items])
    raise TypeError("unsupported node in arithmetic sub-expression: %r" % (n,))


_PLAIN = Environment()


def parse_expr(src):
    out = _PLAIN.parse("{{ %s }}" % src).body[0]
    return _tree(out.nodes[0])


def _pairs_of(t, acc):
    if t[0] == "b":
        acc.add(t[1])
        _pairs_of(t[2], acc)
        _pairs_of(t[3], acc)
    elif t[0] == "u":
        acc.add(t[1])
        _pairs_of(t[2], acc)
    elif t[0] == "l":
        for i in t[1]:
            _pairs_of(i, acc)


def _bin(op, x, y):
    if op == "+":
        return x + y
    if op == "-":
        return x - y
    if op == "*":
        return x * y
    if op == "/":
        return x / y
    if op == "//":
        return x // y
    if op == "%":
        return x % y
    return x ** y


def ev(t, v, cfg, log):
    """Reference: evaluation order left-to-right, Python's operators; intercepted applications logged and tagged."""
    k = t[0]
    if k == "c":
        return t[1]
    if k == "v":
        return v[t[1]]
    if k == "l":
        return [ev(i, v, cfg, log) for i in t[1]]
    if k == "u":
        x = ev(t[2], v, cfg, log)
        if cfg[("u", t[1])]:
            log.append(("u", t[1], x))
            return _tag(-x if t[1] == "-" else +x)
        return -x if t[1] == "-" else +x
    x = ev(t[2], v, cfg, log)
    y = ev(t[3], v, cfg, log)
    if cfg[("b", t[1])]:
        log.append(("b", t[1], x, y))
        return _tag(_bin(t[1], x, y))
    return _bin(t[1], x, y)


# ------------------------------------------------------------------ skeletons
# name -> (template source with @i placeholders | None for compile_expression, [arithmetic sub-expressions], ref)
# ref(E, v) returns the expected rec log; E[i](bindings) evaluates sub-expression i (logging into the expected hook log).

def _r_out(E, v):
    return [("r", E[0](v))]


def _r_filterarg(E, v):
    return [("r", E[0](v), E[1](v))]


def _r_macro(E, v):
    # {% macro m(x, p=@0) %}{{ rec('p', @1) }}{% endmacro %}{{ m(a) }}{{ m(b, c) }}{{ m(p=a, x=c) }}
    out = []
    p = E[0](v)  # default evaluated because p is missing
    out.append(("p", E[1](dict(v, x=v["a"], p=p))))
    out.append(("p", E[1](dict(v, x=v["b"], p=v["c"]))))
    out.append(("p", E[1](dict(v, x=v["c"], p=v["a"]))))
    return out


def _r_loop(E, v):
    # {% for i in xs if @0 > 0 %}{{ rec('i', @1) }}{% else %}{{ rec('e', @2) }}{% endfor %}
    out = []
    n = 0
    for i in v["xs"]:
        if E[0](dict(v, i=i)) > 0:
            n += 1
            out.append(("i", E[1](dict(v, i=i))))
    if n == 0:
        out.append(("e", E[2](v)))
    return out


def _r_if(E, v):
    # {% if @0 > @1 %}{{ rec('t', @2) }}{% elif @3 %}{{ rec('m', @4) }}{% else %}{{ rec('f', @5) }}{% endif %}
    if E[0](v) > E[1](v):
        return [("t", E[2](v))]
    if E[3](v):
        return [("m", E[4](v))]
    return [("f", E[5](v))]


def _r_list(E, v):
    # {% set l = [@0, @1, @2] %}{{ rec('r', l, {'k': @3}['k'], (@4, 1)[0]) }}
    l = [E[0](v), E[1](v), E[2](v)]
    return [("r", l, E[3](v), E[4](v))]


def _r_cond(E, v):
    # {{ rec('r', (@0) if a > b else (@1), a and (@2), b or (@3)) }}
    x = E[0](v) if v["a"] > v["b"] else E[1](v)
    y = v["a"] and E[2](v)
    z = v["b"] or E[3](v)
    return [("r", x, y, z)]


def _r_set(E, v):
    # {% set x = @0 %}{{ rec('r', @1, kw(k=@2), kw(*[@3])) }}
    x = E[0](v)
    return [("r", E[1](dict(v, x=x)), E[2](v), E[3](v))]


def _r_test(E, v):
    # {{ rec('r', (@0) is odd, (@1) is divisibleby(@2), (@3) in [@4, 5]) }}
    a0 = E[0](v)
    r0 = a0 % 2 == 1
    a1 = E[1](v)
    a2 = E[2](v)
    r1 = a1 % a2 == 0
    a3 = E[3](v)
    r2 = a3 in [E[4](v), 5]
    return [("r", r0, r1, r2)]


OUT = "{{ rec('r', @0) }}"
SKELS = {
    # symbolic operands (mode A) ------------------------------------------------
    "addsub": (OUT, ["a + b - c"], _r_out),
    "unary": (OUT, ["-a + +b - -3"], _r_out),
    "mixed": (OUT, ["a * 3 + 2 * 4 - b"], _r_out),
    "divmod": (OUT, ["a // b + a % b"], _r_out),
    "truediv": (OUT, ["(a + 1) / b"], _r_out),
    "pow": (OUT, ["a ** 2 - 2 ** 3"], _r_out),
    "nested": (OUT, ["-((a + 1) * 2 - (b - 2)) // 3"], _r_out),
    "expr": (None, ["a - 2 * 3 + -b"], _r_out),
    "filterarg": ("{{ rec('r', none|default(@0, true), none|default(@1, true)|abs) }}", ["a * 2 + 1", "2 * 3 + 1"], _r_filterarg),
    "macrodef": ("{% macro m(x, p=@0) %}{{ rec('p', @1) }}{% endmacro %}{{ m(a) }}{{ m(b, c) }}{{ m(p=a, x=c) }}",
                 ["b * 2 - 1", "p + x"], _r_macro),
    "loopfilter": ("{% for i in xs if @0 > 0 %}{{ rec('i', @1) }}{% else %}{{ rec('e', @2) }}{% endfor %}",
                   ["i - c", "i * 2", "-c"], _r_loop),
    "ifcond": ("{% if @0 > @1 %}{{ rec('t', @2) }}{% elif @3 %}{{ rec('m', @4) }}{% else %}{{ rec('f', @5) }}{% endif %}",
               ["a + 1", "b * 2", "a - b", "1 - 1 + c", "-a", "2 * 3"], _r_if),
    "listlit": ("{% set l = [@0, @1, @2] %}{{ rec('r', l, {'k': @3}['k'], (@4, 1)[0]) }}",
                ["a + 1", "2 * 3", "-b", "c - 1", "+c"], _r_list),
    "condexpr": ("{{ rec('r', (@0) if a > b else (@1), a and (@2), b or (@3)) }}", ["a + 1", "b - 1", "a * 2", "-c"], _r_cond),
    "setcall": ("{% set x = @0 %}{{ rec('r', @1, kw(k=@2), kw(*[@3])) }}", ["a + 1", "x * 2", "b - 1", "2 - 3"], _r_set),
    "tests": ("{{ rec('r', (@0) is odd, (@1) is divisibleby(@2), (@3) in [@4, 5]) }}", ["a + 1", "b * 2", "1 + 1", "c - 1", "2 * 2"], _r_test),
    # constant-only / concrete-only (mode B groups) ----------------------------------
    "const1": (OUT, ["2 + 3 * 4 - 10"], _r_out),
    "const2": (OUT, ["7 // 2 + 7 % 4 - 1 / 4"], _r_out),
    "const3": (OUT, ["-(2 ** 3) / 4 + +5 - -3"], _r_out),
    "const4": (OUT, ["2 ** 3 ** 2 % 7 * (1 - 3)"], _r_out),
    "conststr": (OUT, ["'ab' * 2 + 'c'"], _r_out),
    "constlist": (OUT, ["[1] * 2 + [2 - 1]"], _r_out),
    "constzero": (OUT, ["1 + 2 // (3 - 3)"], _r_out),
    "varpow": (OUT, ["b ** c + a ** -1"], _r_out),
    "fmt": (OUT, ["'<%s>' % 'x' + 'y' * 2"], _r_out),
}

# "truediv" is not in MODE_A: CrossHair cannot decide int/int true division (float results), see OUTSIDE
MODE_A = ["addsub", "unary", "mixed", "divmod", "pow", "nested", "expr", "filterarg", "macrodef", "loopfilter",
          "ifcond", "listlit", "condexpr", "setcall", "tests"]
GROUPS = [
    ["addsub", "unary", "mixed", "divmod", "const1", "const2", "conststr"],
    ["truediv", "pow", "nested", "expr", "const3", "const4", "constlist"],
    ["filterarg", "macrodef", "loopfilter", "ifcond", "constzero"],
    ["listlit", "condexpr", "setcall", "tests", "varpow", "fmt"],
]
OPERANDS = [(5, 3, 2), (0, 0, 0), (-7, 2, -3), (4, 0, 1), (2, -1, 0), (1, 1, 1), (-1, -2, 3), (1000, 7, -1)]

TREES = {k: [parse_expr(e) for e in v[1]] for k, v in SKELS.items()}


def _symbols(name):
    acc = set()
    for t in TREES[name]:
        _pairs_of(t, acc)
    return acc


def relevant(name):
    """(arity, op) pairs whose symbol occurs in the skeleton; + and - count for both arities."""
    syms = _symbols(name)
    return [p for p in PAIRS if p[1] in syms]


def source(name):
    src, exprs, _ = SKELS[name]
    if src is None:
        return exprs[0]
    plain = src == OUT  # the plain output skeleton keeps the expression unparenthesised
    for i in reversed(range(len(exprs))):
        src = src.replace("@%d" % i, exprs[i] if (plain or name in RAW) else "(" + exprs[i] + ")")
    return src


P = {}
class Box:
    """Subscriptable by anything: shows which index or slice bounds reached it."""

    def __getitem__(self, k):
        if isinstance(k, slice):
            return ("slice", k.start, k.stop, k.step)
        return ("item", k)


BOX = Box()


def _r_sub(E, v):
    # {{ rec('r', bx[@0], bx[@1:], bx[:@2], bx[::@3], bx[@4, @5], bx[@6], bx[@7:@8]) }}
    return [("r", BOX[E[0](v)], BOX[E[1](v):], BOX[:E[2](v)], BOX[::E[3](v)], BOX[E[4](v), E[5](v)], BOX[E[6](v)], BOX[E[7](v):E[8](v)])]


SKELS["subscript"] = ("{{ rec('r', bx[@0], bx[@1:], bx[:@2], bx[::@3], bx[@4, @5], bx[@6], bx[@7:@8]) }}",
                      ["-1", "-2", "-1", "-1", "0", "-1", "-a", "+2", "1 - 2"], _r_sub)
RAW = {"subscript"}   # placeholders substituted without parentheses: literal operands directly in subscript position
MODE_A.append("subscript")
GROUPS[3].append("subscript")
TREES["subscript"] = [parse_expr(e) for e in SKELS["subscript"][1]]

SK = "addsub"
REL = []
CACHE = {}
ENVCACHE = {}


def _env_for(key, asyncm, base):
    ek = (key, asyncm, base)
    env = ENVCACHE.get(ek)
    if env is None:
        cls = type("Cfg", (ImmHookEnv if base == "imm" else HookEnv,), {
            "intercepted_binops": frozenset(op for (ar, op), on in zip(PAIRS, key) if ar == "b" and on),
            "intercepted_unops": frozenset(op for (ar, op), on in zip(PAIRS, key) if ar == "u" and on),
        })
        env = ENVCACHE[ek] = cls(enable_async=asyncm)
    return env


def compiled(name, key):
    """Native compilation of skeleton `name` for configuration `key` (tuple of 9 bools in PAIRS order)."""
    asyncm = bool(P.get("asyncm"))
    base = P.get("base", "sandbox")
    ck = (name, key, asyncm, base, bool(P.get("foreign")))
    t = CACHE.get(ck)
    if t is None:
        env = _env_for(key, asyncm, base)
        if SKELS[name][0] is None:
            t = ("expr", env.compile_expression(source(name), undefined_to_none=False))
        elif P.get("foreign"):
            # the syntax tree comes from another environment's parser (a plain Environment); the sandbox only compiles it
            t = ("tpl", env.from_string(_PLAIN.parse(source(name))))
        else:
            t = ("tpl", env.from_string(source(name)))
        CACHE[ck] = t
    return t


def _kw(*a, **k):
    return a[0] if a else k["k"]


def run(name, key, a, b, c):
    """(outcome, rec log, hook log) of the real code and of the reference."""
    with NoTracing():
        kind, t = compiled(name, key)
    cfg = dict(zip(PAIRS, key))
    v = {"a": a, "b": b, "c": c, "xs": [a, b, c]}
    # reference
    elog = []
    E = [(lambda tr: (lambda vv: ev(tr, vv, cfg, elog)))(tr) for tr in TREES[name]]
    try:
        erec = SKELS[name][2](E, v)
        eout = None
    except Exception as e:
        erec = None
        eout = type(e).__name__
    # real
    del LOG[:]
    rec = Rec()
    out = None
    try:
        if kind == "expr":
            rec("r", t(a=a, b=b, c=c))
        elif P.get("asyncm"):
            drive(t.render_async(a=a, b=b, c=c, xs=[a, b, c], rec=rec, kw=_kw, bx=BOX))
        else:
            t.render(a=a, b=b, c=c, xs=[a, b, c], rec=rec, kw=_kw, bx=BOX)
    except Exception as e:
        out = type(e).__name__
    return (out, rec.log, list(LOG)), (eout, erec, elog)


def _same(real, ref):
    out, rlog, hlog = real
    eout, erec, elog = ref
    if out != eout:
        return False
    if hlog != elog:
        return False
    if eout is None and rlog != erec:
        return False
    return True


def _same_strict(real, ref):
    """Native comparison: equal values and equal types (5 vs 5.0 would otherwise compare equal)."""
    if not _same(real, ref):
        return False
    if repr(real[2]) != repr(ref[2]):
        return False
    if ref[0] is None and repr(real[1]) != repr(ref[1]):
        return False
    return True


# ------------------------------------------------------------------ conditions
def NREL():
    return len(REL)


def ops_ok(s0: bool, s1: bool, s2: bool, s3: bool, s4: bool, s5: bool, oth: bool, a: int, b: int, c: int) -> bool:
    """
    pre: NREL() <= 6
    post: _
    """
    # s_i: is the i-th relevant (arity, operator) pair of the skeleton intercepted (slots beyond NREL() are unused);
    # oth: are all the other operators intercepted
    sel = (s0, s1, s2, s3, s4, s5)
    on = {}
    for i, p in enumerate(REL):
        on[p] = pickb(sel[i])
    rest = pickb(oth)
    key = tuple(on.get(p, rest) for p in PAIRS)
    real, ref = run(SK, key, a, b, c)
    return _same(real, ref)


def cfg_ok(b_add: bool, b_sub: bool, b_mul: bool, b_div: bool, b_floordiv: bool, b_mod: bool, b_pow: bool, u_pos: bool, u_neg: bool) -> bool:
    """
    pre: True
    post: _
    """
    # one symbolic bool per interceptable operator, in PAIRS order: 7 binary, then the 2 unary ones
    key = (pickb(b_add), pickb(b_sub), pickb(b_mul), pickb(b_div), pickb(b_floordiv), pickb(b_mod), pickb(b_pow), pickb(u_pos), pickb(u_neg))
    with NoTracing():
        for name in GROUPS[P.get("group", 0)]:
            if SKELS[name][0] is None and P.get("asyncm"):
                continue  # compile_expression is a sync-only API
            for (a, b, c) in OPERANDS:
                real, ref = run(name, key, a, b, c)
                if not _same_strict(real, ref):
                    return False
        return True


def setup(param):
    global P, SK, REL
    P = dict(param or {})
    SK = P.get("skel", "addsub")
    REL = relevant(SK)
    CACHE.clear()
    ENVCACHE.clear()
    del LOG[:]


def conditions(tier, seed):
    th = tier == "thorough"
    out = []
    variants = [(False, "sandbox")] if not th else [(False, "sandbox"), (True, "sandbox"), (False, "imm")]
    for asyncm, base in variants:
        suffix = "" if (asyncm, base) == (False, "sandbox") else (",async" if asyncm else ",immutable")
        for name in MODE_A:
            if SKELS[name][0] is None and asyncm:
                continue  # compile_expression is a sync-only API
            rel = relevant(name)
            n = len(rel)
            wit = [[False] * 6 + [False, 5, 3, 2], [True] * 6 + [True, -7, 2, -3], [i % 2 == 0 for i in range(6)] + [False, 4, 0, 1],
                   [i % 2 == 1 for i in range(6)] + [True, 0, 1, 0]]
            out.append(Cond(f"ops_ok[{name}{suffix}]", "ops_ok", mode="A", param={"skel": name, "asyncm": asyncm, "base": base},
                            timeout=300 if th else 60, witnesses=wit,
                            bounds=f"skeleton {source(name)!r}: every subset of the {n} (arity, operator) pairs {rel} intercepted, all other "
                                   "operators jointly on/off, operands a, b, c arbitrary ints"))
        for g in range(len(GROUPS)):
            if th or (g + seed) % 2 == 0:
                out.append(Cond(f"cfg_ok[group{g}{suffix},tree parsed by a plain Environment]", "cfg_ok", mode="B", param={"group": g, "asyncm": asyncm, "base": base, "foreign": True},
                                timeout=300 if th else 90, witnesses=[[False] * 9, [True] * 9, [True, False, True, False, True, False, True, False, True]],
                                bounds=f"as cfg_ok[group{g}], but the template is handed to the sandbox as a syntax tree produced by Environment().parse"))
            out.append(Cond(f"cfg_ok[group{g}{suffix}]", "cfg_ok", mode="B", param={"group": g, "asyncm": asyncm, "base": base},
                            timeout=300 if th else 90,
                            witnesses=[[False] * 9, [True] * 9, [True, False, True, False, True, False, True, False, True],
                                       [False, True, False, False, False, True, False, True, False]],
                            bounds=f"all 2**9 subsets of interceptable binary/unary operators x skeletons {GROUPS[g]} x {len(OPERANDS)} concrete "
                                   "operand triples"))
    return out
