"""C15 — autoescaping never lets unescaped data or string literals into the output.

Mode B.  A data string is built from a small alphabet of HTML metacharacters and filler by selectors that are
decoded by explicit forks under tracing.  On every path a *group* of template bodies (tables below: every
built-in filter and test from the live registries applied to several subject shapes, argumented filter forms
with data-controlled bool/int/string arguments, operators and string methods with safe operands on either
side, macros / call blocks / block references / super / set blocks / loops / include / import / trans blocks,
``{% filter %}`` and ``{% set x | f %}`` blocks for every registered filter, filter chains) is instantiated twice
— the subject placeholder ``@`` becomes the context variable ``u`` (plain data) or a *string literal written in
the template source* — compiled and rendered natively by the real lexer/parser/compiler/runtime under one
autoescape *wrapper* (static, ``select_autoescape`` by string / by template name, ``{% autoescape true %}`` and
runtime-decided ``{% autoescape flag %}`` inside a non-escaping or escaping environment, async).

Oracle (exactly the property): template text is metacharacter-free, so after removing the markup the template
itself marks safe (the fixed fragment ``<br>``, parenthesised disabled-autoescape regions) and the markup that
urlize / xmlattr / tojson are documented to emit, the output contains no raw ``<`` ``>`` ``"`` ``'`` and no ``&`` that
does not start a character reference (the alphabet has no ``;`` so data cannot spell a reference itself).  Bodies
that apply a second, position- or case-sensitive operation to already escaped markup are checked for the four
characters only (such operations may legitimately cut or re-case a character reference).

``jinja2.utils.select_autoescape`` itself is checked on an exhaustive mode-B table of template names (selector function and what the
environment then does) and by search-only conditions over a symbolic name string (``str.lower`` realises it, so these cannot confirm).
"""
import re
from typing import List

from jinja2 import DebugUndefined, DictLoader, Environment, nodes, select_autoescape
from jinja2.filters import FILTERS
from jinja2.tests import TESTS
from vfw.core import Cond, pick, pickb
from vfw.support import NoTracing, drive

FUNCTIONS = [
    "jinja2.compiler.CodeGenerator.visit_Output/_output_child_to_const/_output_child_pre (static, volatile and compile-time folded escaping)",
    "jinja2.compiler: visit_Concat/markup_join, visit_Filter, visit_FilterBlock, visit_AssignBlock, visit_Macro/macro_body/return_buffer_contents, "
    "visit_CallBlock, visit_Block, visit_Include, visit_Import/FromImport, visit_ScopedEvalContextModifier, visit_MarkSafe*",
    "jinja2.optimizer / nodes.*.as_const (constant folding of literal subjects)",
    "jinja2.runtime: Macro.__call__/_invoke, BlockReference.__call__, markup_join, LoopContext, TemplateReference",
    "jinja2.environment.TemplateModule.__html__/__str__", "jinja2.filters.* (every entry of FILTERS), jinja2.tests.* (every entry of TESTS)",
    "jinja2.ext.InternationalizationExtension (trans blocks, newstyle and oldstyle)", "jinja2.utils.select_autoescape", "markupsafe.Markup / escape",
]
OUTSIDE = [
    "data strings longer than the stated number of alphabet symbols; characters outside the alphabet",
    "template bodies outside the tables BODIES (the enumeration of programs is a stated bound, not solver-quantified)",
    "user-defined filters/tests/extensions/finalize; gettext calls and the safe filter on data (excluded by the property)",
    "structure of urlize/xmlattr/tojson markup beyond 'no raw metacharacter inside' (that is property C24)",
]
ASSUMPTIONS = [
    "templates are compiled and rendered natively (inside NoTracing) on the decoded data",
    "the fragment '<br>' and parenthesised regions in outputs can only come from template-marked safe text (alphabet has no b, r, parentheses)",
]
SUSPECTED_DEFECTS = [
    "D1 compiler._output_child_to_const folds a constant output expression with the *compile-time* autoescape flag although the frame is volatile: "
    "Environment(autoescape=False).from_string('{% autoescape flag %}{{ \"<a>\" }}{% endautoescape %}').render(flag=True) == '<a>' "
    "(also '{{ \"<a>\" ~ \"<b>\" }}', '{{ \"<a>\" * 2 }}', '{{ (\"<a>\", 1) }}', '{{ \"<a>\" if true }}'); excluded: literal-only output "
    "expressions inside a runtime-decided autoescape block of a non-escaping environment (predicate _const_output_in_volatile)",
    "D2 compiler.visit_AssignBlock wraps the result of a set-block filter in Markup without escaping it: "
    "Environment(autoescape=True).from_string('{% set x | striptags %}{{ u }}{% endset %}{{ x }}').render(u='<b>') == '<b>' "
    "(striptags un-escapes; likewise any filter returning a plain str from the captured markup); excluded: bodies tagged D2",
    "D3 (repaired in /repo by 'fix: indent filter escapes a plain string width for safe input'; the bodies are checked again) filters.do_indent wrapped a "
    "plain-string width in Markup when the receiver was Markup: '{{ (\"a\\na\"|safe)|indent(u) }}' with u='<s>' gave 'a\\n<s>a'",
    "D4 runtime.Macro.__call__ marks the result safe according to the *caller's* autoescape flag although the macro body was compiled without "
    "escaping: env = Environment(autoescape=select_autoescape(), loader=DictLoader({'lib.txt': '{% macro m(x) %}[{{ x }}]{% endmacro %}', "
    "'a.html': '{% import \"lib.txt\" as lib %}{{ lib.m(u) }}'})); env.get_template('a.html').render(u='<b>') == '[<b>]'; excluded: bodies tagged D4",
    "D5 a {% block %} nested inside an {% autoescape true|flag %} region of a non-escaping template is compiled with the template-level flag: "
    "Environment(autoescape=False).from_string('{% autoescape true %}{% block b %}{{ u }}{% endblock %}{% endautoescape %}').render(u='<x>') == '<x>' "
    "(and {{ self.b() }} there marks that text safe); excluded: bodies tagged D5",
]

ALPHA = ["<", ">", "&", '"', "'", "a", " "]
ALPHA_T = ALPHA + ["/"]
SAFE_FRAG = "<br>"
_BAD_AMP = re.compile(r"&(?!(?:amp|lt|gt|quot|#34|#39);)")
_BAD_AMP_I = re.compile(r"&(?!(?:amp|lt|gt|quot|#34|#39);)", re.I)
_RAW = re.compile(r"[<>\"']")
_PAREN = re.compile(r"\([^()]*\)")
_ANCHOR = re.compile(r'<a href="[^"<>\']*"(?: rel="[^"<>\']*")?(?: target="[^"<>\']*")?>|</a>')
_XMLATTR = re.compile(r'(?<=[\[ ])([^\s"\'<>=/\[\]]*)="([^"\'<>]*)"(?=[\] ])')
_CUT = re.compile(r"&[a-z#0-9]{0,5}(?=\.\.\.</a>)")

P = {}
_LIT_CACHE = {}


def setup(param):
    P.clear()
    P.update(param or {})
    _LIT_CACHE.clear()


class Leak(Exception):
    pass


# ------------------------------------------------------------------------------------------------ bodies
class B:
    __slots__ = ("src", "kind", "tag", "flags")

    def __init__(self, src, kind="", tag="", flags=False):
        self.src = src          # '@' = subject (data variable u / literal), optional wrapper insertion marks « »
        self.kind = kind        # "" strong / "w" weak (four characters only) / urlize / xmlattr / tojson
        self.tag = tag          # "" or D2/D4/D5: known defect on the unchanged tree (skipped, see SUSPECTED_DEFECTS)
        self.flags = flags      # uses b1 / n


def _kind_of(name):
    return name if name in ("urlize", "xmlattr", "tojson") else ""


SHAPES = ["@", '[@, "a"]', '{"k": @}', '[{"k": @}]', "[[@, @]]", '{@: @}']
FILTER_NAMES = sorted(n for n in FILTERS if n != "safe")      # safe on data = explicit marking, excluded by the property
TEST_NAMES = sorted(TESTS)

G = {}
# every registered filter without arguments on six subject shapes
G["sweep"] = [B("[{{ %s|%s }}]" % (sh, f), _kind_of(f)) for f in FILTER_NAMES for sh in SHAPES]
# every registered test: as test expression and as select/reject argument (one-argument tests get the data as argument)
G["tests"] = (
    [B("[{{ @ is %s }}]" % t) for t in TEST_NAMES if t.isidentifier()]
    + [B("[{{ @ is %s(@) }}]" % t) for t in TEST_NAMES if t.isidentifier()]
    + [B('[{{ [@, "a", 1, none]|select("%s")|join("-") }}]' % t) for t in TEST_NAMES]
    + [B('[{{ [@, "a", 1]|reject("%s", @)|join(@) }}]' % t) for t in TEST_NAMES]
    + [B('[{{ [{"k": @}, {"k": 1}]|selectattr("k", "%s")|map(attribute="k")|join("-") }}]' % t) for t in TEST_NAMES]
)
G["args"] = [B(s, k, t, True) for s, k, t in [
    ("[{{ @|indent(n, b1, b1) }}]", "", ""),
    ('[{{ (@ ~ "\\n\\n" ~ @)|indent(n + 1, b1, not b1) }}]', "", ""),
    ('[{{ "a\\na"|indent(@, b1) }}]', "", ""),
    ('[{{ ("a\\na"|safe)|indent(@, b1) }}]', "", ""),
    ('[{{ ("a\\na"|safe)|indent(n, b1) ~ @ }}]', "", ""),
    ("[{{ @|truncate(n, b1, @, 0) }}]", "", ""),
    ('[{{ "aaa aaa aaa"|truncate(n + 3, b1, @) }}]', "", ""),
    ('[{{ ("aaa aaa aaa"|safe)|truncate(n + 3, b1, @) }}]', "", ""),
    ("[{{ (@ ~ @ ~ @)|wordwrap(n + 1, b1, @) }}]", "", ""),
    ('[{{ "aaa aaa"|wordwrap(2, b1, @) }}]', "", ""),
    ('[{{ ("aaa aaa"|safe)|wordwrap(2, b1, @) }}]', "", ""),
    ("[{{ @|center(n + 4) }}]", "", ""),
    ('[{{ @|replace("a", @, n) }}]', "", ""),
    ('[{{ "aXa"|replace("X", @) }}]', "", ""),
    ('[{{ @|replace(@, "a") }}]', "", ""),
    ('[{{ ("aXa"|safe)|replace("X", @, n) }}]', "", ""),
    ('[{{ ("aXa"|safe)|replace(@, @) }}]', "", ""),
    ('[{{ [@, "a"]|join(@) }}]', "", ""),
    ('[{{ [@, "<br>"|safe]|join(@) }}]', "", ""),
    ('[{{ ["<br>"|safe, "<br>"|safe]|join(@) }}]', "", ""),
    ('[{{ [{"k": @}, {"k": "<br>"|safe}]|join(@, attribute="k") }}]', "", ""),
    ('[{{ [@, n, none]|join }}]', "", ""),
    ('[{{ "%s-%s"|format(@, n) }}]', "", ""),
    ('[{{ ("<br>%s"|safe)|format(@) }}]', "", ""),
    ('[{{ ("<br>%(x)s"|safe)|format(x=@) }}]', "", ""),
    ('[{{ "%(x)s"|format(x=@) }}]', "", ""),
    ("[{{ @|format(@) }}]", "", ""),
    ("[{{ none|default(@) }}]", "", ""),
    ('[{{ ""|default(@, b1) }}]', "", ""),
    ("[{{ missing|d(@) }}]", "", ""),
    ("[{{ missing.x|default(@) }}]", "", ""),
    ('[{{ @|default("a", b1) }}]', "", ""),
    ("[{{ @|trim(@) }}]", "", ""),
    ('[{{ (" " ~ @ ~ " ")|trim }}]', "", ""),
    ('[{{ (("<br>"|safe) ~ @)|trim("a") }}]', "", ""),
    ('[{{ "x"|int(@) }}]', "", ""),
    ('[{{ "x"|float(@) }}]', "", ""),
    ('[{{ [@, "a", @]|batch(n + 1, @)|list }}]', "", ""),
    ('[{{ [@, "a", "a"]|slice(n + 1, @)|list }}]', "", ""),
    ('{% for row in [@, "a", "a"]|batch(2, @) %}{% for c in row %}[{{ c }}]{% endfor %}{% endfor %}', "", ""),
    ('{% for row in [@, "a", "a"]|slice(2, @) %}{% for c in row %}[{{ c }}]{% endfor %}{% endfor %}', "", ""),
    ('[{{ [@, "a", @]|sort(b1, b1)|join("-") }}]', "", ""),
    ('[{{ [{"k": @, "n": 2}, {"k": "a", "n": 1}]|sort(attribute="n" if b1 else "k")|map(attribute="k")|join("-") }}]', "", ""),
    ('[{{ [{"k": @}]|map(attribute="k")|join }}]', "", ""),
    ('[{{ [@, "a"]|map("upper")|join(@) }}]', "", ""),
    ('[{{ [@, "a"]|map("replace", "a", @)|join }}]', "", ""),
    ('[{{ [{"k": 1}]|map(attribute="zz", default=@)|join }}]', "", ""),
    ('[{{ [@, "a"]|map("e")|join(@) }}]', "", ""),
    ('[{{ [@, "a"]|map("forceescape")|list }}]', "", ""),
    ('[{{ [@, "a"]|unique(b1)|join("-") }}]', "", ""),
    ('[{{ [{"k": @}, {"k": "a"}]|groupby("k")|list }}]', "", ""),
    ('{% for g, xs in [{"k": @}, {"z": 1}]|groupby("k", default=@, case_sensitive=b1) %}[{{ g }}:{{ xs }}:{{ xs[0].k }}]{% endfor %}', "", ""),
    ('[{{ {"k": @, @: "a"}|dictsort(b1, "value" if b1 else "key", not b1) }}]', "", ""),
    ('{% for k, v in {"k": @, @: "a"}|dictsort %}[{{ k }}={{ v }}]{% endfor %}', "", ""),
    ('[{{ {"k": @}|items|list }}]', "", ""),
    ('[{{ [[@], ["a"]]|sum(start=[@]) }}]', "", ""),
    ('[{{ [{"k": @}, {"k": "a"}]|max(attribute="k", case_sensitive=b1) }}]', "", ""),
    ('[{{ [@, "a"]|min(b1) }}]', "", ""),
    ('[{{ @|attr("upper")() }}]', "", ""),
    ('[{{ {"k": @}|attr("get")("k") }}]', "", ""),
    ("[{{ @|urlize(n + 5, b1, @, @) }}]", "urlize", ""),
    ('[{{ ("http://a.aa/" ~ @)|urlize(n + 12, b1, target=@, rel=@) }}]', "urlize", ""),
    ('[{{ ("www.a.aa " ~ @ ~ " a\\x40a.aa")|urlize(none, b1, @) }}]', "urlize", ""),
    ('[{{ ("x:" ~ @)|urlize(extra_schemes=["x:"]) }}]', "urlize", ""),
    ('[{{ ("www.a.aa/"|safe ~ @)|urlize }}]', "urlize", ""),
    ('[{{ {"k": @, "j": n, "z": none}|xmlattr(b1) }}]', "xmlattr", ""),
    ('[{{ {@: @}|xmlattr(b1) }}]', "xmlattr", ""),
    ('[{{ {"k": "<br>"|safe ~ @}|xmlattr }}]', "xmlattr", ""),
    ("[{{ @|tojson(n) }}]", "tojson", ""),
    ('[{{ {"k": @, @: [@, n, none, b1]}|tojson(n) }}]', "tojson", ""),
    ('[{{ ("<br>" ~ @)|striptags }}]', "", ""),
    ('[{{ (("<br>"|safe) ~ @)|striptags }}]', "", ""),
    ('[{{ {"k": @, @: @}|urlencode }}]', "", ""),
    ("[{{ [[@, @]]|urlencode }}]", "", ""),
    ("[{{ @|e|e }}]", "", ""),
    ("[{{ @|forceescape|e }}]", "", ""),
    ("[{{ @|e|forceescape }}]", "", ""),
    ("[{{ @|string|e }}]", "", ""),
    ("[{{ @|upper|e }}]", "", ""),
    ("[{{ [@, [@]]|pprint }}]", "", ""),
    ("[{{ @|list|join(@) }}]", "", ""),
    ("[{{ n|filesizeformat(b1) ~ @ }}]", "", ""),
    ("[{{ (n / 3)|round(n, 'floor' if b1 else 'ceil') ~ @ }}]", "", ""),
    ('[{{ @|random ~ [@]|random ~ @|first ~ @|last }}]', "", ""),
    ('[{{ @|reverse ~ ([@, "a"]|reverse|join(@)) }}]', "", ""),
    ("[{{ @|length ~ @|wordcount ~ @|count }}]", "", ""),
]]
G["ops"] = [B(s) for s in [
    '[{{ @ ~ "<br>"|safe }}]', '[{{ "<br>"|safe ~ @ }}]', "[{{ @ ~ @ }}]", "[{{ @ ~ n ~ @ }}]", '[{{ @ ~ "<br>"|safe ~ @ }}]',
    '[{{ ("<br>"|safe ~ @) ~ @ }}]', '[{{ @ ~ (@ ~ "<br>"|safe) }}]', '[{{ "a" ~ @ }}]', '[{{ @ ~ "a" }}]', '[{{ @ ~ none ~ true }}]',
    '[{{ @ + "<br>"|safe }}]', '[{{ "<br>"|safe + @ }}]', "[{{ @ + @ }}]", '[{{ @ + "<br>"|safe + @ }}]', '[{{ (@ + @) ~ "<br>"|safe }}]',
    "[{{ @ * 2 }}]", "[{{ 2 * @ }}]", '[{{ "<br>"|safe * n }}]', "[{{ @ * n }}]", '[{{ (@ ~ "<br>"|safe) * 2 }}]', '[{{ (@ + "<br>"|safe) * n }}]',
    '[{{ "<br>%s"|safe % @ }}]', '[{{ "%s" % @ }}]', '[{{ "%s-%s" % (@, @) }}]', '[{{ "<br>%s%s"|safe % (@, n) }}]', '[{{ "<br>%(x)s"|safe % {"x": @} }}]',
    '[{{ "%s" % ("<br>"|safe) ~ @ }}]', '[{{ "%r" % @ }}]', '[{{ "<br>%r"|safe % @ }}]', '[{{ "%5s|%-5s" % (@, @) }}]',
    '[{{ @ if b1 else "<br>"|safe }}]', "[{{ (@ if b1 else @) ~ @ }}]", '[{{ @ if not b1 }}]', '[{{ ("<br>"|safe if b1 else @) ~ @ }}]',
    '[{{ [@, "<br>"|safe] }}]', "[{{ (@, @) }}]", '[{{ {"k": @} }}]', '[{{ {"k": @}.k }}]', '[{{ {"k": @}["k"] }}]', "[{{ [@][0] }}]", "[{{ @[0:1] }}]",
    "[{{ @[::-1] }}]", "[{{ @[n] }}]", '[{{ {@: @} }}]', "[{{ [[@]] }}]", "[{{ (@,) }}]",
    "[{{ @ == @ }}]", "[{{ @ in @ }}]", '[{{ @ < "a" }}]', "[{{ @ and @ }}]", '[{{ @ or "a" }}]', "[{{ not @ }}]", "[{{ none or @ }}]", '[{{ "" and @ or @ }}]',
    "[{{ @.upper() }}]", '[{{ @.replace("a", @) }}]', '[{{ @.join([@, "a"]) }}]', '[{{ "{}-{}".format(@, n) }}]', '[{{ ("<br>{}"|safe).format(@) }}]',
    '[{{ ("<br>"|safe).join([@, @]) }}]', "[{{ @.strip() }}]", '[{{ @.split("a") }}]', "[{{ @.center(4) }}]", "[{{ @.title() }}]",
    '[{{ ("<br>{x}"|safe).format(x=@) }}]', '[{{ "{0!r}".format(@) }}]', '[{{ ("<br>{0!r}"|safe).format(@) }}]', '[{{ ("<br>{0.k}"|safe).format({"k": @}) }}]',
    '[{{ ("<br>{0[0]}"|safe).format([@]) }}]', '[{{ ("<br>{:>4}"|safe).format(@) }}]', '[{{ ("a"|safe).center(5, "a") ~ @ }}]',
    '[{{ ("<br>"|safe).striptags() ~ @ }}]', '[{{ ("a b"|safe).split(" ") }}]', '[{{ ("aXa"|safe).partition("X")[0] ~ @ }}]',
    '[{{ ("aXa"|safe).replace("X", @) }}]', '[{{ ("%s"|safe) % @ }}]', '[{{ ("a"|safe).__add__(@) }}]', '[{{ ("a"|safe).__mod__(@) ~ ("%s"|safe).__mod__(@) }}]',
    "[{{ @|e ~ @ }}]", "[{{ (@|e) + @ }}]", "[{{ @ + (@|e) }}]", "[{{ (@|e) * 2 }}]", '[{{ "%s" % (@|e) }}]', '[{{ "<br>%s"|safe % (@|e) }}]',
    "[{{ (@|forceescape) ~ @ }}]", "[{{ @ ~ (@|forceescape) }}]", "[{{ @|e|string ~ @ }}]",
    '{% set j = joiner(@) %}[{{ j() }}{{ j() }}{{ j() }}]', '{% set c = cycler(@, "a") %}[{{ c.next() }}{{ c.current }}{{ c.next() }}]',
    "[{{ dict(k=@) }}]", "[{{ dict(k=@).k ~ namespace(v=@).v }}]", '[{{ lipsum(1, false, 2, 3) ~ @ }}]', "[{{ range(2)|join(@) }}]",
    "[{{ @ ~ (1 + n) ~ (n - 1) ~ (2 ** n) ~ (7 // 2) ~ (7 % 4) ~ (1 / 2) ~ (-n) }}]",
    # failed lookups whose key / name is the subject (an undefined value may describe what was looked up)
    "[{{ {}[@] }}]", '[{{ {"k": 1}[@] }}]', "[{{ {}[@] ~ @ }}]", "[{{ [{}[@]]|join(@) }}]", "[{{ none[@] }}]", "[{{ ({}|attr(@)) }}]", "[{{ [1][n + 5] ~ {}[@] }}]",
]]
G["struct"] = [B(s, k, t) for s, k, t in [
    # block bodies are compiled as separate functions (D5: a block inside an enabling region of a non-escaping template)
    ("{% block bb %}[{{ @ }}{{ {}[@] }}]{% endblock %}", "", "D5"),
    ("{% block bb %}{% macro bm(x) %}[{{ x }}]{% endmacro %}{{ bm(@) }}{% endblock %}{{ self.bb() }}", "", "D5"),
    ('{% macro m(x, y=@) %}[{{ x }}:{{ y }}]{% endmacro %}{{ m(@) }}-{{ m("a") }}-{{ m(y="a", x=@) }}', "", ""),
    ('{% macro m(x) %}[{{ x }}]{% endmacro %}{{ m(@) ~ m(@) }}-{{ @ ~ m("a") }}-{{ m("a") ~ @ }}-{{ m(m(@)) }}-{{ m(@) + @ }}-{{ @ + m(@) }}', "", ""),
    ('{% macro m() %}[{{ varargs|join(@) }}:{{ kwargs }}:{{ varargs }}]{% endmacro %}{{ m(@, @, k=@) }}', "", ""),
    ('{% macro m(x) %}[{{ caller() }}:{{ x }}]{% endmacro %}{% call m(@) %}-{{ @ }}-{% endcall %}', "", ""),
    ('{% macro m(x) %}[{{ caller(x, @) }}:{{ caller(x, "a") ~ @ }}]{% endmacro %}{% call(p, q) m(@) %}{{ p }}:{{ q }}:{{ @ }}{% endcall %}', "", ""),
    ('{% macro m(x) %}{% set r %}{{ x }}{% endset %}[{{ r }}:{{ r ~ x }}]{% endmacro %}{{ m(@) }}', "", ""),
    ('{% macro i(x) %}{{ x }}{% endmacro %}{% macro o(x) %}[{{ i(x) }}:{{ i(x) ~ x }}]{% endmacro %}{{ o(@) }}-{{ o(i(@)) }}', "", ""),
    ('{% macro m(x) %}[{{ x }}]{% endmacro %}{% set r = m(@) %}{{ r }}-{{ r ~ @ }}-{{ [r, @]|join(@) }}-{{ "%s" % r }}', "", ""),
    ('{% macro m(x) %}[{{ x }}]{% endmacro %}{{ m(@)|upper }}-{{ m(@)|replace("a", @) }}-{{ m(@)|trim }}-{{ m(@)|string }}', "w", ""),
    ('{% macro m(x) %}{% if x %}[{{ x[0] }}{{ m(x[1:]) }}]{% endif %}{% endmacro %}{{ m(@) }}', "", ""),
    ('{% set x %}[{{ @ }}]{% endset %}{{ x }}-{{ x ~ @ }}-{{ @ ~ x }}-{{ x + @ }}-{{ [x, @]|join("-") }}', "", ""),
    ('{% set x %}{% set y %}{{ @ }}{% endset %}[{{ y }}{{ y ~ @ }}]{% endset %}{{ x }}{{ y }}', "", ""),
    ('{% set x = @ %}[{{ x }}]{% set y = x ~ "<br>"|safe %}[{{ y }}]{% set z, w = @, y %}[{{ z }}{{ w }}]', "", ""),
    ('{% set ns = namespace(v=@) %}{% set ns.v = ns.v ~ @ %}[{{ ns.v }}]{% set ns.w %}{{ @ }}{% endset %}[{{ ns.w }}]', "", ""),
    ('{% with x = @, y = "<br>"|safe %}[{{ x }}{{ y }}{{ x ~ y }}]{% endwith %}', "", ""),
    ("{% for c in @ %}[{{ c }}:{{ loop.index }}]{% endfor %}", "", ""),
    ('{% for c in [@, "a"] %}[{{ loop.cycle(@, "a") }}:{{ loop.previtem }}:{{ loop.nextitem }}:{{ c }}:{{ loop.changed(c) }}]{% endfor %}', "", ""),
    ("{% for c in [] %}x{% else %}[{{ @ }}]{% endfor %}", "", ""),
    ('{% for c in [{"t": @, "ch": [{"t": @, "ch": []}]}] recursive %}[{{ c.t }}{{ loop(c.ch) }}{{ loop(c.ch) ~ @ }}]{% endfor %}', "", ""),
    ('{% for k, v in {"k": @, @: "a"}|items %}[{{ k }}={{ v }}]{% endfor %}', "", ""),
    ('{% for c in [@, "a"] if c != "a" %}[{{ c }}]{% endfor %}', "", ""),
    ('{% for c in [@, "a"] %}{% if loop.first %}{% continue %}{% endif %}[{{ c }}{{ @ }}]{% break %}{% endfor %}', "", ""),
    ("{% if @ %}[{{ @ }}]{% elif b1 %}x{% else %}[{{ @ }}]{% endif %}", "", ""),
    ("{% do [].append(@) %}[{{ @ }}]", "", ""),
    ("{% block b %}«[{{ @ }}]»{% endblock %}«-{{ self.b() }}-{{ self.b() ~ @ }}-{{ @ ~ self.b() }}»", "", ""),
    ("{% block b %}«[{{ @ }}]»{% endblock %}«-{{ self.b()|upper }}-{{ self.b()|replace('a', @) }}»", "w", ""),
    ("«{% block b %}[{{ @ }}]{% endblock %}-{{ self.b() }}»", "", "D5"),
    ('{% extends "base.html" %}{% block b %}«[{{ @ }}:{{ super() }}:{{ super() ~ @ }}:{{ @ ~ super() }}]»{% endblock %}', "", ""),
    ('{% extends "base.html" %}{% block c %}«[{{ self.b() ~ @ }}:{{ super.super }}]»{% endblock %}', "", ""),
    ('{% set lv = @ %}{% include "inc.html" %}', "", ""),
    ('{% set lv = @ %}{% include ["nope.html", "inc.html"] ignore missing %}{% include "nope.html" ignore missing %}', "", ""),
    ('{% for lv in [@] %}{% include "inc.html" %}{% endfor %}', "", ""),
    ('{% import "lib.html" as lib %}[{{ lib.lm(@) }}:{{ lib.lv }}:{{ lib.lb }}:{{ lib.lm(@) ~ @ }}:{{ @ ~ lib.lb ~ lib.lv }}]', "", ""),
    ('{% from "lib.html" import lm, lv, lc with context %}[{{ lm(@, y=@) }}:{{ lv }}]{% call lc() %}{{ @ }}{% endcall %}', "", ""),
    ('{% import "lib.html" as lib %}[{{ lib }}:{{ lib ~ @ }}]', "", ""),
    ('{% import "lib.html" as lib %}{% macro m(x) %}{{ lib.lm(x) }}{% endmacro %}{% call lib.lc() %}{{ m(@) }}{% endcall %}', "", ""),
    # helpers of the other autoescape setting (only different under the select_autoescape-by-name wrappers)
    ('{% import "lib.txt" as lib %}[{{ lib.lv }}:{{ lib.lb }}:{{ lib.lv ~ @ }}]', "", ""),
    ('{% import "lib.txt" as lib %}[{{ lib.lm(@) }}]', "", "D4"),
    ('{% from "lib.txt" import lc %}{% call lc() %}{{ @ }}{% endcall %}', "", ""),
    ('{% set lv = @ %}[{{ @ }}]{% include "inc.txt" %}[{{ @ }}]', "", ""),
    ("{% trans x=@ %}[{{ x }}]{% endtrans %}", "", ""),
    ("{% trans n=n, x=@ %}[{{ x }}]{% pluralize %}[[{{ x }}:{{ n }}]]{% endtrans %}", "", ""),
    ("{% set x = @ %}{% trans %}[{{ x }}]{% endtrans %}{% trans trimmed x=x ~ @ %} [{{ x }}] {% endtrans %}", "", ""),
    # regions: parenthesised text is explicitly unescaped by the template
    ("[{{ @ }}]{% autoescape false %}({{ @ }}){% endautoescape %}[{{ @ }}]{% autoescape off %}({{ @ }}){% endautoescape %}[{{ @ }}]", "", ""),
    ("{% autoescape false %}({{ @ }}){% autoescape true %})[{{ @ }}]({% endautoescape %}{% autoescape flag %})[{{ @|string ~ @ }}]({% endautoescape %}({{ @ }}){% endautoescape %}", "", ""),
    ("{% macro m(x) %}[{{ x }}]{% endmacro %}{% autoescape false %}({{ m(@) }}){% endautoescape %}{{ m(@) }}", "", ""),
    ("{% autoescape false %}{% set x %}{{ @ }}{% endset %}{% set y = @ ~ @ %}{% endautoescape %}[{{ x }}:{{ y }}]", "", ""),
    ("{% autoescape false %}{% macro m(x) %}({{ x }}){% endmacro %}{% endautoescape %}[{{ @ }}]", "", ""),
    ("{% autoescape off %}{% endautoescape %}[{{ @ }}:{{ @ ~ @ }}]{% set x %}{{ @ }}{% endset %}[{{ x }}]", "", ""),
]]
_D2 = {"striptags"}
# {% filter f %} and {% set x | f %} blocks for every registered filter
G["fblock"] = (
    [B("{%% filter %s %%}[{{ @ }}]{%% endfilter %%}" % f, _kind_of(f) or "w", "D2" if f in _D2 else "") for f in FILTER_NAMES]
    + [B(s, "w") for s in [
        '{% filter replace("a", @) %}[{{ @ }}a]{% endfilter %}', "{% filter truncate(3, true, @) %}aaaaaa{{ @ }}{% endfilter %}",
        "{% filter default(@) %}{% endfilter %}", "{% filter upper|lower|e %}[{{ @ }}]{% endfilter %}", "{% filter center(9)|trim(@) %}{{ @ }}{% endfilter %}",
        '{% filter format(@) %}[%s]{% endfilter %}',
    ]]
    + [B("{% filter indent(@) %}a\na{% endfilter %}"), B("{% filter striptags|e %}[{{ @ }}]{% endfilter %}"),
       B("{% filter join(@) %}a{{ @ }}{% endfilter %}", "w", "D2"), B("{% filter wordwrap(2, true, @) %}aaaa{{ @ }}{% endfilter %}", "w", "D2"),
       B("{% filter join(@)|e %}a{{ @ }}{% endfilter %}", "w")]
)
G["setblock"] = (
    [B("{%% set x | %s %%}[{{ @ }}]{%% endset %%}{{ x }}" % f, _kind_of(f) or "w", "D2" if f in _D2 else "") for f in FILTER_NAMES]
    + [B(s, "w") for s in [
        '{% set x | replace("a", @) %}[{{ @ }}a]{% endset %}{{ x }}{{ x ~ @ }}', "{% set x | upper | lower %}[{{ @ }}]{% endset %}{{ x }}",
        "{% set x | join(@) | e %}a{{ @ }}{% endset %}{{ x }}", "{% set x | trim(@) %}{{ @ }}a{% endset %}{{ x }}", "{% set x | e %}[{{ @ }}]{% endset %}{{ x }}{{ x|e }}",
    ]]
    + [B("{% set x | join(@) %}a{{ @ }}{% endset %}{{ x }}", "w", "D2"), B("{% set x | wordwrap(2, true, @) %}aaaa{{ @ }}{% endset %}{{ x }}", "w", "D2")]
)
_CHAIN1 = ["e", "forceescape", "string", "striptags", "list", "urlencode", "upper", "trim", "default", "pprint"]
G["chain"] = [B("[{{ @|%s|%s }}]" % (f1, f2), "w") for f1 in _CHAIN1 for f2 in FILTER_NAMES if f2 not in ("urlize", "xmlattr", "tojson")]
GROUPS = list(G)

HELPERS = {
    "inc.html": "«[{{ u }}:{{ lv }}:{{ lv ~ u }}]»",
    # (an autoescape region is a scope: names defined inside are not exported, so the marks sit inside the macro / set bodies)
    "lib.html": "{% macro lm(x, y='d') %}«[{{ x }}:{{ y }}]»{% endmacro %}{% macro lc() %}«[{{ caller() }}]»{% endmacro %}"
                "{% set lv = '<\\'&\">' %}{% set lb %}«{{ lv }}»{% endset %}«top»",
    "base.html": "{% block b %}«[{{ u }}]»{% endblock %}|{% block c %}«{{ self.b() }}»{% endblock %}",
    # the .txt helpers: same text; under select_autoescape they are *not* autoescaped, their own top-level output is parenthesised
    "inc.txt": "«({{ u }}:{{ lv }})»",
    "lib.txt": "{% macro lm(x) %}«[{{ x }}]»{% endmacro %}{% macro lc() %}«[{{ caller() }}]»{% endmacro %}"
               "{% set lv = '<\\'&\">' %}{% set lb %}«{{ lv }}»{% endset %}",
}


# ------------------------------------------------------------------------------------------------ wrappers
class W:
    def __init__(self, name, autoescape, pre="", post="", is_async=False, tname=None, newstyle=True, volatile_off=False, doc="", **envkw):
        self.name, self.pre, self.post, self.is_async, self.tname, self.volatile_off, self.doc = name, pre, post, is_async, tname, volatile_off, doc
        hpre, hpost = pre.replace(" flag ", " gflag "), post
        self.env = Environment(autoescape=autoescape, enable_async=is_async, extensions=["jinja2.ext.i18n", "jinja2.ext.do", "jinja2.ext.loopcontrols"],
                               loader=DictLoader({k: apply_marks(v, hpre, hpost) for k, v in HELPERS.items()}), cache_size=0, **envkw)
        self.env.install_null_translations(newstyle=newstyle)
        self.env.globals["gflag"] = True
        self.cache = {}
        self.noisy = {}
        # which recorded defects show under this wrapper: D2 everywhere, D4 where *.txt helpers are not autoescaped, D5 where an
        # enabling region sits in a non-escaping environment
        self.defects = {"D2"} | ({"D4"} if callable(autoescape) else set()) | ({"D5"} if pre and not autoescape else set())

    def compile(self, src):
        src = apply_marks(src, self.pre, self.post)
        if self.tname is None:
            return self.env.from_string(src)
        self.env.loader.mapping[self.tname] = src
        try:
            return self.env.get_template(self.tname)
        finally:
            del self.env.loader.mapping[self.tname]

    def render(self, t, ctx):
        if self.is_async:
            return drive(t.render_async(**ctx))
        return t.render(**ctx)


def apply_marks(src, pre, post):
    if "«" in src:
        return src.replace("«", pre).replace("»", post)
    return pre + src + post


_SEL = dict(enabled_extensions=("html", "htm", "xml"), disabled_extensions=("txt",), default_for_string=True, default=False)
_AT, _AF, _EA = "{% autoescape true %}", "{% autoescape flag %}", "{% endautoescape %}"
WRAPPERS = {w.name: w for w in [
    W("static", True, doc="Environment(autoescape=True)"),
    W("async", True, is_async=True, newstyle=False, doc="Environment(autoescape=True, enable_async=True), render_async"),
    W("sel_str", select_autoescape(**_SEL), newstyle=False, doc="select_autoescape(default_for_string=True), from_string"),
    W("sel_name", select_autoescape(**_SEL), tname="dir.txt/Main.HTML", doc="select_autoescape by name 'dir.txt/Main.HTML', helpers *.html escaped / *.txt not"),
    W("sel_xml", select_autoescape(**_SEL), tname="main.txt.xml", newstyle=False, doc="select_autoescape by name 'main.txt.xml'"),
    W("blk_true", False, _AT, _EA, newstyle=False, doc="{% autoescape true %} in Environment(autoescape=False)"),
    W("blk_flag", False, _AF, _EA, volatile_off=True, doc="{% autoescape flag %} (flag=True from the context) in Environment(autoescape=False)"),
    W("blk_flag_on", True, _AF, _EA, newstyle=False, doc="{% autoescape flag %} (flag=True) in Environment(autoescape=True)"),
    W("async_flag", False, _AF, _EA, is_async=True, volatile_off=True, doc="{% autoescape flag %} in Environment(autoescape=False, enable_async=True)"),
    W("debug_undef", True, undefined=DebugUndefined, newstyle=False, doc="Environment(autoescape=True, undefined=DebugUndefined): undefined values print their description"),
    W("sel_nostr", select_autoescape(enabled_extensions=("html",), default_for_string=False, default=False), tname="page.html",
      doc="select_autoescape(default_for_string=False) by name 'page.html': only the template name enables escaping"),
    W("after_off", True, "{% autoescape off %}({{ u }}){% endautoescape %}", "", doc="body follows a closed runtime-decided disabled region, Environment(autoescape=True)"),
]}


# ------------------------------------------------------------------------------------------------ oracle
def jlit(s):
    """Jinja string literal source for s."""
    if '"' in s and "'" not in s:
        return "'" + s.replace("\\", "\\\\") + "'"
    return '"' + s.replace("\\", "\\\\").replace('"', '\\"') + '"'


def residue(out, kind):
    out = out.replace(SAFE_FRAG, "")
    prev = None
    while prev != out:                 # nested regions close innermost first
        prev = out
        out = _PAREN.sub("", out)
    if kind == "urlize":
        # urlize trims the already escaped URL, so a character reference may be cut directly before the '...' of the link text (recorded under C24)
        out = _ANCHOR.sub("", _CUT.sub("", out))
    elif kind == "xmlattr":
        out = _XMLATTR.sub(r"\1=\2", out)
    elif kind == "tojson":
        out = out.replace('"', "")
    return out


def leak(out, kind):
    r = residue(out, kind)
    if _RAW.search(r):
        return True
    if kind == "w":
        return False
    return bool((_BAD_AMP_I if kind == "urlize" else _BAD_AMP).search(r))


def _const_output_in_volatile(env, src):
    """D1 exclusion: does the template print a literal-only expression containing a metacharacter?  (as_const succeeds although the
    evaluation context is volatile: only constants and operators, no filter/test/call/name.)"""
    ctx = nodes.EvalContext(env)
    ctx.volatile = True
    try:
        tree = env.parse(src)
    except Exception:
        return False
    for out in tree.find_all(nodes.Output):
        for child in out.nodes:
            if isinstance(child, nodes.TemplateData):
                continue
            try:
                v = child.as_const(ctx)
            except Exception:
                continue
            if _RAW.search(str(v)) or "&" in str(v):
                return True
    return False


def _noisy(w, body, b1, n):
    """Bodies whose output has raw metacharacters even for the neutral data 'a' (Python reprs of lists/generators marked safe by a set-block
    filter, ...) cannot be attributed to data and are not judged."""
    key = (body.src, b1, n)
    r = w.noisy.get(key)
    if r is None:
        try:
            t = w.cache.get(body.src)
            if t is None:
                t = w.cache[body.src] = w.compile(body.src.replace("@", "u"))
            o = w.render(t, dict(u="a", b1=b1, n=n, flag=True, off=False, none=None))
            r = residue(o, body.kind) if leak(o, body.kind) else None
        except Exception:
            r = None
        w.noisy[key] = r
    return r


def check_body(w, body, s, b1, n, literal):
    """Render one body under one wrapper; raise Leak when a raw metacharacter reaches the output."""
    if body.tag and body.tag in w.defects:
        return 0          # known defect on the unchanged tree, see SUSPECTED_DEFECTS
    if literal:
        src = body.src.replace("@", jlit(s))
        key = (w.name, src)
        t = _LIT_CACHE.get(key)
        if t is None:
            if False:  # D1 was repaired in /repo (constant output in a volatile frame is escaped at runtime): no exclusion
                t = "D1"
            else:
                try:
                    t = w.compile(src)
                except Exception as e:
                    t = e
            if len(_LIT_CACHE) > 6000:
                _LIT_CACHE.clear()
            _LIT_CACHE[key] = t
        if t == "D1":
            return 0      # D1
    else:
        t = w.cache.get(body.src)
        if t is None:
            t = w.cache[body.src] = w.compile(body.src.replace("@", "u"))
    if isinstance(t, Exception):
        return 0          # e.g. compile-time folding raised: nothing is output
    base = _noisy(w, body, b1, n)
    try:
        out = w.render(t, dict(u=s, b1=b1, n=n, flag=True, off=False, none=None))
    except Exception:
        return 0
    if base is not None:
        # the body prints raw metacharacters of its own even for the neutral data 'a' (e.g. the quotes of a Python repr marked
        # safe); quotes and ampersands then also multiply with the length of the escaped text, but a raw angle bracket can only be
        # the data's own
        r = residue(out, body.kind)
        for c in "<>":
            if c in s and r.count(c) > base.count(c):
                raise Leak("wrapper=%s (%s) template=%r u=%r b1=%r n=%r output=%r (raw %r beyond what the body prints for neutral data)" % (
                    w.name, w.doc, apply_marks(t_src(body, s, literal), w.pre, w.post), s, b1, n, out, c))
        return 0
    if leak(out, body.kind):
        raise Leak("wrapper=%s (%s) template=%r u=%r b1=%r n=%r output=%r" % (w.name, w.doc, apply_marks(t_src(body, s, literal), w.pre, w.post), s, b1, n, out))
    return 1


def t_src(body, s, literal):
    return body.src.replace("@", jlit(s) if literal else "u")


def MAXLEN():
    return P.get("maxlen", 2)


def NALPHA():
    return P.get("nalpha", len(ALPHA))


def bodies_ok(codes: List[int], b1: bool, n: int) -> bool:
    """
    pre: len(codes) <= MAXLEN() and all(0 <= c < NALPHA() for c in codes) and 0 <= n < 3 and (P.get("flags") or (n == 1 and b1))
    post: _
    """
    alpha = ALPHA_T[:NALPHA()]
    s = "".join(alpha[pick(c, len(alpha))] for c in codes)
    b1 = pickb(b1)
    n = pick(n, 3)
    with NoTracing():
        w = WRAPPERS[P["wrapper"]]
        bodies = G[P["group"]]
        lo, hi = P.get("part", (0, len(bodies)))
        rendered = 0
        for body in bodies[lo:hi]:
            rendered += check_body(w, body, s, b1, n, False)
            if len(s) <= P.get("litlen", 1):
                rendered += check_body(w, body, s, b1, n, True)
        return rendered > 0


# ------------------------------------------------------------------------------------------------ select_autoescape
EXT_EN = ("html", "htm", "xml")
EXT_DIS = ("txt", "j2")
SEL_FNS = {}
for _dfs in (False, True):
    for _dflt in (False, True):
        SEL_FNS[_dfs, _dflt] = select_autoescape(EXT_EN, EXT_DIS, default_for_string=_dfs, default=_dflt)
SEL_FNS["mixedcase"] = select_autoescape(("HTML", ".Htm", "xml"), ("TXT", ".J2"), default_for_string=True, default=False)


def _ends(low, exts):
    for x in exts:
        p = "." + x
        if len(low) >= len(p) and low[len(low) - len(p):] == p:
            return True
    return False


def select_ok(name: str, dflt: bool) -> bool:
    """
    pre: len(name) <= P.get("namelen", 6)
    post: _
    """
    fn = SEL_FNS["mixedcase"] if P.get("mixedcase") else SEL_FNS[bool(P.get("dfs")), dflt]
    if P.get("mixedcase"):
        dflt = False
    got = fn(name)
    low = name.lower()
    en, dis = _ends(low, EXT_EN), _ends(low, EXT_DIS)     # no extension is a suffix of another: never both
    want = True if en else False if dis else dflt
    return got is want and fn(None) is (True if P.get("mixedcase") else bool(P.get("dfs")))


NAME_PRE = ["", "a", "a.html", ".txt/", "x.xml.", "A.J2.", " ", "\u0130"]
NAME_SUF = ["", "a", ".", ".html", ".HTML", ".hTmL", ".htm", ".HTM", ".xml", ".Xml", ".txt", ".TXT", ".j2", ".J2", "html", ".htmlx", ".ht", ".xm", ".html ",
            ".html.", ".txt.html", ".html.txt", ".j2.xml", ".htmk", ".HTMK", "\u2024html", ".\uff48\uff54\uff4d\uff4c", "/html", ".x.t.x.t", ".TxT"]


def select_table_ok(p1: int, p2: int, dfs: bool, dflt: bool) -> bool:
    """
    pre: 0 <= p1 < len(NAME_PRE) and 0 <= p2 < len(NAME_SUF)
    post: _
    """
    p1, p2 = pick(p1, len(NAME_PRE)), pick(p2, len(NAME_SUF))
    dfs, dflt = pickb(dfs), pickb(dflt)
    with NoTracing():
        name = NAME_PRE[p1] + NAME_SUF[p2]
        low = name.lower()
        en, dis = _ends(low, EXT_EN), _ends(low, EXT_DIS)
        want = True if en else False if dis else dflt
        for fn in (SEL_FNS[dfs, dflt],) + ((SEL_FNS["mixedcase"],) if dfs and not dflt else ()):
            if fn(name) is not want or fn(None) is not dfs:
                return False
        # the environment consults the selector with the template name
        env = Environment(autoescape=SEL_FNS[dfs, dflt], loader=DictLoader({name: "{{ u }}"}))
        if name and env.get_template(name).render(u="<") != ("&lt;" if want else "<"):
            return False
        return env.from_string("{{ u }}").render(u="<") == ("&lt;" if dfs else "<")


# ------------------------------------------------------------------------------------------------ conditions
def _parts(n, size):
    return [(i, min(n, i + size)) for i in range(0, n, size)]


def conditions(tier, seed):
    thorough = tier == "thorough"
    to = 300 if thorough else 60
    L = 3 if thorough else 2
    LL = 2 if thorough else 1      # literal variants (one compilation per string and body) use shorter strings
    na = len(ALPHA)
    out = []
    # wrappers x groups.  quick: every group under the static and the runtime-decided (non-escaping environment) wrappers, the
    # structural/operator groups under every wrapper; thorough: full cross product
    full = ["static", "blk_flag"]
    for wn, w in WRAPPERS.items():
        for g in GROUPS:
            if not thorough and wn not in full and g not in ("ops", "struct", "args"):
                continue
            flags = g == "args" or (g in ("ops", "struct") and (thorough or wn in full))
            size = 400 if not thorough else (25 if g == "struct" else 200)
            for part in _parts(len(G[g]), size):
                nm = f"{g}[{wn}" + (f",{part[0]}-{part[1]}" if len(G[g]) > size else "") + "]"
                wit = [[[0, 5], True, 1], [[3, 2], True, 1], [[4, 1, 6][:L], True, 1], [[2], True, 1]]
                if flags:
                    wit = [[[0, 5], False, 0], [[3, 2], True, 2], [[4, 1, 6][:L], False, 1], [[2], True, 1]]
                out.append(Cond(nm, "bodies_ok", mode="B", param=dict(wrapper=wn, group=g, part=list(part), maxlen=L, litlen=LL, nalpha=na, flags=flags), timeout=to,
                                witnesses=wit,
                                bounds=f"data strings of <= {L} / literals of <= {LL} symbols from {ALPHA_T[:na]!r}"
                                       + (" x bool b1 x int n in 0..2" if flags else "") + f"; {part[1] - part[0]} bodies of group '{g}' x subject as context "
                                       f"variable / as template string literal; autoescape: {w.doc}"))
    for dfs in (False, True):
        out.append(Cond(f"select_autoescape[str,dfs={dfs}]", "select_ok", mode="S", param=dict(dfs=dfs, namelen=8 if thorough else 6), timeout=120 if thorough else 15,
                        witnesses=[["a.html", False], ["A.HTM", False], ["x.txt", True], ["html", True], ["", False], ["a.xml.j2", True]],
                        bounds=f"symbolic template name (str, len <= {8 if thorough else 6}) x default; enabled {EXT_EN}, disabled {EXT_DIS}, default_for_string={dfs}; "
                               "search only: str.lower realises the name"))
    out.append(Cond("select_autoescape[str,mixedcase-config]", "select_ok", mode="S", param=dict(mixedcase=True, namelen=8 if thorough else 6), timeout=120 if thorough else 15,
                    witnesses=[["a.html", False], ["A.HTM", False], ["x.txt", True], ["b.J2", False]],
                    bounds="symbolic template name; extensions configured in mixed case / with leading dots; search only"))
    out.append(Cond("select_autoescape[name-table]", "select_table_ok", mode="B", timeout=to,
                    witnesses=[[1, 3, True, False], [2, 10, False, True], [1, 5, True, True], [0, 0, False, False], [1, 24, True, False], [3, 20, False, False]],
                    bounds=f"names = prefix from {NAME_PRE!r} + suffix from {NAME_SUF!r} x default_for_string x default; selector function and "
                           "Environment.get_template/from_string"))
    return out


# ------------------------------------------------------------------ known-finding witnesses (see known_findings.json)
def known_filter_block_result_ok():
    """D2: the result of a {% filter %} block / a set-block filter is emitted (or marked safe) without escaping."""
    from jinja2 import Environment as _E
    e = _E(autoescape=True)
    a = e.from_string("{% set x | striptags %}{{ u }}{% endset %}{{ x }}").render(u="<b>")
    b = e.from_string("{% filter join(u) %}ab{% endfilter %}").render(u="<")
    return "<" not in a and "<" not in b


def known_imported_macro_ok():
    """D4: a macro compiled without autoescaping, called from an autoescaped template, leaks its argument."""
    from jinja2 import DictLoader as _D, Environment as _E, select_autoescape as _S
    e = _E(autoescape=_S(), loader=_D({"lib.txt": "{% macro m(x) %}[{{ x }}]{% endmacro %}",
                                         "a.html": '{% import "lib.txt" as lib %}{{ lib.m(u) }}'}))
    return "<" not in e.get_template("a.html").render(u="<b>")


def known_block_in_autoescape_region_ok():
    """D5: a {% block %} inside an {% autoescape true %} region of a non-escaping template is compiled with the template-level flag."""
    from jinja2 import Environment as _E
    e = _E(autoescape=False)
    return "<" not in e.from_string("{% autoescape true %}{% block b %}{{ u }}{% endblock %}{% endautoescape %}").render(u="<x>")
