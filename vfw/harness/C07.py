"""C07 — the loop variable reports correct iteration state for every iterable.

Mode A: the real pipeline (template compiled once, natively, at setup) is run on
a symbolic item list, a symbolic loop-filter threshold and a symbolic schedule of
loop-attribute queries (two per iteration); observations are collected by a
recording callable so symbolic ints are compared as values.
"""
from typing import List

from jinja2 import Environment
from vfw.core import Cond
from vfw.support import Rec, drive, agen_of, gen_of

FUNCTIONS = [
    "jinja2.runtime.LoopContext (length/_peek_next/__next__/previtem/nextitem/changed/cycle/first/last/index*/revindex*/depth)",
    "jinja2.runtime.AsyncLoopContext", "jinja2.async_utils.auto_aiter/auto_await",
    "jinja2.compiler.CodeGenerator.visit_For (generated loop code: extended loop, loop filter, else, recursion)",
]
OUTSIDE = ["more than MAXN items", "items other than ints", "more than two attribute queries per iteration",
           "iterables other than list/tuple/iterator/generator/(async generator)"]
ASSUMPTIONS = ["templates are compiled natively at setup; only rendering is symbolic"]

ATTRS = ["", "length", "last", "nextitem", "revindex", "revindex0"]
NQ = len(ATTRS)
SLOT2 = ["", "length", "nextitem", "last", "revindex0"]


def _chain(var):
    parts = []
    for k, a in enumerate(ATTRS):
        if k == 0:
            continue
        kw = "if" if k == 1 else "elif"
        parts.append("{%% %s %s == %d %%}{{ rec('q', %d, loop.%s) }}" % (kw, var, k, k, a))
    return "".join(parts) + "{% endif %}"


SRC_EXT = (
    "{% for x in it FILTER %}{{ rec('x', x) }}"
    "{% set k1 = q[loop.index0] %}" + _chain("k1") + "SLOT2"
    "{{ rec('p', loop.index0, loop.index, loop.first, loop.previtem, loop.cycle('p','q','r'), loop.changed(x), loop.depth, loop.depth0, loop.changed(x), loop.changed(x, 1)) }}"
    "{% else %}{{ rec('else') }}{% endfor %}{{ rec('end') }}"
)
SRC_PLAIN = "{% for x in it FILTER %}{{ rec('x', x) }}{% else %}{{ rec('else') }}{% endfor %}{{ rec('end') }}"
SRC_REC = (
    "{% for n in tree recursive %}{{ rec('n', n.v, loop.depth, loop.depth0, loop.index, loop.length, loop.last) }}"
    "{{ loop(n.c) }}{% else %}{{ rec('else') }}{% endfor %}{{ rec('end') }}"
)

ENV = Environment(extensions=["jinja2.ext.loopcontrols"])
AENV = Environment(enable_async=True, extensions=["jinja2.ext.loopcontrols"])
SRC_CTL = ("{% for x in it %}{{ rec('x', x) }}{% if x > t %}{% break %}{% endif %}{% if x == t %}{% continue %}{% endif %}"
           "{{ rec('p', loop.index) }}{% else %}{{ rec('else') }}{% endfor %}{{ rec('end') }}")
P0 = {"form": "list", "filter": False, "asyncm": False, "maxn": 3, "plain": False, "slot2": 0, "recursive": False, "ctl": False}
P = dict(P0)
T = None


def setup(param):
    global T
    P.clear()
    P.update(P0)
    if param:
        P.update(param)
    env = AENV if P["asyncm"] else ENV
    if P.get("ctl"):
        T = env.from_string(SRC_CTL)
    elif P.get("recursive"):
        T = env.from_string(SRC_REC)
    else:
        src = SRC_PLAIN if P["plain"] else SRC_EXT
        s2 = SLOT2[P["slot2"]]
        src = src.replace("SLOT2", "{{ rec('s', loop.%s) }}" % s2 if s2 else "")
        T = env.from_string(src.replace("FILTER", "if x > t" if P["filter"] else ""))


def _render(**ctx):
    if P["asyncm"]:
        return drive(T.render_async(**ctx))
    return T.render(**ctx)


def _iterable(xs):
    f = P["form"]
    if f == "list":
        return list(xs)
    if f == "tuple":
        return tuple(xs)
    if f == "iter":
        return iter(list(xs))
    if f == "gen":
        return gen_of(xs)
    if f == "agen":
        return agen_of(xs)
    if f == "liar":
        return Liar(xs)
    if f == "reiter":
        return ReIter(xs)
    if f == "areiter":
        return AReIter(xs)
    raise AssertionError(f)


class ReIter:
    """Unsized and re-iterable: every __iter__ call starts a fresh generator."""

    def __init__(self, xs):
        self.xs = list(xs)

    def __iter__(self):
        for x in self.xs:
            yield x


class AReIter:
    """Unsized and re-iterable asynchronously: every __aiter__ call starts a fresh async generator."""

    def __init__(self, xs):
        self.xs = list(xs)

    async def _gen(self):
        for x in self.xs:
            yield x

    def __aiter__(self):
        return self._gen()


class Liar:
    """A sized iterable whose len() is one more than the number of items it yields (e.g. a table: len = rows, iter = columns)."""

    def __init__(self, xs):
        self.xs = list(xs)

    def __len__(self):
        return len(self.xs) + 1

    def __iter__(self):
        return iter(self.xs)


def _attr(a, ys, i):
    n = len(ys)
    if P["form"] == "liar" and not P["filter"] and a in ("length", "revindex", "revindex0"):
        # length-derived attributes follow len(); position attributes (last, nextitem) follow the iteration
        n = n + 1
    if a == "length":
        return n
    if a == "last":
        return i == n - 1
    if a == "revindex":
        return n - i
    if a == "revindex0":
        return n - i - 1
    if a == "nextitem":
        return ys[i + 1] if i + 1 < n else ("<undefined>",)
    raise AssertionError(a)


def expected(xs, t, q):
    ys = [x for x in xs if x > t] if P["filter"] else list(xs)
    n = len(ys)
    log = []
    for i, x in enumerate(ys):
        log.append(("x", x))
        if not P["plain"]:
            k = q[i]
            if k != 0:
                log.append(("q", k, _attr(ATTRS[k], ys, i)))
            if SLOT2[P["slot2"]]:
                log.append(("s", _attr(SLOT2[P["slot2"]], ys, i)))
            log.append(("p", i, i + 1, i == 0, ys[i - 1] if i > 0 else ("<undefined>",), "pqr"[i % 3],
                        i == 0 or (ys[i - 1], 1) != (x,), 1, 0, False, True))
    if n == 0:
        log.append(("else",))
    log.append(("end",))
    return log


def loop_ok(xs: List[int], t: int, q: List[int]) -> bool:
    """
    pre: len(xs) <= MAXN() and len(q) == len(xs) and all(0 <= k < NQ for k in q)
    post: _
    """
    rec = Rec()
    out = _render(it=_iterable(xs), t=t, q=q, rec=rec)
    return rec.log == expected(xs, t, q) and out == ""


def MAXN():
    return P["maxn"]


def ctl_ok(xs: List[int], t: int) -> bool:
    """
    pre: len(xs) <= MAXN()
    post: _
    """
    rec = Rec()
    _render(it=_iterable(xs), t=t, rec=rec)
    log = []
    for i, x in enumerate(xs):
        log.append(("x", x))
        if x > t:
            break
        if x == t:
            continue
        log.append(("p", i + 1))
    if len(xs) == 0:
        log.append(("else",))   # the else branch runs only when the loop did not iterate
    log.append(("end",))
    return rec.log == log


class Node:
    def __init__(self, v, c):
        self.v = v
        self.c = c


def _tree(ws, level, counter):
    if level >= len(ws):
        return []
    out = []
    for j in range(ws[level]):
        counter[0] += 1
        v = counter[0]
        # only the first child of each node has children (keeps the tree small)
        out.append(Node(v, _tree(ws, level + 1, counter) if j == 0 else []))
    return out


def _exp_tree(nodes, depth, log):
    n = len(nodes)
    for i, nd in enumerate(nodes):
        log.append(("n", nd.v, depth, depth - 1, i + 1, n, i == n - 1))
        # loop(children) renders the loop body for the nested level, including its else branch when that level is empty;
        # the else branch runs in the enclosing scope: at nested levels `loop` is the parent level's loop
        _exp_tree(nd.c, depth + 1, log)
    if n == 0:
        log.append(("else",))
    return log


def rec_ok(ws: List[int]) -> bool:
    """
    pre: len(ws) <= 3 and all(0 <= w <= 2 for w in ws)
    post: _
    """
    tree = _tree(ws, 0, [0])
    rec = Rec()
    _render(tree=tree if P["form"] == "list" else gen_of(tree), rec=rec)
    log = _exp_tree(tree, 1, [])
    log.append(("end",))
    return rec.log == log


def conditions(tier, seed):
    thorough = tier == "thorough"
    maxn = 3 if thorough else 2
    to = 420 if thorough else 45
    out = []
    for asyncm in (False, True):
        forms = ["list", "tuple", "iter", "gen", "liar", "reiter"] + (["agen", "areiter"] if asyncm else [])
        for form in forms:
            for filt in (False, True):
                if filt and form in ("tuple", "iter", "liar", "reiter", "areiter"):
                    continue
                for slot2 in range(len(SLOT2)):
                    if not thorough and slot2 in (3, 4) and form in ("tuple", "iter", "liar"):
                        continue
                    if not thorough and slot2 in (0, 2, 3) and form in ("reiter", "areiter"):
                        continue
                    p = dict(form=form, filter=filt, asyncm=asyncm, maxn=maxn, plain=False, slot2=slot2)
                    out.append(Cond(
                        f"loop[{'async' if asyncm else 'sync'},{form},{'filter' if filt else 'nofilter'},then-{SLOT2[slot2] or 'none'}]",
                        "loop_ok", mode="A", param=p, timeout=to,
                        witnesses=[[[5, 7, 7], 6, [1, 3, 2]], [[], 0, []], [[1], 0, [5]], [[4, 4, 2], 0, [0, 0, 0]]],
                        bounds=f"<= {maxn} int items (any values), any filter threshold, per iteration any one of {NQ-1} look-ahead/length queries (symbolic schedule) followed by a fixed second query and all 9 position attributes"))
        for form in ("list", "gen") + (("agen",) if asyncm else ()):
            p = dict(form=form, filter=True, asyncm=asyncm, maxn=maxn + 2, plain=True)
            out.append(Cond(f"plainloop[{'async' if asyncm else 'sync'},{form}]", "loop_ok", mode="A", param=p, timeout=to,
                            witnesses=[[[1, 9], 3, [0, 0]]],
                            bounds=f"non-extended loop with filter and else, <= {maxn+2} items"))
        for form in ("list", "gen") + (("agen",) if asyncm else ()):
            p = dict(form=form, asyncm=asyncm, ctl=True, maxn=maxn + 1)
            out.append(Cond(f"break/continue with else[{'async' if asyncm else 'sync'},{form}]", "ctl_ok", mode="A", param=p, timeout=to,
                            witnesses=[[[1, 5, 9], 5], [[], 0], [[7, 7], 3], [[2, 2], 2]],
                            bounds=f"<= {maxn+1} int items, any threshold: break when x > t, continue when x == t; else only for an empty iterable"))
        for form in ("list", "gen"):
            p = dict(form=form, asyncm=asyncm, recursive=True)
            out.append(Cond(f"recursive[{'async' if asyncm else 'sync'},{form}]", "rec_ok", mode="A", param=p, timeout=to,
                            witnesses=[[[2, 1, 2]], [[]], [[1]]],
                            bounds="recursive loops over trees of depth <= 3, width <= 2 per level"))
    return out
