"""C39 — the raw token stream is lossless and line-accurate.

Reuses the whitespace-control cases of C12 (rendered output is not the subject
here; the token concatenation, the dropped whitespace and every token's line
number are) and adds sources assembled from a table of multi-line constructs
(expressions, comments and raw blocks spanning lines, CR/LF/CRLF breaks,
line statements and line comments), checked with a model-free oracle: tokens
appear in order, only whitespace is missing and only directly before a tag that
strips it, and each token's line number is 1 + the line breaks before its start.
"""
from typing import List

from jinja2 import Environment
from vfw import wsmodel as W
from vfw.core import Cond, pick
from vfw.harness import C12
from vfw.support import NoTracing

FUNCTIONS = ["jinja2.lexer.Lexer.tokeniter (lineno / newlines_stripped accounting)", "Environment.lex", "Environment._tokenize",
             "jinja2.ext.babel_extract (consumes token line numbers)"]
OUTSIDE = ["sources other than the C12 case family and <= 3 (4 thorough) pieces from the multi-line piece table"]
ASSUMPTIONS = ["line breaks are \\n, \\r\\n, \\r (normalised before lexing as documented)"]

PIECES = ["x", "\n", " ", "  \n", "{{ 1 +\n 2 }}", "{# a\nb #}", "{% raw %}\n r \n{% endraw %}", "{%- set a = 1 -%}", "{% if 1 %}y{% endif %}",
          "\r\n", "{{-\n 'v' }}", "\r", "{#- c\r\nd -#}", "{%+ set b = 2 %}\n", "{% set s %}\n z\n{% endset %}", "\t{% set t = 3 %}",
          # tags that contain line breaks themselves (a raw opening tag is one token)
          "{% raw -%}\n\n r{% endraw %}", "{%\n raw\n%}q{%- endraw\n -%}\n", "{%-\n if 1\n -%}\n w{% endif %}", "{{\n 2\n}}"]
LPIECES = ["x\n", "# for i in [1]\n", "  # endfor\n", "## a comment\n", "y ## trailing comment\n", "\n", "{{ 1 }}\n", "# set q = [1,\n   2]\n", "  ", "{# c #}\n"]
P = {}
ENV = None


def setup(param):
    global P, ENV
    P = dict(param or {})
    if P.get("c12"):
        C12.setup(P["c12"])
        return
    kw = dict(trim_blocks=P.get("trim", False), lstrip_blocks=P.get("lstrip", False), keep_trailing_newline=P.get("ktn", False))
    if P.get("line"):
        kw.update(line_statement_prefix="#", line_comment_prefix="##")
    ENV = Environment(**kw)


def c12_case_ok(ars: int, t: int, bk: int, bls: int) -> bool:
    """
    pre: 0 <= ars <= 2 and 0 <= t < len(W.TEXTS) and 0 <= bk < len(W.B_KINDS) and 0 <= bls <= 2
    post: _
    """
    return C12.ws_ok(ars, t, bk, bls)


def pieces_ok(ps: List[int]) -> bool:
    """
    pre: 1 <= len(ps) <= MAXP() and all(0 <= p < NP() for p in ps)
    post: _
    """
    table = LPIECES if P.get("line") else PIECES
    parts = [table[pick(p, len(table))] for p in ps]
    with NoTracing():
        src = P.get("first", "") + "".join(parts)
        return source_ok(src)


def NP():
    return len(LPIECES if P.get("line") else PIECES)


def MAXP():
    return P.get("maxp", 3)


def source_ok(src):
    from jinja2.exceptions import TemplateSyntaxError
    try:
        toks = list(ENV.lex(src))
    except TemplateSyntaxError:
        return True  # an unbalanced combination of pieces: not a template
    ktn = P.get("ktn", False)
    ok, gaps = W.check_tokens(src, toks, ktn)
    if not ok:
        return False
    # whitespace may only disappear in front of a tag that strips it
    n = W.norm(src)
    if not ktn and n.endswith("\n"):
        n = n[:-1]
    cur = 0
    for lineno, kind, value in toks:
        if value == "":
            continue
        idx = n.find(value, cur)
        gap = n[cur:idx]
        if gap:
            minus = len(value) > 2 and "-" in value[2:4]
            if not minus and not (ENV.lstrip_blocks and "\n" not in gap):
                return False
        cur = idx + len(value)
    # the parser-facing stream must carry the same line numbers for the tokens it keeps
    try:
        wrapped = list(ENV._tokenize(src, None))
    except TemplateSyntaxError:
        return True
    raw_lines = [l for l, k, v in toks]
    return all(t.lineno in raw_lines for t in wrapped)


# ---------------------------------------------------------------- lex() of an overlay follows the overlay's own options
OV_OPTS = [dict(keep_trailing_newline=True), dict(lstrip_blocks=True), dict(trim_blocks=True), dict(variable_start_string="${", variable_end_string="}"),
           dict(block_start_string="<%", block_end_string="%>"), dict(line_statement_prefix="%"), dict(comment_start_string="<!--", comment_end_string="-->"),
           dict(newline_sequence="\r\n"), dict(line_comment_prefix="//")]
OV_SRC = ["a\n  {% if 1 %}\n{{ x }}\n{% endif %}\n", "  <% if 1 %>\n${ x } {{ y }}<% endif %>\n", "% set z = 1\n  {# c #} <!-- d -->\n// e\nt\n"]


def overlay_lex_ok(opt: int, src: int, used: bool, chain: bool) -> bool:
    """
    pre: 0 <= opt < len(OV_OPTS) and 0 <= src < len(OV_SRC)
    post: _
    """
    from vfw.core import pickb
    o = OV_OPTS[pick(opt, len(OV_OPTS))]
    text = OV_SRC[pick(src, len(OV_SRC))]
    used = pickb(used)
    chain = pickb(chain)
    with NoTracing():
        from jinja2.exceptions import TemplateSyntaxError
        base = Environment()
        if used:
            list(base.lex("{{ warm }}"))          # the parent has lexed before the overlay is made
        ov = base.overlay(**o)
        if chain:
            list(ov.lex("x"))
            ov = ov.overlay(keep_trailing_newline=not ov.keep_trailing_newline)
            o = dict(o, keep_trailing_newline=ov.keep_trailing_newline)
        ref = Environment(**o)

        def toks(e):
            try:
                return ("ok", list(e.lex(text)))
            except TemplateSyntaxError as ex:
                return ("syntax", ex.lineno)
        return toks(ov) == toks(ref) and toks(base) == toks(Environment())


def conditions(tier, seed):
    th = tier == "thorough"
    to = 200 if th else 50
    out = []
    for trim in (False, True):
        for lstrip in (False, True):
            for akind in (W.A_KINDS if th else ["start", "set", "var", "rawbegin"]):
                out.append(Cond(f"tokens of ws case[{akind},trim={trim},lstrip={lstrip}]", "c12_case_ok", mode="B",
                                param={"c12": {"akind": akind, "trim": trim, "lstrip": lstrip}}, timeout=to,
                                witnesses=[[1, 3, 0, 0], [0, 4, 1, 2], [0, 6, 0, 1]],
                                bounds="C12 case family: token concatenation, dropped whitespace and line numbers"))
    mp = 3 if th else 2
    for trim, lstrip in ((False, False), (True, True)):
        for ktn in (False, True):
            rot = [PIECES[(seed + 5 * k) % len(PIECES)] for k in range(3)]
            firsts = ([""] + rot) if not th else [""] + PIECES
            for fi, first in enumerate(firsts):
                out.append(Cond(f"multi-line pieces[trim/lstrip={trim},keep_trailing={ktn},prefix#{fi}]", "pieces_ok", mode="B",
                                param={"trim": trim, "lstrip": lstrip, "ktn": ktn, "maxp": mp, "first": first}, timeout=to * 2,
                                witnesses=[[[4, 1]], [[5, 6]], [[9, 10]], [[12, 13]]],
                                bounds=f"optional fixed first piece + 1..{mp} pieces from a {len(PIECES)}-entry table of multi-line constructs"))
        out.append(Cond(f"line statements/comments[trim/lstrip={trim}]", "pieces_ok", mode="B",
                        param={"trim": trim, "lstrip": lstrip, "line": True, "maxp": 3}, timeout=to * 2,
                        witnesses=[[[1, 0, 2]], [[3, 4]], [[7, 6]]],
                        bounds=f"1..3 pieces from a {len(LPIECES)}-entry table of line statements / line comments"))
    out.append(Cond("lex() through overlays", "overlay_lex_ok", mode="B", param={}, timeout=to,
                    witnesses=[[0, 0, True, False], [3, 1, True, True], [5, 2, False, False], [1, 0, True, True]],
                    bounds=f"{len(OV_OPTS)} single-option overlays x {len(OV_SRC)} sources x parent used before / not x overlay of an overlay; token stream == that of a fresh environment with the same options"))
    return out
