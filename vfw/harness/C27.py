"""C27 — the bytecode cache never yields stale code and tolerates interrupted writes.

Mode B throughout: every selector (truncation offset, damaged-entry variant, crash point, fault
schedule, history of operations) is decoded by explicit solver forks and the *real* ``Bucket`` /
``FileSystemBytecodeCache`` / ``MemcachedBytecodeCache`` / ``BaseLoader.load`` run natively on the decoded
scenario inside a scratch directory.  Oracle everywhere: ``get_template`` never raises (except for an
exception the scenario itself injected into a cache *write* / a non-ignored memcached client error) and
``render`` gives exactly what an environment of the same configuration *without* a bytecode cache gives.
"""
import atexit
import builtins
import marshal
import os
import pickle
import posixpath
import shutil
import tempfile
from typing import List

import jinja2.bccache as bcc
from jinja2 import BaseLoader, DictLoader, Environment, FileSystemLoader
from jinja2.exceptions import TemplateNotFound
from jinja2.sandbox import SandboxedEnvironment
from vfw.core import Cond, pick
from vfw.support import NoTracing, drive

FUNCTIONS = ["jinja2.bccache.Bucket.load_bytecode/write_bytecode/bytecode_from_string/bytecode_to_string",
             "jinja2.bccache.BytecodeCache.get_cache_key/get_source_checksum/get_bucket/set_bucket",
             "jinja2.bccache.FileSystemBytecodeCache.load_bytecode/dump_bytecode/clear",
             "jinja2.bccache.MemcachedBytecodeCache.load_bytecode/dump_bytecode",
             "jinja2.loaders.BaseLoader.load", "Environment.get_template / Template.from_code / render"]
OUTSIDE = ["histories longer than 4 (quick) / 5 (thorough) operations; more than two environments",
           "entries damaged other than by truncation (bit flips, forged entries with a matching magic and checksum)",
           "bytecode really produced by another interpreter (only its magic header is modelled)",
           "amounts of data on disk at a crash point other than the tabulated cuts (all, 0, magic/checksum boundaries, half)",
           "real concurrency between processes beyond 'a second worker runs one whole store operation between two I/O steps of the first' (two-writers); Windows file semantics",
           "truncation offsets inside the pickled checksum and environments of different configuration hitting each "
           "other's entries: excluded in pre: as suspected genuine defects (see SUSPECTED_DEFECTS)"]
ASSUMPTIONS = ["a scratch directory is created per process under the system temp dir and removed at exit",
               "the write path of FileSystemBytecodeCache is observed by replacing the names tempfile/os/open inside "
               "the jinja2.bccache module namespace by delegating shims (no file of /repo is changed)",
               "a process crash at a point of the write path is modelled by a copy of the cache directory taken at that "
               "point (every write flushed), loaded afterwards by a fresh environment"]
SUSPECTED_DEFECTS = [
    "Bucket.load_bytecode calls pickle.load(f) outside the try: an entry truncated at any offset k with "
    "len(bc_magic) <= k < len(bc_magic)+len(pickle.dumps(checksum, 2)) (15 <= k < 65 on CPython 3.12) makes "
    "get_template raise EOFError / pickle.UnpicklingError instead of being a cache miss; found by "
    "trunc_ok(k) in conditions truncate[fs|dict|mc] when the pre: exclusion `not in_header(off)` is removed; "
    "repro: store = entry[:15] -> Environment(loader=DictLoader({'a': 'x'}), bytecode_cache=<cache holding it>).get_template('a') "
    "raises EOFError('Ran out of input')",
    "BytecodeCache.get_cache_key / get_source_checksum ignore the environment's compile-relevant configuration: two "
    "environments differing in autoescape, delimiters, trim_blocks/lstrip_blocks, enable_async, sandboxing or finalize "
    "that share one cache load each other's bytecode (wrong output, TypeError \"'async for' requires an object with "
    "__aiter__\", AttributeError \"'Environment' object has no attribute 'call'\", or a sandboxed environment running "
    "unsandboxed `context.call` code); found by hist_ok(h) for every history number h whose operations (ops_of(h)) "
    "contain 'env0 loads name n' and 'env1 loads name n' with no modification of n's source or clear in between, e.g. "
    "h = 27 = ops [0, 3, 0] in condition history[dict,alias,base/trim], when the pre: exclusion `not cross_reuse(h)` is removed",
]

ROOT = None
WORK = None
P = {}
CTX = {}
S = {}          # per-condition scenario state, rebuilt by setup()


# ------------------------------------------------------------------------------------------------ templates
class _F:
    def __call__(self):
        return "F"


class _UF:
    unsafe_callable = True

    def __call__(self):
        return "UF"


CTX = dict(x=1, f=_F(), uf=_UF(), u=None)
NVER = 3
TAIL = "|${ x }|{{ '<b>' }}|{% if true %}\n  y\n{% endif %}\n|{{ f() }}|{{ u }}|"
INC = "{% include 'inc.txt' %}\n"


def _tail():
    # src "full": configuration-sensitive tail + include resolved relative to the including name;
    # "noinc": without the include (where two differently configured environments share the store the included
    # template would be one more entry both of them hit); "inc": include only; "small": neither (short entries)
    return {"full": TAIL + INC, "noinc": TAIL, "inc": "|" + INC, "small": ""}[P.get("src", "full")]


# successive versions of a source differ as little as a source can: one character, chosen among characters that a
# line-based or whitespace-based normalisation of the checksum input would conflate (form feed / line feed / U+2028;
# space / tab / U+0085); each version renders differently, so serving another version's code is visible
SUBTLE_A = ["\x0c", "\n", "\u2028"]
SUBTLE_B = [" ", "\t", "\x85"]


def src_a(v):
    return "A" + SUBTLE_A[v] + "0 {{ x }} [{{ self }}]" + _tail()


def src_b(v):
    return "B" + SUBTLE_B[v] + "0 {{ x + 1 }} {{ uf() }}" + _tail()


class RelMixin:
    """join_path relative to the including template (the documented override)."""

    def join_path(self, template, parent):
        d = posixpath.dirname(parent)
        return posixpath.join(d, template) if d else template


class RelEnv(RelMixin, Environment):
    pass


class RelSandbox(RelMixin, SandboxedEnvironment):
    pass


def _fin(v):
    return "N" if v is None else v


CONFIGS = {
    "base": (RelEnv, {}),
    "autoescape": (RelEnv, dict(autoescape=True)),
    "delims": (RelEnv, dict(variable_start_string="${", variable_end_string="}")),
    "trim": (RelEnv, dict(trim_blocks=True, lstrip_blocks=True)),
    "async": (RelEnv, dict(enable_async=True)),
    "sandbox": (RelSandbox, {}),
    "finalize": (RelEnv, dict(finalize=_fin)),
    "trim+auto": (RelEnv, dict(trim_blocks=True, lstrip_blocks=True, autoescape=True)),
}


class AliasLoader(BaseLoader):
    """Two names ('p/a', 'q/a') share one source and one filename; 'b' has no filename."""

    def __init__(self, ver):
        self.ver = ver

    def get_source(self, environment, template):
        if template in ("p/a", "q/a"):
            return src_a(self.ver[0]), "/virtual/a.txt", None
        if template == "b":
            return src_b(self.ver[1]), None, None
        if template == "p/inc.txt":
            return "PINC", "/virtual/pinc", None
        if template == "q/inc.txt":
            return "QINC", "/virtual/qinc", None
        if template == "inc.txt":
            return "INC", None, None
        raise TemplateNotFound(template)


LOADER_NAMES = {"fs": ["a.txt", "./a.txt", "b.txt"], "alias": ["p/a", "q/a", "b"], "dict": ["a.txt", "./a.txt", "b.txt"]}
FILE_OF = [0, 0, 1]   # name index -> source file index


class Sources:
    """Template sources with versions; kind 'fs' keeps them as files for a FileSystemLoader."""

    def __init__(self, kind, base):
        self.kind = kind
        self.ver = [0, 0]
        self.names = LOADER_NAMES[kind]
        if kind == "fs":
            self.dir = os.path.join(base, "tpl")
            os.makedirs(self.dir, exist_ok=True)
            with open(os.path.join(self.dir, "inc.txt"), "w") as f:
                f.write("INC")
            self._write(0)
            self._write(1)
            self.loader = FileSystemLoader(self.dir)
        elif kind == "dict":
            self.map = {"inc.txt": "INC", "./inc.txt": "INC"}
            self.loader = DictLoader(self.map)
            self._write(0)
            self._write(1)
        else:
            self.loader = AliasLoader(self.ver)

    def _write(self, i):
        text = src_a(self.ver[0]) if i == 0 else src_b(self.ver[1])
        if self.kind == "fs":
            with open(os.path.join(self.dir, "a.txt" if i == 0 else "b.txt"), "w", newline="") as f:
                f.write(text)
        elif self.kind == "dict":
            # DictLoader normalises nothing: './a.txt' is a separate key with the same source
            if i == 0:
                self.map["a.txt"] = self.map["./a.txt"] = text
            else:
                self.map["b.txt"] = text

    def modify(self, i):
        self.ver[i] = (self.ver[i] + 1) % NVER
        self._write(i)


# ------------------------------------------------------------------------------------------------ cache back ends
class DictCache(bcc.BytecodeCache):
    """The minimal subclass the BytecodeCache docstring describes, backed by a dict."""

    def __init__(self, d):
        self.d = d

    def load_bytecode(self, bucket):
        if bucket.key in self.d:
            bucket.bytecode_from_string(self.d[bucket.key])

    def dump_bytecode(self, bucket):
        self.d[bucket.key] = bucket.bytecode_to_string()

    def clear(self):
        self.d.clear()


class FakeError(Exception):
    _vf_injected = True


class FakeClient:
    """Memcached client double: per-call fault plan for get and set."""

    def __init__(self):
        self.d = {}
        self.get_fault = None      # None | 'raise' | 'miss' | ('trunc', k)
        self.set_fault = None      # None | 'raise' | 'drop' | ('trunc', k)
        self.raised = False

    def get(self, key):
        f = self.get_fault
        if f == "raise":
            self.raised = True
            raise FakeError("get")
        if f == "miss":
            return None
        v = self.d.get(key)
        if v is not None and isinstance(f, tuple):
            v = v[: min(f[1], len(v))]
        return v

    def set(self, key, value, timeout=None):
        f = self.set_fault
        if f == "raise":
            self.raised = True
            raise FakeError("set")
        if f == "drop":
            return
        if isinstance(f, tuple):
            value = value[: min(f[1], len(value))]
        self.d[key] = bytes(value)


class Backend:
    """One shared store and a factory of cache objects (one per environment) over it."""

    def __init__(self, kind, base, ignore=True):
        self.kind = kind
        self.ignore = ignore
        if kind == "fs":
            self.dir = os.path.join(base, "cache")
            os.makedirs(self.dir, exist_ok=True)
        elif kind == "dict":
            self.d = {}
        else:
            self.client = FakeClient()

    def cache(self, directory=None):
        if self.kind == "fs":
            return bcc.FileSystemBytecodeCache(directory or self.dir)
        if self.kind == "dict":
            return DictCache(self.d)
        return bcc.MemcachedBytecodeCache(self.client, ignore_memcache_errors=self.ignore)

    # raw access to the stored entries (by bucket key)
    def _fn(self, key):
        return os.path.join(self.dir, "__jinja2_%s.cache" % key)

    def raw(self):
        if self.kind == "fs":
            out = {}
            for fn in os.listdir(self.dir):
                if fn.startswith("__jinja2_") and fn.endswith(".cache"):
                    with open(os.path.join(self.dir, fn), "rb") as f:
                        out[fn[len("__jinja2_"):-len(".cache")]] = f.read()
            return out
        if self.kind == "dict":
            return dict(self.d)
        return {k[len("jinja2/bytecode/"):]: v for k, v in self.client.d.items()}

    def put(self, key, data):
        if self.kind == "fs":
            with open(self._fn(key), "wb") as f:
                f.write(data)
        elif self.kind == "dict":
            self.d[key] = data
        else:
            self.client.d["jinja2/bytecode/" + key] = data

    def wipe(self):
        if self.kind == "fs":
            for fn in os.listdir(self.dir):
                os.remove(os.path.join(self.dir, fn))
        elif self.kind == "dict":
            self.d.clear()
        else:
            self.client.d.clear()
            self.client.get_fault = self.client.set_fault = None
            self.client.raised = False

    @property
    def can_clear(self):
        return self.kind != "mc"    # MemcachedBytecodeCache.clear is documented as a no-op


def mkenv(cfg, loader, cache):
    cls, kw = CONFIGS[cfg]
    return cls(loader=loader, bytecode_cache=cache, cache_size=0, **kw)


def render(env, name):
    """Outcome of get_template(name).render(CTX): get_template must not raise (propagates), render outcome is compared."""
    t = env.get_template(name)
    try:
        if env.is_async:
            return ("ok", drive(t.render_async(CTX)))
        return ("ok", t.render(CTX))
    except Exception as e:
        if getattr(e, "_vf_injected", False):     # a fault this scenario injected itself (cache write of an include)
            raise
        return ("exc", type(e).__name__)


_EXP = {}


def expected(cfg, src, name):
    """What an environment of configuration cfg without bytecode cache renders for the current sources."""
    k = (cfg, src.kind, name, tuple(src.ver))
    if k not in _EXP:
        _EXP[k] = render(mkenv(cfg, src.loader, None), name)
    return _EXP[k]


# ------------------------------------------------------------------------------------------------ setup
def _mkroot():
    global ROOT
    if ROOT is None:
        shm = "/dev/shm"      # memory-backed scratch space when there is one (many small files are written per path)
        ROOT = tempfile.mkdtemp(prefix="vf-c27-", dir=shm if os.path.isdir(shm) and os.access(shm, os.W_OK) else None)
        atexit.register(shutil.rmtree, ROOT, True)


def setup(param):
    global P, WORK
    _uninstall()
    P = dict(param or {})
    _mkroot()
    if WORK:
        shutil.rmtree(WORK, True)
    WORK = tempfile.mkdtemp(prefix="w-", dir=ROOT)
    _EXP.clear()
    S.clear()
    be = Backend(P.get("backend", "fs"), WORK, ignore=P.get("ignore", True))
    src = Sources(P.get("loader", "fs"), WORK)
    S.update(be=be, src=src)
    # reference entries: the stored entry of name 0 for source version 0 and for version 1
    cfg = P.get("cfg", "base")
    name = src.names[0]
    ents = []
    for _ in range(2):
        be.wipe()
        assert render(mkenv(cfg, src.loader, be.cache()), name) == expected(cfg, src, name)
        raw = be.raw()
        assert len(raw) >= 1, raw.keys()
        key = bcc.BytecodeCache().get_cache_key(name, _filename(src, name))
        ents.append(raw[key])
        src.modify(0)
    src.modify(0)          # NVER == 3: back to version 0
    assert src.ver == [0, 0]
    be.wipe()
    magic_len = len(bcc.bc_magic)
    chk = pickle.dumps(bcc.BytecodeCache().get_source_checksum(src_a(0)), 2)
    assert ents[0][:magic_len] == bcc.bc_magic and ents[0][magic_len:magic_len + len(chk)] == chk
    S.update(names01=src.names[:2], key=key, entry=ents[0], entry_other=ents[1], hdr_lo=magic_len, hdr_hi=magic_len + len(chk), cfg=cfg, name=name)
    if P.get("what") == "crash":
        S["npoints"] = _count_points()
    if P.get("what") == "foreign":
        S["table"] = _foreign_table()


def _filename(src, name):
    return src.loader.get_source(None, name)[1]


def ENTRY_LEN():
    return len(S["entry"])


# VERIF_C27_NO_EXCLUSIONS=1 ./vf check C27 quick   drops the two pre: exclusions below, so that the check re-finds the
# suspected defects as VIOLATIONs (for confirming them, or for confirming a fix)
NOEXCL = bool(os.environ.get("VERIF_C27_NO_EXCLUSIONS"))


def in_header(off):
    """SUSPECTED DEFECT (pickle.load outside the try): offsets inside the pickled checksum raise instead of missing."""
    return False  # repaired in /repo (fix: a bytecode cache entry truncated inside its checksum is a cache miss)


def _fresh_ok(directory=None, names=None):
    """A fresh environment over the (possibly damaged) store renders the names like an uncached environment."""
    be, src, cfg = S["be"], S["src"], S["cfg"]
    for name in names or src.names:
        if render(mkenv(cfg, src.loader, be.cache(directory)), name) != expected(cfg, src, name):
            return False
    return True


# ------------------------------------------------------------------------------------------------ 1. truncation
def trunc_ok(off: int) -> bool:
    """
    pre: 0 <= off <= ENTRY_LEN() and not in_header(off)
    post: _
    """
    off = pick(off, ENTRY_LEN() + 1)
    with NoTracing():
        return _trunc_native(off)


def _trunc_native(off):
    be = S["be"]
    be.wipe()
    be.put(S["key"], S["entry"][:off])
    # first load sees the truncated entry, second (other fresh environment) whatever the first one wrote back
    return _fresh_ok(names=S["names01"]) and _fresh_ok(names=S["names01"][:1])


# ------------------------------------------------------------------------------------------------ 2. foreign / stale entries
def _foreign_table():
    cur, oth = S["entry"], S["entry_other"]
    lo, hi = S["hdr_lo"], S["hdr_hi"]
    vi = bcc.sys.version_info
    magics = {
        "current": bcc.bc_magic,
        "py-minor+1": b"j2" + pickle.dumps(bcc.bc_version, 2) + pickle.dumps((vi[0] << 24) | (vi[1] + 1), 2),
        "py-minor-1": b"j2" + pickle.dumps(bcc.bc_version, 2) + pickle.dumps((vi[0] << 24) | (vi[1] - 1), 2),
        "py-major-1": b"j2" + pickle.dumps(bcc.bc_version, 2) + pickle.dumps(((vi[0] - 1) << 24) | vi[1], 2),
        "bc_version+1": b"j2" + pickle.dumps(bcc.bc_version + 1, 2) + bcc.bc_magic[2 + len(pickle.dumps(bcc.bc_version, 2)):],
        "bc_version-1": b"j2" + pickle.dumps(bcc.bc_version - 1, 2) + bcc.bc_magic[2 + len(pickle.dumps(bcc.bc_version, 2)):],
        "zeros": b"\0" * lo,
        "pyc": b"\xcb\r\r\n" + b"\0" * (lo - 4),
    }
    table = []
    for mname, m in magics.items():
        for cname, chk in (("current", cur[lo:hi]), ("other-source", oth[lo:hi])):
            for pname, code in (("current", cur[hi:]), ("other-source", oth[hi:])):
                if (mname, cname, pname) == ("current", "current", "other-source"):
                    continue   # a forged entry (valid header, wrong code) is outside the property
                table.append(("%s/%s/%s" % (mname, cname, pname), m + chk + code))
    table.append(("empty", b""))
    table.append(("whole-entry-of-other-source", oth))
    return table


def NFOREIGN():
    return len(S["table"])


def foreign_ok(v: int) -> bool:
    """
    pre: 0 <= v < NFOREIGN()
    post: _
    """
    v = pick(v, NFOREIGN())
    with NoTracing():
        be = S["be"]
        be.wipe()
        be.put(S["key"], S["table"][v][1])
        return _fresh_ok() and _fresh_ok()


# ------------------------------------------------------------------------------------------------ 3. interrupted writes
class _Kill(BaseException):
    """Stands for an asynchronous interruption (KeyboardInterrupt, SystemExit, ...)."""


FAULTS = ["crash-only", "OSError", "MemoryError", "BaseException"]


def _cuts():
    """How many bytes of a written file reach the disk before the fault/crash point (None: every write at once).
    Models the file buffer: the rest arrives when the file is closed - or never, if the fault hit first."""
    lo, hi, n = S["hdr_lo"], S["hdr_hi"], len(S["entry"])
    t = [None, 0, lo - 1, lo, lo + 20, hi - 1, hi, n // 2]
    return t + [1, hi + 3, n - 1] if P.get("morecuts") else t


def NCUTS():
    return len(_cuts())


class Injector:
    def __init__(self, at, fault, snapdir, cut=None):
        self.n = 0
        self.at = at
        self.fault = fault
        self.snapdir = snapdir
        self.cut = cut
        self.raised = None
        self.broken = None      # the file object whose write/close the fault hit: its buffered rest never arrives
        self.trace = []

    def point(self, what, fileobj=None):
        """A point of the write path; at the selected one: snapshot the directory, then raise the fault."""
        if getattr(self, "nested", False):
            return                  # the second writer's own I/O is not a scheduling point
        i = self.n
        self.n += 1
        self.trace.append(what)
        if i == getattr(self, "nested_at", -1):
            # a second worker runs its whole store operation between two I/O steps of this one
            self.nested = True
            try:
                self.nested_fn()
            finally:
                self.nested = False
        if i != self.at:
            return
        if self.snapdir:
            shutil.copytree(S["be"].dir, self.snapdir)
        if self.fault == "crash-only":
            return
        if self.fault == "OSError":
            self.raised = OSError(28, "No space left on device")
        elif self.fault == "MemoryError":
            self.raised = MemoryError()
        else:
            self.raised = _Kill()
        self.raised._vf_injected = True
        # flush_on_close: the exception does not come from the file (serializer, interrupt): CPython flushes the buffer on close
        self.broken = None if getattr(self, "flush_on_close", False) else fileobj
        raise self.raised


class _FileProxy:
    """File object handed to the cache's write path: counts the points, and lets only the first `cut` bytes
    reach the real file before it is closed (all of them when cut is None)."""

    def __init__(self, real, inj):
        self._real = real
        self._inj = inj
        self._buf = b""
        self._disk = 0

    @property
    def name(self):
        return self._real.name

    def _sync(self, everything=False):
        cut = self._inj.cut
        limit = len(self._buf) if everything or cut is None else min(len(self._buf), cut)
        if limit > self._disk:
            self._real.write(self._buf[self._disk:limit])
            self._real.flush()
            self._disk = limit

    def write(self, data):
        self._inj.point("before-write", self)
        self._buf += bytes(data)
        self._sync()
        self._inj.point("after-write", self)
        return len(data)

    def flush(self):
        pass

    def close(self):
        if self._real.closed:
            return
        try:
            self._inj.point("before-close", self)
            if self._inj.broken is not self:     # after a fault in this file the buffered rest never arrives
                self._sync(True)
        finally:
            self._real.close()
        self._inj.point("after-close")

    def __enter__(self):
        return self

    def __exit__(self, *a):
        self.close()
        return False

    def __getattr__(self, n):
        return getattr(self._real, n)


class _Shim:
    """Delegates to a module, overriding a few names."""

    def __init__(self, real, **over):
        self.__dict__["_real"] = real
        self.__dict__.update(over)

    def __getattr__(self, n):
        return getattr(self._real, n)


def _install(inj):
    def ntf(*a, **k):
        inj.point("before-create")
        f = tempfile.NamedTemporaryFile(*a, **k)
        inj.point("after-create")
        return _FileProxy(f, inj)

    def mover(real):
        def mv(*a, **k):
            inj.point("before-rename")
            r = real(*a, **k)
            inj.point("after-rename")
            return r
        return mv

    def opener(file, mode="r", *a, **k):
        if any(c in mode for c in "wax+"):
            inj.point("before-create")
            f = builtins.open(file, mode, *a, **k)
            inj.point("after-create")
            return _FileProxy(f, inj)
        return builtins.open(file, mode, *a, **k)

    bcc.tempfile = _Shim(tempfile, NamedTemporaryFile=ntf)
    bcc.os = _Shim(os, replace=mover(os.replace), rename=mover(os.rename))
    bcc.open = opener


def _uninstall():
    bcc.tempfile = tempfile
    bcc.os = os
    bcc.__dict__.pop("open", None)
    bcc.marshal = marshal


PRIORS = ["empty", "stale", "truncated"]


def _prior(k):
    be = S["be"]
    be.wipe()
    if PRIORS[k] == "stale":
        be.put(S["key"], S["entry_other"])
    elif PRIORS[k] == "truncated":
        be.put(S["key"], S["entry"][: S["hdr_hi"] + 7])


def _count_points():
    n = 0
    for k in range(len(PRIORS)):
        _prior(k)
        inj = Injector(-1, "crash-only", None)
        _install(inj)
        try:
            render(mkenv(S["cfg"], S["src"].loader, S["be"].cache()), S["name"])
        finally:
            _uninstall()
        assert inj.n >= 6, inj.trace
        n = max(n, inj.n)
    return n


def NPOINTS():
    return S["npoints"]


def crash_ok(j: int, fault: int, prior: int, cut: int) -> bool:
    """
    pre: 0 <= j < NPOINTS() and 0 <= fault < len(FAULTS) and 0 <= prior < len(PRIORS) and 0 <= cut < NCUTS()
    post: _
    """
    j = pick(j, NPOINTS())
    fault = pick(fault, len(FAULTS))
    prior = pick(prior, len(PRIORS))
    cut = pick(cut, NCUTS())
    with NoTracing():
        return _crash_native(j, fault, prior, _cuts()[cut])


def _crash_native(j, fault, prior, cut=None):
    be, src, cfg = S["be"], S["src"], S["cfg"]
    _prior(prior)
    snap = os.path.join(WORK, "snap")
    shutil.rmtree(snap, True)
    inj = Injector(j, FAULTS[fault], snap, cut)
    _install(inj)
    try:
        try:
            got = render(mkenv(cfg, src.loader, be.cache()), S["name"])
        except BaseException as e:   # native code only: no CrossHair control flow can pass here
            if e is not inj.raised:
                raise
            got = None               # the injected exception itself came back: legitimate for a failed write
    finally:
        _uninstall()
    if got is not None and got != expected(cfg, src, S["name"]):
        return False
    # the write was attempted at all
    if inj.n < 1:
        return False
    # (a) the process died at point j: whoever opens the directory next gets current templates
    if os.path.isdir(snap) and not _fresh_ok(snap, names=S["names01"][:1]):
        return False
    # (b) the process survived the exception: same for the live directory, twice (second load hits what the first wrote)
    return _fresh_ok(names=S["names01"]) and _fresh_ok(names=S["names01"][:1])


# ------------------------------------------------------------------------------------------------ 3b. two writers of one entry
def two_ok(j: int, j2: int, cut: int) -> bool:
    """
    pre: 0 <= j < NPOINTS() and 0 <= j2 <= NPOINTS() and 0 <= cut < NCUTS()
    post: _
    """
    j = pick(j, NPOINTS())
    j2 = pick(j2, NPOINTS() + 1)
    cut = pick(cut, NCUTS())
    with NoTracing():
        return _two_native(j, j2, _cuts()[cut])


def _two_native(j, j2, cut):
    """Worker NEW (current source) stores its entry; between its I/O steps j-1 and j a worker OLD, which read the
    previous source version, stores *its* entry for the same key through the real dump path; NEW may then be
    interrupted at step j2 by an exception that does not come from the file (j2 == NPOINTS(): not at all).
    Afterwards fresh environments must render the current source."""
    be, src, cfg = S["be"], S["src"], S["cfg"]
    _prior(0)
    inj = Injector(j2, "MemoryError", None, cut)
    inj.flush_on_close = True

    def old_writer():
        cache = be.cache()
        env = mkenv(cfg, src.loader, cache)
        b = cache.get_bucket(env, S["name"], _filename(src, S["name"]), src_a(1))
        b.bytecode_from_string(S["entry_other"])
        if b.code is None:
            raise AssertionError("harness: the previous version's entry does not load under its own checksum")
        cache.set_bucket(b)
    inj.nested_at, inj.nested_fn = j, old_writer
    _install(inj)
    try:
        try:
            got = render(mkenv(cfg, src.loader, be.cache()), S["name"])
        except BaseException as e:   # native code only
            if e is not inj.raised:
                raise
            got = None
    finally:
        _uninstall()
    if got is not None and got != expected(cfg, src, S["name"]):
        return False
    return _fresh_ok(names=S["names01"]) and _fresh_ok(names=S["names01"][:1])


# ------------------------------------------------------------------------------------------------ 4. histories
NOPS = 9        # 0..5 load(env = o // 3, name = o % 3); 6 modify file 0; 7 modify file 1; 8 clear


def _walk(ops):
    """Model of which entry each load hits.  Returns True when some load hits an entry written by the *other*
    environment for the same source version (the shared-cache configuration defect)."""
    can_clear = S["be"].can_clear
    ver = [0, 0]
    m = {}
    for o in ops:
        if o < 6:
            e, n = o // 3, o % 3
            cur = ver[FILE_OF[n]]
            if n in m and m[n][0] == cur:
                if m[n][1] != e:
                    return True
            else:
                m[n] = (cur, e)
        elif o < 8:
            ver[o - 6] = (ver[o - 6] + 1) % NVER
        elif can_clear:
            m = {}
    return False


def cross_reuse(h):
    """SUSPECTED DEFECT (cache key ignores the configuration): only relevant when the two environments differ."""
    if NOEXCL or P.get("cfgs", ["base", "base"])[0] == P.get("cfgs", ["base", "base"])[1]:
        return False
    h = pick(h, NHIST())
    with NoTracing():
        return _walk(ops_of(h))


def HLEN():
    return P.get("hlen", 3)


def NHIST():
    return NOPS ** (HLEN() - (0 if P.get("first") is None else 1))


def ops_of(h):
    """History number -> list of HLEN() operations (base-9 digits, most significant first; an optional fixed
    first operation comes from the condition's parameter).  Every shorter history is a prefix of one of these
    and each load is checked when it happens, so prefixes are covered."""
    n = HLEN() - (0 if P.get("first") is None else 1)
    ds = []
    for _ in range(n):
        ds.append(h % NOPS)
        h //= NOPS
    return ([] if P.get("first") is None else [P["first"]]) + ds[::-1]


def hist_no(ops, first=None):
    h = 0
    for o in (ops if first is None else ops[1:]):
        h = h * NOPS + o
    return h


def hist_ok(h: int) -> bool:
    """
    pre: 0 <= h < NHIST() and not cross_reuse(h)
    post: _
    """
    h = pick(h, NHIST())
    with NoTracing():
        return _hist_native(ops_of(h))


def _hist_native(ops):
    be, src = S["be"], S["src"]
    cfgs = P.get("cfgs", ["base", "base"])
    be.wipe()
    while src.ver[0]:
        src.modify(0)
    while src.ver[1]:
        src.modify(1)
    caches = [be.cache(), be.cache()]
    envs = [mkenv(cfgs[0], src.loader, caches[0]), mkenv(cfgs[1], src.loader, caches[1])]
    ok = True
    for o in ops:
        if o < 6:
            e, n = o // 3, o % 3
            name = src.names[n]
            if render(envs[e], name) != expected(cfgs[e], src, name):
                ok = False
        elif o < 8:
            src.modify(o - 6)
        else:
            caches[0].clear()
    return ok


# ------------------------------------------------------------------------------------------------ 5. memcached fault schedules
def _mc_offsets():
    return [0, S["hdr_hi"] + 3, len(S["entry"]) - 1]


GETF = 6   # ok, raise, miss, trunc x3
SETF = 6   # ok, raise, drop, trunc x3


def _gf(k):
    return [None, "raise", "miss"][k] if k < 3 else ("trunc", _mc_offsets()[k - 3])


def _sf(k):
    return [None, "raise", "drop"][k] if k < 3 else ("trunc", _mc_offsets()[k - 3])


def MCLEN():
    return P.get("mclen", 2)


def NMC():
    n = GETF * SETF
    return n ** MCLEN() if P.get("g0") is None else SETF * n ** (MCLEN() - 1)


def mc_faults(s):
    """Schedule number -> one base-36 digit (get fault * 6 + set fault) per load, least significant first; the
    condition's parameter may fix the first load's get fault (splits the space across conditions)."""
    n = GETF * SETF
    faults = []
    if P.get("g0") is not None:
        faults.append(P["g0"] * SETF + s % SETF)
        s //= SETF
    while len(faults) < MCLEN():
        faults.append(s % n)
        s //= n
    return faults


def mc_ok(s: int) -> bool:
    """
    pre: 0 <= s < NMC()
    post: _
    """
    s = pick(s, NMC())
    with NoTracing():
        return _mc_native(mc_faults(s))


def _mc_native(faults):
    be, src, cfg = S["be"], S["src"], S["cfg"]
    be.wipe()
    cl = be.client
    for i, f in enumerate(faults + [0]):          # a final fault-free load
        cl.get_fault, cl.set_fault, cl.raised = _gf(f // SETF), _sf(f % SETF), False
        name = src.names[i % 2]                   # two names alternate
        try:
            got = render(mkenv(cfg, src.loader, be.cache()), name)
        except FakeError:
            # only legitimate when errors are not ignored and the client really failed during this load
            if be.ignore or not cl.raised:
                return False
            continue
        if got != expected(cfg, src, name):
            return False
    return True


# ------------------------------------------------------------------------------------------------ 6. marshal.load boundary stub
MARSHAL_EXC = [EOFError, ValueError, TypeError]      # the exceptions marshal.load documents for damaged data


def stub_ok(which: int, hit: int) -> bool:
    """
    pre: 0 <= which < len(MARSHAL_EXC) and 0 <= hit <= 1
    post: _
    """
    which = pick(which, len(MARSHAL_EXC))
    hit = pick(hit, 2)
    with NoTracing():
        be = S["be"]
        be.wipe()
        if hit:
            be.put(S["key"], S["entry"])
        calls = []

        def load(f):
            calls.append(1)
            raise MARSHAL_EXC[which]("stub")
        bcc.marshal = _Shim(marshal, load=load)
        try:
            ok = _fresh_ok()
        finally:
            bcc.marshal = marshal
        return ok and (not hit or len(calls) >= 1) and _fresh_ok()


# ------------------------------------------------------------------------------------------------ conditions
def conditions(tier, seed):
    th = tier == "thorough"
    to = 300 if th else 60
    out = []
    for be in ("fs", "dict", "mc"):
        ld = {"fs": "fs", "dict": "dict", "mc": "alias"}[be]
        size = "full" if th else "small"
        out.append(Cond(f"truncate[{be}]", "trunc_ok", mode="B", param={"backend": be, "loader": ld, "src": size}, timeout=to,
                        witnesses=[[0], [1], [14], [70], [400]],
                        bounds=f"every truncation offset 0..len(entry) of a stored entry (about {'2.2' if th else '1.3'} kB), except "
                               "offsets inside the pickled checksum (suspected defect); the name and a second name of the same "
                               "file are loaded by a fresh environment, then the name again by another one"))
        out.append(Cond(f"foreign[{be}]", "foreign_ok", mode="B", param={"backend": be, "loader": ld, "what": "foreign"}, timeout=to,
                        witnesses=[[0], [3], [5], [9], [30]],
                        bounds="entries assembled from {current, other Python minor/major, other bc_version, zero, .pyc} magic x "
                               "{current, other-source} checksum x {current, other-source} code, empty entry, whole other-source entry"))
        out.append(Cond(f"marshal-stub[{be}]", "stub_ok", mode="B", param={"backend": be, "loader": ld}, timeout=to,
                        witnesses=[[0, 1], [2, 0]],
                        bounds="marshal.load replaced by a stub raising each of EOFError/ValueError/TypeError; entry present or absent"))
    for cfg, size in ((("base", "inc"), ("trim+auto", "full"), ("sandbox", "full"), ("async", "full")) if th else
                      (("base", "small"), ("trim+auto", "small"))):
        out.append(Cond(f"write-crash[fs,{cfg},{size}]", "crash_ok", mode="B",
                        param={"backend": "fs", "loader": "fs", "what": "crash", "cfg": cfg, "src": size, "morecuts": th}, timeout=to,
                        witnesses=[[0, 0, 0, 0], [3, 1, 1, 3], [5, 2, 2, 5], [9, 3, 0, 1], [8, 1, 1, 4]],
                        bounds="every point of the write path (before/after temp-file creation, each write, close, rename"
                               + (", for the template and for the template it includes" if size != "small" else "") + ") x "
                               f"{FAULTS} x prior entry {PRIORS} x bytes that reached the disk before the point (all / 0 / around the "
                               "magic and checksum boundaries / half); directory snapshot at the point loaded by a fresh environment"))
    for cfg in (("base", "trim+auto", "async") if th else ("base",)):
        out.append(Cond(f"two-writers[fs,{cfg}]", "two_ok", mode="B",
                        param={"backend": "fs", "loader": "fs", "what": "crash", "cfg": cfg, "src": "small", "morecuts": th}, timeout=to,
                        witnesses=[[3, 5, 1], [2, 4, 1], [4, 6, 0], [1, 0, 0], [5, 5, 3]],
                        bounds="a worker that read the previous source version stores its entry (real dump path) between any two I/O steps of the "
                               "worker storing the current one x the latter interrupted at any later or earlier step by an exception not coming "
                               "from the file, or not at all x bytes that reached the disk before close (all / 0 / around the header boundaries / half); "
                               "fresh environments must then render the current source"))
    ml = 3 if th else 2
    for ign, g0 in [(i, g) for i in (True, False) for g in (range(GETF) if th else [None])]:
        out.append(Cond(f"memcached-faults[ignore={ign}" + ("]" if g0 is None else f",first get fault={g0}]"), "mc_ok", mode="B",
                        param={"backend": "mc", "loader": "alias", "ignore": ign, "mclen": ml, "src": "inc", "g0": g0}, timeout=to,
                        witnesses=[[0], [7 + 36 * 1], [35 + 36 * 20], [12], [1295]],
                        bounds=f"{ml} loads (two names alternating), each with get fault in ok/raise/None/truncated(3 offsets) x "
                               "set fault in ok/raise/drop/truncated(3 offsets), then a fault-free load"))
    hl = 5 if th else 4
    plans = [("fs", "fs", ["base", "base"], hl), ("dict", "alias", ["base", "base"], hl - 1),
             ("mc", "alias", ["trim+auto", "trim+auto"], hl - 1), ("dict", "dict", ["sandbox", "sandbox"], hl - 1)]
    for other in ("autoescape", "delims", "trim", "async", "sandbox", "finalize"):
        plans.append(("fs" if other in ("autoescape", "sandbox") else "dict", "alias" if other != "delims" else "fs",
                      ["base", other], hl - 1))
    for be, ld, cfgs, n in plans:
        same = cfgs[0] == cfgs[1]
        firsts = list(range(NOPS)) if n >= 4 else [None]
        for first in firsts:
            f0 = first if first is not None else 0
            if same:
                wit = [[f0, 6, 3, 0, 3], [f0, 8, 4, 1, 6], [f0, 7, 7, 2, 5], [f0, 0, 3, 6, 3]]
            else:
                wit = [[f0, 4, 7, 5, 7], [f0, 8, 3, 3, 6], [f0 + 2, 7, 5, 6, 8]]
                if first is not None:   # witnesses must themselves respect the exclusion
                    wit = [[first, 8, 7, 6, 8][:n], [first, 6, 7, 8, 6][:n]]
            out.append(Cond(f"history[{be},{ld},{cfgs[0]}/{cfgs[1]}" + (f",first={first}]" if first is not None else "]"),
                            "hist_ok", mode="B",
                            param={"backend": be, "loader": ld, "cfgs": cfgs, "hlen": n, "first": first, "cfg": cfgs[0],
                                   "src": "inc" if same else "noinc"},
                            timeout=to,
                            witnesses=[[hist_no(w[:n], first)] for w in wit],
                            bounds=f"all histories of {n} operations (argument = history number, base-9 digits) from load(env 0/1, "
                                   "3 names of which two share one file)/modify file 0/modify file 1/clear, two environments "
                                   "sharing one store; every load is checked, so shorter histories are covered as prefixes"
                                   + ("" if same else "; histories in which an environment hits an entry written by "
                                      "the differently configured other one are excluded (suspected defect)")))
    return out


def known_cross_config_ok():
    """Known-finding witness: the cache key/checksum ignore the environment's compile-relevant configuration."""
    from jinja2 import DictLoader, Environment
    from jinja2.bccache import BytecodeCache

    class MemCache(BytecodeCache):
        def __init__(self):
            self.store = {}

        def load_bytecode(self, bucket):
            if bucket.key in self.store:
                bucket.bytecode_from_string(self.store[bucket.key])

        def dump_bytecode(self, bucket):
            self.store[bucket.key] = bucket.bytecode_to_string()

    cache = MemCache()
    loader = DictLoader({"t": "a{% if true %}\n  b{% endif %}"})
    e0 = Environment(loader=loader, bytecode_cache=cache)
    e1 = Environment(loader=loader, bytecode_cache=cache, trim_blocks=True, lstrip_blocks=True)
    e0.get_template("t").render()
    got = e1.get_template("t").render()
    exp = Environment(loader=loader, trim_blocks=True, lstrip_blocks=True).get_template("t").render()
    return got == exp
