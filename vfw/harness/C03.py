"""C03 — statements and variable scoping follow Jinja's scoping rules.

Programs of a small statement language (vfw/tmodel.py: output, if/else, for/else with loop filter, set,
block set, with, filter block, macros, call blocks, namespaces) are generated from a seeded grammar,
printed to Jinja source and compiled natively; every ``if`` reads a distinct symbolic bool and every
``for`` iterates a symbolic int list (mode A), so the solver decides which assignments execute.  The
observations (recorded values + rendered text) must equal those of an independent reference interpreter
of the documented scoping rules.  Each program is also rendered after a consistent renaming of its
variables to other identifiers (non-ASCII, Python keywords, names that look like generated-code
internals): the observations must not change.
"""
import random
from typing import List

from jinja2 import Environment
from jinja2.runtime import Macro as JMacro, Undefined
from jinja2.utils import Namespace
from vfw import tmodel as M
from vfw.core import Cond
from vfw.support import NoTracing, Rec, drive

FUNCTIONS = ["jinja2.idtracking (Symbols.store/load/declare_parameter/branch_update, RootVisitor, FrameSymbolVisitor)",
             "jinja2.compiler (Frame.inner/soft, enter_frame/leave_frame, push/pop_assign_tracking, visit_For/If/With/Macro/CallBlock/FilterBlock/Assign/AssignBlock/Name/NSRef)",
             "jinja2.runtime (Context, Macro, LoopContext, new_context)", "jinja2.utils.Namespace"]
OUTSIDE = ["programs deeper than 3 levels or longer than ~12 statements", "identifiers outside the renaming tables",
           "assignments inside a for-else branch and macros defined below the top level (documentation is silent on their scope)"]
ASSUMPTIONS = ["reference interpreter in vfw/tmodel.py transcribes docs/templates.rst (Assignments / Scoping Behavior / For / Macros / Call / With)"]

NAMES = ["x", "y", "z"]
RENAMES = [
    {"x": "class_", "y": "l_1_x", "z": "t_1", "i": "é", "p": "context", "m1": "resolve", "m2": "missing", "ns": "environment"},
    {"x": "y", "y": "z", "z": "x", "i": "_loop_vars", "p": "self_", "m1": "concat", "m2": "undefined", "ns": "str_join"},
    {"x": "def_", "y": "Ünï", "z": "l_0_y", "i": "item", "p": "l_2_p", "m1": "macro_", "m2": "cond_expr_undefined", "ns": "blocks"},
]
ENV = Environment()
AENV = Environment(enable_async=True)


def _namespace(*a, **k):
    # CrossHair's constructor interception trips over Namespace.__getattribute__ before __init__ ran;
    # build the (real) Namespace object outside tracing.
    with NoTracing():
        return Namespace(*a, **k)


ENV.globals["namespace"] = _namespace
AENV.globals["namespace"] = _namespace
P = {}
PROG = None
T = None
TR = []


def gen_body(rnd, depth, in_macro, macros, in_loop=0, budget=None):
    n = rnd.randint(1, 3 if depth else 4)
    out = []
    for _ in range(n):
        out.extend(gen_stmt(rnd, depth, in_macro, macros, in_loop))
    return out


def gen_expr(rnd, in_macro):
    r = rnd.random()
    if r < 0.35:
        return ("c", rnd.randint(1, 9))
    if r < 0.6:
        return ("v", rnd.choice(NAMES + (["p"] if in_macro else []) + ["g", "i"]))
    if r < 0.9:
        return ("vd", rnd.choice(NAMES + ["g"]), rnd.randint(1, 3))
    return ("nsget", "ns", "a")


def gen_stmt(rnd, depth, in_macro, macros, in_loop):
    r = rnd.random()
    name = rnd.choice(NAMES)
    obs = [("out", ("v", rnd.choice(NAMES)))]
    if depth >= 3 or r < 0.22:
        return [("set", name, gen_expr(rnd, in_macro))] + obs
    if r < 0.30:
        return [("out", gen_expr(rnd, in_macro)), ("text", rnd.choice("abc"))]
    if r < 0.44:
        return [("if", rnd.randint(0, 3), gen_body(rnd, depth + 1, in_macro, macros, in_loop),
                 gen_body(rnd, depth + 1, in_macro, macros, in_loop) if rnd.random() < 0.5 else None)] + obs
    if r < 0.60:
        var = rnd.choice(["i", "i", name])
        orelse = [("out", ("v", rnd.choice(NAMES))), ("text", "e")] if rnd.random() < 0.4 else None
        if orelse is not None and in_loop and rnd.random() < 0.6:
            orelse.append(("out", ("loopidx",)))       # the else branch belongs to the enclosing scope: the outer loop's `loop`
        body = gen_body(rnd, depth + 1, in_macro, macros, in_loop + 1)
        if rnd.random() < 0.35:
            body.append(("out", ("loopidx",)))
        return [("for", var, rnd.choice(["xs", "ys"]), body, orelse, rnd.random() < 0.3)] + obs
    if r < 0.68:
        return [("with", name, gen_expr(rnd, in_macro), gen_body(rnd, depth + 1, in_macro, macros, in_loop))] + obs
    if r < 0.75:
        return [("setblock", name, gen_body(rnd, depth + 1, in_macro, macros, in_loop))] + obs
    if r < 0.80:
        return [("filterblock", gen_body(rnd, depth + 1, in_macro, macros, in_loop))] + obs
    if r < 0.87 and macros and not in_macro:
        m = rnd.choice(macros)
        return [("callm", m, [gen_expr(rnd, in_macro)])] + obs
    if r < 0.92 and [m for m in macros if m in CALLER_MACROS] and not in_macro:
        m = rnd.choice([m for m in macros if m in CALLER_MACROS])
        return [("callblock", m, [gen_expr(rnd, in_macro)], gen_body(rnd, depth + 1, in_macro, macros, in_loop))] + obs
    if r < 0.96:
        return [("nsset", "ns", "a", gen_expr(rnd, in_macro))] + obs
    return [("out", ("nsget", "ns", "a"))]


def gen_program(seed):
    rnd = random.Random(seed)
    CALLER_MACROS.clear()
    prog = [("nsinit", "ns", "a", ("c", 0))]
    macros = []
    for k in range(rnd.randint(0, 2)):
        nm = "m%d" % (k + 1)
        body = gen_body(rnd, 1, True, [], 0) + [("out", ("v", "p")), ("text", "M")]
        if rnd.random() < 0.6:
            body.append(("caller",))
            CALLER_MACROS.add(nm)
        if rnd.random() < 0.5:
            prog.append(("set", rnd.choice(NAMES), ("c", 10 + k)))
        prog.append(("macro", nm, ["p"], body))
        macros.append(nm)
    prog.extend(gen_body(rnd, 0, False, macros, 0))
    prog.extend(("out", ("v", n)) for n in NAMES)
    prog.append(("out", ("nsget", "ns", "a")))
    return prog


CALLER_MACROS = set()

# hand-written programs deeper than the generator goes: a name defined in a non-top-level scope, two or more scopes that do not
# mention it, then a conditional assignment and reads in the innermost scope
_O = lambda n: ("out", ("v", n))      # noqa: E731
DEEP = [
    [("nsinit", "ns", "a", ("c", 0)),
     ("with", "x", ("c", 5), [("for", "z", "ys", [("for", "i", "xs", [("if", 0, [("set", "x", ("c", 9)), _O("x")], None), _O("x")], None, False)], None, False), _O("x")]), _O("x")],
    [("nsinit", "ns", "a", ("c", 0)),
     ("for", "x", "ys", [("with", "y", ("c", 1), [("for", "i", "xs", [("if", 1, [_O("x"), ("set", "x", ("v", "i")), _O("x")], [_O("x")]), _O("x")], None, False)]), _O("x")], None, False), _O("x")],
    [("nsinit", "ns", "a", ("c", 0)),
     ("macro", "m1", ["p"], [("with", "y", ("c", 2), [("for", "i", "xs", [("if", 2, [("set", "p", ("c", 8))], None), _O("p")], None, False)]), _O("p"), ("text", "M")]),
     ("callm", "m1", [("v", "g")]), ("set", "x", ("c", 3)), ("callm", "m1", [("v", "x")])],
    [("nsinit", "ns", "a", ("c", 0)),
     ("for", "i", "xs", [("set", "z", ("v", "i")), ("with", "y", ("c", 2), [("filterblock", [("if", 2, [("set", "z", ("c", 0))], None), _O("z")]), _O("z")]), _O("z")], None, False), _O("z")],
    [("nsinit", "ns", "a", ("c", 0)), ("set", "y", ("c", 4)),
     ("with", "x", ("v", "g"), [("setblock", "z", [("for", "i", "ys", [("if", 3, [("set", "x", ("vd", "x", 1)), _O("x")], [("set", "y", ("c", 6))]), _O("x"), _O("y")], None, False)]), _O("z"), _O("x"), _O("y")]),
     _O("x"), _O("y")],
    [("nsinit", "ns", "a", ("c", 0)),
     ("for", "x", "xs", [("for", "y", "ys", [("with", "z", ("c", 1), [("if", 0, [("if", 1, [("set", "x", ("c", 7))], [("set", "y", ("c", 8))])], None), _O("x"), _O("y")])], None, False), _O("x")], None, False)],
]


def setup(param):
    global P, PROG, T, TR
    P = dict(param or {})
    PROG = DEEP[P["deep"]] if P.get("deep") is not None else gen_program(P.get("prog", 0))
    env = AENV if P.get("asyncm") else ENV
    T = env.from_string(M.pstmts(PROG, M.ident))
    TR = []
    for mp in [RENAMES[P.get("prog", 0) % len(RENAMES)]]:
        TR.append(env.from_string(M.pstmts(PROG, lambda n, mp=mp: mp.get(n, n))))


def _norm(v):
    if isinstance(v, Undefined):
        return M.UNDEF
    if isinstance(v, JMacro):
        return "<macro>"
    if isinstance(v, Namespace):
        return "<ns>"
    if isinstance(v, str):
        return str(v)
    return v


def _run(t, ctx):
    rec = Rec()
    try:
        if P.get("asyncm"):
            text = drive(t.render_async(rec=rec, **ctx))
        else:
            text = t.render(rec=rec, **ctx)
    except Exception as e:
        return ("exc", type(e).__name__, [tuple(_norm(v) for v in r) for r in rec.log])

    return ("ok", str(text), [tuple(_norm(v) for v in r) for r in rec.log])


def _ref(ctx):
    it = M.Interp({"main": PROG})
    try:
        text, log = it.render("main", ctx)
    except M.TplRuntimeError:
        return ("exc", "TemplateRuntimeError", [tuple(M.normalize_value(v) for v in r) for r in it.log])
    except TypeError:
        return ("exc", "TypeError", [tuple(M.normalize_value(v) for v in r) for r in it.log])
    except M.TplUndefined:
        return ("exc", "UndefinedError", [tuple(M.normalize_value(v) for v in r) for r in it.log])
    return ("ok", text, [tuple(M.normalize_value(v) for v in r) for r in log])


def prog_ok(cs: List[bool], xs: List[int], ys: List[int], t: int, g: int) -> bool:
    """
    pre: len(cs) == 4 and len(xs) <= 2 and len(ys) <= 2
    post: _
    """
    ctx = dict(c0=cs[0], c1=cs[1], c2=cs[2], c3=cs[3], xs=[v for v in xs], ys=[v for v in ys], t=t, g=g)
    exp = _ref(ctx)
    got = _run(T, ctx)
    if got != exp:
        return False
    for tr in TR:
        if _run(tr, ctx) != exp:
            return False
    return True


def known_nfkc_alias_ok():
    """Known-finding witness: identifiers that are distinct strings but NFKC-equal alias in the generated Python."""
    out = ENV.from_string("{% set H = 1 %}{% set ℌ = 2 %}{{ H }}").render()
    return out == "1"


def conditions(tier, seed):
    th = tier == "thorough"
    n = 400 if th else 70
    to = 120 if th else 25
    out = []
    for i in range(n):
        pid = seed * 100000 + i
        asyncm = (i % 4 == 3)
        out.append(Cond(f"program#{pid}{'[async]' if asyncm else ''}", "prog_ok", mode="A", param={"prog": pid, "asyncm": asyncm}, timeout=to,
                        witnesses=[[[True, False, True, False], [5, 1], [2], 3, 7], [[False] * 4, [], [], 0, 0], [[True] * 4, [4], [6, 6], 5, -1]],
                        bounds="one generated program (depth <= 3): any 4 branch bools, any int lists xs, ys of length <= 2, any loop-filter threshold t and context value g; plus one of 3 consistent renamings (rotating with the program number)"))
    for k in range(len(DEEP)):
        for asyncm in (False, True):
            out.append(Cond(f"deep program#{k}{'[async]' if asyncm else ''}", "prog_ok", mode="A", param={"deep": k, "prog": k, "asyncm": asyncm}, timeout=to * 2,
                            witnesses=[[[True, False, True, False], [5, 1], [2], 3, 7], [[False] * 4, [], [], 0, 0], [[True] * 4, [4], [6, 6], 5, -1], [[False, True, False, True], [1, 2], [3], 0, 2]],
                            bounds="hand-written program with a definition two or more scopes above a conditional assignment: any 4 branch bools, int lists of length <= 2, any context value"))
    return out
