"""C21 — undefined values behave as documented for every undefined type.

Oracle = the documentation, transcribed into a table:

* docs/api.rst "Undefined Types", docs/templates.rst "Variables" ("the default behavior is to evaluate to an
  empty string if printed or iterated over, and to fail for every other operation") and the class docstrings in
  ``jinja2.runtime``:
  - ``Undefined``: can be printed (``''``), iterated (empty) and treated as a boolean (false); any other
    operation raises ``UndefinedError`` (``'foo' is undefined``).
  - ``ChainableUndefined``: like ``Undefined`` but ``__getattr__`` / ``__getitem__`` return itself;
    ``foo.bar['baz'] + 42`` raises ``UndefinedError: 'foo' is undefined``.
  - ``DebugUndefined``: like ``Undefined`` but printing returns the debug info (``'{{ foo }}'``).
  - ``StrictUndefined``: barks on print, iteration, boolean tests and all kinds of comparisons (also ``len``,
    ``in``, ``hash``): nothing can be done with it except the ``defined`` test (and the ``default`` filter, which
    is documented as a definedness check).
  - ``make_logging_undefined(base=X)``: behaves as ``X`` and additionally logs printing and iteration.
* CHANGES.rst: ``in`` on an ``Undefined`` is an empty iteration (false), on ``StrictUndefined`` an
  ``UndefinedError``; ``Undefined`` is iterable in async environments; undefined objects are hashable; the
  copy / pickle protocols work on undefined objects (dunder names raise ``AttributeError``).

Where the documentation is silent the table uses the weakest reading that is consistent with it: ``len`` of a
non-strict undefined is 0 (it iterates as empty), ``==`` / ``!=`` of a non-strict undefined against a defined value
are False / True (bool results, mutually consistent, hash-consistent between two undefined values).

Mode B: selectors (origin of the undefined value, operation) are decoded under tracing, then the real code runs
natively against every operand of the operand table (both operand orders are separate operations): once from Python on an undefined produced by the real ``Environment.getattr`` / ``getitem`` /
``undefined`` / ``Context.resolve``, once through compiled templates (sync and async), the undefined value being
produced by the generated code inside the same template.
Mode A: ``__getattr__`` of each type over symbolic attribute names.
"""
import copy
import logging
import operator
import pickle
from typing import List

from markupsafe import Markup, escape

from jinja2 import ChainableUndefined, DebugUndefined, Environment, StrictUndefined, Undefined, is_undefined, make_logging_undefined
from jinja2.exceptions import UndefinedError
from jinja2.utils import missing
from vfw.core import Cond, pick
from vfw.support import NoTracing, drive, drive_agen

FUNCTIONS = [
    "jinja2.runtime.Undefined (operator table, __getattr__, __eq__/__ne__/__hash__/__str__/__len__/__iter__/__aiter__/__bool__, _undefined_message, _fail_with_undefined_error)",
    "jinja2.runtime.ChainableUndefined / DebugUndefined / StrictUndefined / make_logging_undefined",
    "jinja2.tests.test_defined/test_undefined, jinja2.filters.do_default (through Environment.call_test/call_filter and compiled templates)",
    "jinja2.environment.Environment.getattr/getitem/undefined, jinja2.runtime.Context.resolve/call (creation of undefined values)",
    "generated template code for printing, if/for, operators, subscripts, calls, tests and filters applied to undefined values",
]
OUTSIDE = [
    "operations not named in the property's operation table (abs, round, divmod, index conversion, bytes, |int / |float filters)",
    "str % undefined (Python's str formatting operator runs before the reflected operator of the undefined value)",
    "pickling the classes returned by make_logging_undefined (local classes cannot be pickled by Python); pickle protocols 0/1 (slots)",
    "attribute names longer than 6 characters in the symbolic __getattr__ check; the names '__' and '___' (either outcome accepted)",
    "undefined values created with a non-default exception class (sandbox SecurityError)",
]
ASSUMPTIONS = [
    "templates are compiled natively (cached per environment); only decoding of the selectors is symbolic in mode B; "
    "the operand table is looped natively inside each (origin, operation) path",
    "mode A (__getattr__ over symbolic names) runs with the logger of the logging variants disabled; logging is checked in mode B",
    "the oracle table in this module is a faithful transcription of docs/api.rst, docs/templates.rst, CHANGES.rst and the class docstrings",
]
SUSPECTED_DEFECTS = [
    "StrictUndefined is silently iterable in async environments: Environment(undefined=StrictUndefined, enable_async=True)"
    ".from_string(\"{% for x in missing %}I{% else %}E{% endfor %}|{{ missing|list }}|{{ missing|join(',') }}\").render_async() "
    "returns 'E|[]|' instead of raising UndefinedError (StrictUndefined overrides __iter__ but inherits Undefined.__aiter__; "
    "auto_aiter prefers __aiter__).  Documentation: 'barks on print and iteration'.",
    "make_logging_undefined(...) does not log iteration in async environments for the same reason (__aiter__ is not wrapped): "
    "'{% for x in missing %}{% endfor %}' rendered with render_async logs nothing; documentation: 'It will log iterations and printing'.",
]

# ------------------------------------------------------------------------------------------------ classes
LOG = []


class _Handler(logging.Handler):
    def emit(self, record):
        LOG.append(record.getMessage())


LOGGER = logging.getLogger("vfw.c21")
LOGGER.propagate = False
LOGGER.setLevel(logging.DEBUG)
if not LOGGER.handlers:
    LOGGER.addHandler(_Handler())

KINDS = ["default", "chainable", "debug", "strict"]
BASE = {"default": Undefined, "chainable": ChainableUndefined, "debug": DebugUndefined, "strict": StrictUndefined}
CLASSES = {}
ENVS = {}


class Thing:
    """An object without attribute / item 'nope' (module level so that it can be pickled)."""

    def __init__(self):
        self.real = 1

    def __eq__(self, other):
        return type(other) is Thing and other.real == self.real

    def __hash__(self):
        return 7


HINT = "custom hint text 42"


def _build():
    for kind in KINDS:
        for log in (False, True):
            cls = make_logging_undefined(logger=LOGGER, base=BASE[kind]) if log else BASE[kind]
            CLASSES[kind, log] = cls
            for asyncm in (False, True):
                env = Environment(undefined=cls, enable_async=asyncm)
                env.globals["mk"] = (lambda e: lambda: e.undefined(hint=HINT))(env)
                env.globals["mkn"] = (lambda e: lambda: e.undefined(name="foo"))(env)
                ENVS[kind, log, asyncm] = env


_build()

P = {}
KIND = "default"
LOGV = False
CLS = Undefined
ENV = None
TCACHE = {}


def setup(param):
    global P, KIND, LOGV, CLS, ENV
    P = dict(param or {})
    KIND = P.get("kind", "default")
    LOGV = bool(P.get("log", False))
    CLS = CLASSES[KIND, LOGV]
    ENV = ENVS[KIND, LOGV, P.get("route") == "atpl"]
    del LOG[:]
    global NOPS_, KNOWN_
    route = P.get("route", "py")
    ops = _ops()
    NOPS_ = len(ops)
    KNOWN_ = [i for i, op in enumerate(ops) if _defect(route, KIND, LOGV, op[0], op[1])]
    # mode A runs Undefined.__getattr__ under tracing: keep the logging machinery (clocks, locks, record objects) out of
    # the symbolic run; what is logged is checked by the mode B conditions
    LOGGER.disabled = "maxname" in P


# ------------------------------------------------------------------------------------------------ origins
# (tag, template expression, python factory, name that the message must mention, exact message or None)
def _resolve(env, key):
    return env.from_string("").new_context({}).resolve(key)


ORIGINS = [
    ("name", "foo", lambda env: _resolve(env, "foo"), "foo", "'foo' is undefined"),
    ("objattr", "obj.nope", lambda env: env.getattr(Thing(), "nope"), "nope", None),
    ("objitem", "obj['nope']", lambda env: env.getitem(Thing(), "nope"), "nope", None),
    ("dictattr", "d.nokey", lambda env: env.getattr({"a": 1}, "nokey"), "nokey", None),
    ("dictitem", "d['k']", lambda env: env.getitem({"a": 1}, "k"), "k", None),
    ("seqitem", "seq[7]", lambda env: env.getitem([1, 2], 7), 7, None),
    ("hint", "mk()", lambda env: env.undefined(hint=HINT), HINT, HINT),
    ("ctor", "mkn()", lambda env: env.undefined(name="foo"), "foo", "'foo' is undefined"),
    # only for the chainable kinds: the chained value stands for the original missing name
    ("chain", "foo.bar['baz']", lambda env: _resolve(env, "foo").bar["baz"], "foo", "'foo' is undefined"),
]


def NORIG():
    return len(ORIGINS) if KIND == "chainable" else len(ORIGINS) - 1


def _ctx():
    return {"obj": Thing(), "d": {"a": 1}, "seq": [1, 2]}


# operands; index OTHER means "another undefined value of the same class, named 'o'"
OPERANDS = [1, "a", None, 2.5, [1], True, 0, "OTHER"]
OTHER = len(OPERANDS) - 1
OTHER_MSG = "'o' is undefined"


def _names(msg, oi, other_ok=False):
    """The error message names the missing variable / attribute / item (or is the explicit hint)."""
    _, _, _, name, exact = ORIGINS[oi]
    if exact is not None:
        ok = msg == exact
    else:
        ok = str(name) in msg
    return ok or (other_ok and msg == OTHER_MSG)


def _debug_text_ok(s, oi):
    """DebugUndefined: 'returns the debug info when printed' ('{{ foo }}' for a missing name)."""
    tag, _, _, name, exact = ORIGINS[oi]
    if tag in ("name", "ctor"):
        return s == "{{ foo }}"
    return s.startswith("{{ ") and s.endswith(" }}") and str(name) in s


# ------------------------------------------------------------------------------------------------ operation tables
# categories:
#   print  : default/chainable -> '' ; debug -> debug text ; strict -> UndefinedError          (logged by logging variants)
#   false  : non-strict -> the given value ; strict -> UndefinedError
#   iter   : like false, and logged by logging variants
#   err    : UndefinedError for every type
#   access : chainable -> the undefined itself ; others -> UndefinedError
#   always : the given value for every type (definedness tests, default filter)
#   eq/ne  : non-strict -> False/True against defined operands (bool, ne == not eq against another undefined) ; strict -> error
#   copy   : succeeds for every type and yields an equivalent undefined
BIN = [("+", operator.add), ("-", operator.sub), ("*", operator.mul), ("/", operator.truediv), ("//", operator.floordiv),
       ("%", operator.mod), ("**", operator.pow)]
CMP = [("<", operator.lt), ("<=", operator.le), (">", operator.gt), (">=", operator.ge)]


def _same_slots(r, u):
    if type(r) is not type(u):
        return False
    if (r._undefined_obj is missing) != (u._undefined_obj is missing):
        return False
    if r._undefined_obj is not missing and r._undefined_obj != u._undefined_obj:
        return False
    return (r._undefined_hint == u._undefined_hint and r._undefined_name == u._undefined_name
            and r._undefined_exception is u._undefined_exception and r._undefined_message == u._undefined_message)


def _py_ops():
    ops = [
        ("str", "print", False, lambda u, o: str(u), None),
        ("format", "print", False, lambda u, o: "{}".format(u), None),
        ("percent-s", "print", False, lambda u, o: "%s" % (u,), None),
        ("escape", "print", False, lambda u, o: str(Markup(escape(u)).unescape()), None),
        ("bool", "false", False, lambda u, o: bool(u), False),
        ("not", "false", False, lambda u, o: not u, True),
        ("list", "iter", False, lambda u, o: list(u), []),
        ("for", "iter", False, lambda u, o: [x for x in u], []),
        ("aiter", "aiter", False, lambda u, o: drive_agen(u.__aiter__()), []),
        ("len", "false", False, lambda u, o: len(u), 0),
        ("contains", "false", True, lambda u, o: o in u, False),
        ("not-contains", "false", True, lambda u, o: o not in u, True),
        ("==", "eq", True, lambda u, o: u == o, None),
        ("r==", "eq", True, lambda u, o: o == u, None),
        ("!=", "ne", True, lambda u, o: u != o, None),
        ("r!=", "ne", True, lambda u, o: o != u, None),
        ("in-list", "eq", True, lambda u, o: u in [o], None),
        ("eq-self", "false", False, lambda u, o: (u == u, u != u), (True, False)),
        ("eq-ne-consistent", "false", False, lambda u, o: (lambda v: (u == v) is (not (u != v)) and (not (u == v) or hash(u) == hash(v)))(ENV.undefined(name="o")), True),
        ("hash", "false", False, lambda u, o: hash(u) == hash(u) and isinstance(hash(u), int), True),
        ("dict-key", "false", False, lambda u, o: {u: 1}[u], 1),
        ("set-member", "false", False, lambda u, o: u in {u}, True),
        ("neg", "err", False, lambda u, o: -u, None),
        ("pos", "err", False, lambda u, o: +u, None),
        ("int", "err", False, lambda u, o: int(u), None),
        ("float", "err", False, lambda u, o: float(u), None),
        ("complex", "err", False, lambda u, o: complex(u), None),
        ("getattr-bar", "access", False, lambda u, o: u.bar, None),
        ("getattr-x", "access", False, lambda u, o: u.x, None),
        ("getattr-_private", "access", False, lambda u, o: u._private, None),
        ("getattr-items", "access", False, lambda u, o: u.items, None),
        ("getattr-builtin", "access", False, lambda u, o: getattr(u, "upper"), None),
        ("getitem-k", "access", False, lambda u, o: u["k"], None),
        ("getitem-0", "access", False, lambda u, o: u[0], None),
        ("getitem-slice", "access", False, lambda u, o: u[1:2], None),
        ("getitem-o", "access", True, lambda u, o: u[o], None),
        ("call", "err", False, lambda u, o: u(), None),
        ("call-args", "err", False, lambda u, o: u(1, a=2), None),
        ("test-defined", "always", False, lambda u, o: ENV.call_test("defined", u), False),
        ("test-undefined", "always", False, lambda u, o: ENV.call_test("undefined", u), True),
        ("is_undefined", "always", False, lambda u, o: is_undefined(u), True),
        ("default", "always", False, lambda u, o: ENV.call_filter("default", u, ["d"]), "d"),
        ("default-bool", "always", False, lambda u, o: ENV.call_filter("default", u, ["d", True]), "d"),
        ("d-alias", "always", False, lambda u, o: ENV.call_filter("d", u, ["d"], {"boolean": True}), "d"),
        ("default-noarg", "always", False, lambda u, o: ENV.call_filter("default", u), ""),
        ("copy", "copy", False, lambda u, o: _same_slots(copy.copy(u), u), True),
        ("deepcopy", "copy", False, lambda u, o: _same_slots(copy.deepcopy(u), u), True),
    ]
    for proto in (2, 3, 4, 5):
        ops.append(("pickle-%d" % proto, "pickle", False,
                    (lambda pr: lambda u, o: _same_slots(pickle.loads(pickle.dumps(u, pr)), u))(proto), True))
    for sym, f in BIN + CMP:
        ops.append((sym, "err", True, (lambda f: lambda u, o: f(u, o))(f), None))
        ops.append(("r" + sym, "err", True, (lambda f: lambda u, o: f(o, u))(f), None))
    return ops


def _tpl_ops():
    # (name, category, needs operand, source (@E = the expression producing the undefined), "text"|"rec", value, undo)
    ident = lambda s: s  # noqa: E731
    ops = [
        ("print", "print", False, "{{ @E }}", "text", None, ident),
        ("concat", "print", False, "{{ @E ~ 'x' }}", "text", None, lambda s: s[:-1] if s.endswith("x") else None),
        ("concat-left", "print", False, "{{ 'x' ~ @E }}", "text", None, lambda s: s[1:] if s.startswith("x") else None),
        ("autoescape", "print", False, "{% autoescape true %}{{ @E }}{% endautoescape %}", "text", None, lambda s: str(Markup(s).unescape())),
        ("string-filter", "print", False, "{{ rec(@E|string) }}", "rec", None, ident),
        ("format-filter", "print", False, "{{ rec('%s'|format(@E)) }}", "rec", None, ident),
        ("if", "false", False, "{% if @E %}T{% else %}F{% endif %}", "text", "F", None),
        ("elif", "false", False, "{% if false %}A{% elif @E %}T{% else %}F{% endif %}", "text", "F", None),
        ("not", "false", False, "{{ rec(not @E) }}", "rec", True, None),
        ("or", "false", False, "{{ rec(@E or 'z') }}", "rec", "z", None),
        ("cond-expr", "false", False, "{{ 'T' if @E else 'F' }}", "text", "F", None),
        ("for", "iter", False, "{% for x in @E %}I{% else %}L{% endfor %}", "text", "L", None),
        ("for-loopvar", "iter", False, "{% for x in @E %}{{ loop.index }}{% else %}L{% endfor %}", "text", "L", None),
        ("list-filter", "iter", False, "{{ rec(@E|list) }}", "rec", [], None),
        ("join-filter", "iter", False, "{{ rec(@E|join(',')) }}", "rec", "", None),
        ("in", "false", True, "{{ rec(o in @E) }}", "rec", False, None),
        ("not-in", "false", True, "{{ rec(o not in @E) }}", "rec", True, None),
        ("length", "false", False, "{{ rec(@E|length) }}", "rec", 0, None),
        ("count", "false", False, "{{ rec(@E|count) }}", "rec", 0, None),
        ("==", "eq", True, "{{ rec(@E == o) }}", "rec", None, None),
        ("r==", "eq", True, "{{ rec(o == @E) }}", "rec", None, None),
        ("!=", "ne", True, "{{ rec(@E != o) }}", "rec", None, None),
        ("r!=", "ne", True, "{{ rec(o != @E) }}", "rec", None, None),
        ("in-list", "eq", True, "{{ rec(@E in [o]) }}", "rec", None, None),
        ("eq-test", "eq", True, "{{ rec(@E is eq(o)) }}", "rec", None, None),
        ("ne-test", "ne", True, "{{ rec(@E is ne(o)) }}", "rec", None, None),
        ("dict-key", "false", False, "{{ rec({@E: 1}|length) }}", "rec", 1, None),
        ("neg", "err", False, "{{ rec(-@E) }}", "rec", None, None),
        ("pos", "err", False, "{{ rec(+@E) }}", "rec", None, None),
        ("attr", "access", False, "{{ rec(@E.bar) }}", "rec", None, None),
        ("attr-underscore", "access", False, "{{ rec(@E._x) }}", "rec", None, None),
        ("item-k", "access", False, "{{ rec(@E['k']) }}", "rec", None, None),
        ("item-0", "access", False, "{{ rec(@E[0]) }}", "rec", None, None),
        ("item-slice", "access", False, "{{ rec(@E[1:2]) }}", "rec", None, None),
        ("item-o", "access", True, "{{ rec(@E[o]) }}", "rec", None, None),
        ("call", "err", False, "{{ @E() }}", "text", None, None),
        ("call-args", "err", False, "{{ @E(1, a=2) }}", "text", None, None),
        ("call-block", "err", False, "{% call @E() %}x{% endcall %}", "text", None, None),
        ("is-defined", "always", False, "{{ rec(@E is defined) }}", "rec", False, None),
        ("is-not-defined", "always", False, "{{ rec(@E is not defined) }}", "rec", True, None),
        ("is-undefined", "always", False, "{{ rec(@E is undefined) }}", "rec", True, None),
        ("if-defined", "always", False, "{% if @E is defined %}D{% else %}U{% endif %}", "text", "U", None),
        ("default", "always", False, "{{ rec(@E|default('d')) }}", "rec", "d", None),
        ("default-bool", "always", False, "{{ rec(@E|default('d', true)) }}", "rec", "d", None),
        ("d-alias", "always", False, "{{ rec(@E|d('d', boolean=true)) }}", "rec", "d", None),
        ("default-noarg", "always", False, "{{ rec(@E|default) }}", "rec", "", None),
    ]
    for sym, _ in BIN + CMP:
        ops.append((sym, "err", True, "{{ rec(@E %s o) }}" % sym, "rec", None, None))
        ops.append(("r" + sym, "err", True, "{{ rec(o %s @E) }}" % sym, "rec", None, None))
    return ops


PY_OPS = _py_ops()
TPL_OPS = _tpl_ops()


def _ops():
    return PY_OPS if P.get("route", "py") == "py" else TPL_OPS


def _operand_idx():
    """Operand indexes of the current bound (OTHER is always part of the operand table)."""
    return list(range(P.get("nops", len(OPERANDS)) - 1)) + [OTHER]


NOPS_ = 0      # number of operations of the current route (set by setup)
KNOWN_ = []    # operation indexes excluded from the bound (set by setup)


def NCASES():
    return NOPS_


def _excluded(route, kind, log, opname, cat, operand):
    """Inputs left out of the bound, each with its reason."""
    if cat == "pickle" and log:
        return True  # classes made by make_logging_undefined are local classes: Python cannot pickle them (OUTSIDE)
    if opname == "r%" and operand is not None and isinstance(OPERANDS[operand], str):
        return True  # 'a' % undefined: str.__mod__ runs first and succeeds (OUTSIDE)
    return False


def _defect(route, kind, log, opname, cat):
    """SUSPECTED_DEFECTS: async iteration of StrictUndefined does not fail; logging variants do not log async iteration."""
    return False  # both repaired in /repo (StrictUndefined.__aiter__, LoggingUndefined.__aiter__); nothing excluded


def KNOWN(case):
    """True for the operation indexes excluded from the bound (usable on symbolic ints)."""
    for j in KNOWN_:
        if case == j:
            return True
    return False


# ------------------------------------------------------------------------------------------------ execution
class Grab:
    def __init__(self):
        self.vals = []

    def __call__(self, v):
        self.vals.append(v)
        return ""


def _template(src):
    key = (KIND, LOGV, ENV.is_async, src)
    t = TCACHE.get(key)
    if t is None:
        t = TCACHE[key] = ENV.from_string(src)
    return t


def _judge(cat, kind, oi, operand, got, value, undo, log_before, result_is=None):
    """got = ('ok', v) | ('exc', exception).  Returns True iff the documented outcome was observed."""
    other = operand == OTHER
    logged = LOG[log_before:]

    def is_err():
        return got[0] == "exc" and isinstance(got[1], UndefinedError) and _names(str(got[1]), oi, other)

    def is_val(v):
        return got[0] == "ok" and type(got[1]) is type(v) and got[1] == v

    if cat in ("copy", "pickle", "always"):
        return is_val(value)
    if cat == "err":
        return is_err()
    if cat == "access":
        if kind != "chainable":
            return is_err()
        if got[0] != "ok":
            return False
        r = got[1]
        if result_is is not None:
            return r is result_is
        return type(r) is CLS and _names(r._undefined_message, oi)
    if kind == "strict":
        return is_err()
    if cat == "print":
        if got[0] != "ok" or not isinstance(got[1], str):
            return False
        s = undo(got[1]) if undo else got[1]
        if s is None:
            return False
        ok = _debug_text_ok(s, oi) if kind == "debug" else s == ""
        if LOGV:  # "It will log iterations and printing"
            ok = ok and any(_names_in_log(m, oi) for m in logged)
        return ok
    if cat in ("iter", "aiter"):
        ok = is_val(value)
        if LOGV:
            ok = ok and any(_names_in_log(m, oi) for m in logged)
        return ok
    if cat == "false":
        return is_val(value)
    if cat in ("eq", "ne"):
        if got[0] != "ok" or type(got[1]) is not bool:
            return False
        if other:
            return True  # consistency of ==/!=/hash between two undefined values is checked by 'eq-ne-consistent'
        return got[1] is (cat == "ne")
    raise AssertionError(cat)


def _names_in_log(m, oi):
    _, _, _, name, exact = ORIGINS[oi]
    return (exact if exact is not None else str(name)) in m


def _run_py(oi, i):
    name, cat, needs, fn, value = PY_OPS[i]
    for k in (_operand_idx() if needs else [None]):
        if _excluded("py", KIND, LOGV, name, cat, k):
            continue
        u = ORIGINS[oi][2](ENV)
        if type(u) is not CLS:
            return False
        o = None
        if k is not None:
            o = ENV.undefined(name="o") if k == OTHER else OPERANDS[k]
        n0 = len(LOG)
        try:
            got = ("ok", fn(u, o))
        except Exception as e:
            got = ("exc", e)
        if not _judge(cat, KIND, oi, k, got, value, None, n0, result_is=u):
            return False
    return True


def _run_tpl(oi, i):
    name, cat, needs, src, how, value, undo = TPL_OPS[i]
    t = _template(src.replace("@E", ORIGINS[oi][1]))
    for k in (_operand_idx() if needs else [None]):
        if _excluded(P.get("route"), KIND, LOGV, name, cat, k):
            continue
        ctx = _ctx()
        if k is not None and k != OTHER:
            ctx["o"] = OPERANDS[k]
        g = Grab()
        ctx["rec"] = g
        n0 = len(LOG)
        try:
            if ENV.is_async:
                text = drive(t.render_async(ctx))
            else:
                text = t.render(ctx)
            if how == "text":
                got = ("ok", text)
            elif len(g.vals) == 1 and text == "":
                got = ("ok", g.vals[0])
            else:
                return False
        except Exception as e:
            got = ("exc", e)
        if not _judge(cat, KIND, oi, k, got, value, undo, n0):
            return False
    return True


def op_ok(origin: int, case: int) -> bool:
    """
    Selectors: origin of the undefined value, operation.  Operations with an operand are run against every operand of
    the table (natively, inside the same path).

    pre: 0 <= origin < NORIG() and 0 <= case < NCASES() and not KNOWN(case)
    post: _
    """
    oi = pick(origin, NORIG())
    ci = pick(case, NCASES())
    with NoTracing():
        if P.get("route", "py") == "py":
            return _run_py(oi, ci)
        return _run_tpl(oi, ci)


# ------------------------------------------------------------------------------------------------ mode A: __getattr__
def getattr_ok(name: str, origin: int) -> bool:
    """
    pre: len(name) <= MAXNAME() and 0 <= origin < NORIG()
    post: _
    """
    oi = pick(origin, NORIG())
    with NoTracing():
        u = ORIGINS[oi][2](ENV)
    dunder = len(name) >= 4 and name[0] == "_" and name[1] == "_" and name[len(name) - 1] == "_" and name[len(name) - 2] == "_"
    plain = not (len(name) >= 2 and name[0] == "_" and name[1] == "_" and name[len(name) - 1] == "_" and name[len(name) - 2] == "_")
    try:
        r = CLS.__getattr__(u, name)
    except AttributeError:
        return not plain
    except UndefinedError as e:
        return (not dunder) and KIND != "chainable" and _names(str(e), oi)
    except Exception:
        return False
    return (not dunder) and KIND == "chainable" and r is u


def MAXNAME():
    return P.get("maxname", 6)


# ------------------------------------------------------------------------------------------------ conditions
def conditions(tier, seed):
    th = tier == "thorough"
    to = 300 if th else 60
    nops = len(OPERANDS)  # operands are looped natively inside a path: the whole table in both tiers
    out = []
    for kind in KINDS:
        for log in (False, True):
            cname = ("logging(%s)" % kind) if log else kind
            for route in ("py", "tpl", "atpl"):
                p = {"kind": kind, "log": log, "route": route, "nops": nops}
                setup(p)
                names = [op[0] for op in _ops()]
                idx = names.index
                wit = [[0, idx("neg")], [1, idx("+")], [5, idx("r<")], [6, idx("is-defined" if route != "py" else "test-defined")],
                       [4, idx("print" if route != "py" else "str")], [2, idx("==")], [3, idx("item-k" if route != "py" else "getitem-k")],
                       [7, idx("in" if route != "py" else "contains")]]
                out.append(Cond(
                    f"ops[{cname},{ {'py': 'python', 'tpl': 'template-sync', 'atpl': 'template-async'}[route] }]", "op_ok",
                    mode="B", param=p, timeout=to, witnesses=wit,
                    bounds=f"undefined class {cname}; origin in {[o[0] for o in ORIGINS[:NORIG()]]}; "
                           f"{len(names)} operations ({len(KNOWN_)} excluded, see SUSPECTED_DEFECTS), those with an operand against each of "
                           f"{[OPERANDS[i] for i in _operand_idx()]}"))
            p = {"kind": kind, "log": log, "route": "py", "maxname": 8 if th else 6}
            out.append(Cond(f"__getattr__[{cname}]", "getattr_ok", mode="A", param=p, timeout=to,
                            witnesses=[["bar", 0], ["__x__", 1], ["_a", 5], ["__ab", 6], ["a__", 2]],
                            bounds=f"attribute names: any str of length <= {p['maxname']}; every origin; class {cname}"))
    setup(None)
    return out
