"""C25 — the template cache always serves the current template source.

Mode B: a history number is decoded by solver forks into operations
(get_template / get_or_select_template / select_template with and without ``globals=``, write / delete /
re-add of template sources); the real ``Environment`` with the real loader (``DictLoader``, ``FunctionLoader``
with and without an up-to-date callback, ``FileSystemLoader`` in a scratch directory with mtimes forced by
``os.utime`` forwards and backwards) executes it natively, in lock step with a reference cache model.
After every operation: outcome (rendered text or not-found), whether the loader was asked for the source, and
the names held in ``env.cache`` must equal the model's.

Mode A kernel: ``Environment._load_template`` with symbolic bools (cached?, auto_reload?, up-to-date callback
present?, its answer) through a stub loader.
"""
import atexit
import os
import shutil
import tempfile

from jinja2 import BaseLoader, DictLoader, Environment, FileSystemLoader, FunctionLoader
from jinja2.exceptions import TemplateNotFound, TemplatesNotFound
from vfw.core import Cond, pick, pickb
from vfw.support import NoTracing

FUNCTIONS = ["jinja2.environment.Environment._load_template/get_template/select_template/get_or_select_template/overlay",
             "jinja2.environment.create_cache/copy_cache", "jinja2.environment.Template.is_up_to_date",
             "jinja2.loaders.BaseLoader.load", "DictLoader.get_source (+uptodate closure)",
             "FunctionLoader.get_source", "FileSystemLoader.get_source (+mtime uptodate closure)",
             "jinja2.utils.LRUCache.get/__setitem__ (as used by the environment)"]
OUTSIDE = ["histories longer than 3 operations over the 12-operation table / 4 over the 6-operation table (quick); 4 / 5 (thorough)",
           "more than three template names; cache sizes other than 0, 1, 2, -1",
           "file modifications that keep the mtime unchanged (the loader's up-to-date check is mtime equality by design)",
           "ChoiceLoader/PrefixLoader/PackageLoader/ModuleLoader; templates held only by includes/extends; threads"]
ASSUMPTIONS = ["a scratch directory is created per process (memory-backed when /dev/shm exists) and removed at exit",
               "loader accesses are counted by thin subclasses / the load function itself",
               "env.cache is read (keys only) to compare the held names with the model"]

ROOT = None
WORK = None
P = {}
S = {}
NAMES = ["a", "b", "c"]


# ------------------------------------------------------------------------------------------------ sources
def text(name, ver):
    return "%s%d|{{ g }}" % (name.upper(), ver)


class Store:
    """Template sources behind one of the loaders; counts how often the loader is asked for a source."""

    def __init__(self, kind, base):
        self.kind = kind
        self.asked = 0
        self.ver = {}            # name -> version or None (deleted)
        self.next = 0
        store = self
        if kind == "fs":
            self.dir = tempfile.mkdtemp(prefix="tpl-", dir=base)
            self.t_hi = self.t_lo = 1_500_000_000

            class L(FileSystemLoader):
                def get_source(self, environment, template):
                    store.asked += 1
                    return super().get_source(environment, template)
            self.loader = L(self.dir)
        elif kind == "dict":
            self.map = {}

            class L(DictLoader):
                def get_source(self, environment, template):
                    store.asked += 1
                    return super().get_source(environment, template)
            self.loader = L(self.map)
        else:
            self.map = {}

            def load(name):
                store.asked += 1
                v = store.ver.get(name)
                if v is None:
                    return None
                src = text(name, v)
                if kind == "func-str":
                    return src                      # no up-to-date information at all
                if kind == "func-none":
                    return src, None, None
                return src, None, (lambda: store.ver.get(name) == v)
            self.loader = FunctionLoader(load)
        for n in NAMES:
            self.write(n)

    @property
    def has_uptodate(self):
        return self.kind not in ("func-str", "func-none")

    def write(self, name, backwards=False):
        v = self.next
        self.next += 1
        self.ver[name] = v
        if self.kind == "fs":
            p = os.path.join(self.dir, name)
            with open(p, "w") as f:
                f.write(text(name, v))
            if backwards:
                self.t_lo -= 10
                t = self.t_lo
            else:
                self.t_hi += 10
                t = self.t_hi
            os.utime(p, (t, t))
        elif self.kind == "dict":
            self.map[name] = text(name, v)

    def delete(self, name):
        if self.ver.get(name) is None:
            return
        self.ver[name] = None
        if self.kind == "fs":
            os.remove(os.path.join(self.dir, name))
        elif self.kind == "dict":
            del self.map[name]


# ------------------------------------------------------------------------------------------------ reference model
class Model:
    """Reference cache: list of [name, version, g] from least to most recently used."""

    def __init__(self, cap, auto, store):
        self.cap = cap
        self.auto = auto
        self.store = store
        self.ents = []
        self.asked = 0

    def _find(self, name):
        for i, e in enumerate(self.ents):
            if e[0] == name:
                return i
        return -1

    def get(self, name, g):
        """-> (version, g) of the template served, or None when not found."""
        if self.cap != 0:
            i = self._find(name)
            if i >= 0:
                e = self.ents.pop(i)
                self.ents.append(e)           # looked up: most recently used
                stale = self.auto and self.store.has_uptodate and self.store.ver.get(name) != e[1]
                if not stale:
                    if g is not None:
                        e[2] = g              # documented: globals update the cached template
                    return e[1], e[2]
        self.asked += 1
        v = self.store.ver.get(name)
        if v is None:
            return None
        if self.cap != 0:
            i = self._find(name)
            if i >= 0:
                self.ents.pop(i)
            elif len(self.ents) == self.cap:
                self.ents.pop(0)              # least recently used goes
            self.ents.append([name, v, g])
        return v, g

    def select(self, names, g):
        for n in names:
            r = self.get(n, g)
            if r is not None:
                return n, r
        return None

    def held(self):
        return sorted(e[0] for e in self.ents)


# ------------------------------------------------------------------------------------------------ operations
# (kind, arguments).  'wback' rewrites a with the mtime forced *backwards* on the file system loader; the other
# loaders have no notion of time, there the slot writes c instead.
OPS12 = [("get", "a", None), ("get", "b", None), ("get", "c", None),
         ("gos", "a", 1), ("get", "b", 2), ("sel", ["a", "b"], None), ("gos", ["c", "a"], 3),
         ("write", "a"), ("wback", "a"), ("delete", "a"), ("write", "b"), ("delete", "c")]
OPS6 = [("get", "a", None), ("get", "b", None), ("get", "c", None), ("sel", ["c", "a"], None), ("write", "a"), ("delete", "b")]
# the auto_reload attribute may be switched on a live environment: what counts is its value at the time of the lookup
OPS8 = [("get", "a", None), ("get", "b", None), ("sel", ["c", "a"], None), ("write", "a"), ("delete", "b"), ("write", "b"), ("auto", True), ("auto", False)]


def OPS():
    return OPS6 if P.get("ops") == 6 else (OPS8 if P.get("ops") == 8 else OPS12)


def HLEN():
    return P.get("hlen", 3)


def NHIST():
    return len(OPS()) ** (HLEN() - (0 if P.get("first") is None else 1))


def ops_of(h):
    """History number -> HLEN() operation indexes (digits, most significant first; an optional fixed first
    operation comes from the parameter).  Every operation is checked when it happens: prefixes are covered."""
    k = len(OPS())
    n = HLEN() - (0 if P.get("first") is None else 1)
    ds = []
    for _ in range(n):
        ds.append(h % k)
        h //= k
    return ([] if P.get("first") is None else [P["first"]]) + ds[::-1]


def hist_no(ops, k, first=None):
    h = 0
    for o in (ops if first is None else ops[1:]):
        h = h * k + o
    return h


def cache_ok(h: int) -> bool:
    """
    pre: 0 <= h < NHIST()
    post: _
    """
    h = pick(h, NHIST())
    with NoTracing():
        return run_history(ops_of(h)) is None


def explain(h):
    """Human-readable replay of a history number (for counterexample reports)."""
    return [OPS()[o] for o in ops_of(h)], run_history(ops_of(h))


def _held(env):
    if env.cache is None:
        return []
    return sorted(k[1] for k in env.cache.keys())


def run_history(ops):
    """None when implementation and model agree after every operation, else a description of the first difference."""
    cap, auto, kind = P.get("size", 2), P.get("auto", True), P.get("loader", "dict")
    store = Store(kind, WORK)
    env = Environment(loader=store.loader, cache_size=cap, auto_reload=auto)
    if P.get("overlay"):
        env = env.overlay()
    model = Model(cap, auto, store)
    table = OPS()
    for step, o in enumerate(ops):
        op = table[o]
        if op[0] == "write" or op[0] == "wback":
            if op[0] == "wback" and kind != "fs":
                store.write("c")
            else:
                store.write(op[1], backwards=op[0] == "wback")
            continue
        if op[0] == "delete":
            store.delete(op[1])
            continue
        if op[0] == "auto":
            env.auto_reload = op[1]
            model.auto = op[1]
            continue
        g = op[2]
        kw = {} if g is None else {"globals": {"g": g}}
        try:
            if op[0] == "get":
                t = env.get_template(op[1], **kw)
            elif op[0] == "gos":
                t = env.get_or_select_template(op[1], **kw)
            else:
                t = env.select_template(op[1], **kw)
            got = t.render()
        except TemplatesNotFound as e:
            got = None if isinstance(op[1], list) else "wrong exception %r" % e
        except TemplateNotFound:
            got = None if not isinstance(op[1], list) else "wrong exception TemplateNotFound"
        if isinstance(op[1], list):
            r = model.select(op[1], g)
            exp = None if r is None else "%s%d|%s" % (r[0].upper(), r[1][0], "" if r[1][1] is None else r[1][1])
        else:
            r = model.get(op[1], g)
            exp = None if r is None else "%s%d|%s" % (op[1].upper(), r[0], "" if r[1] is None else r[1])
        if got != exp:
            return "step %d %r: rendered %r, model %r" % (step, op, got, exp)
        if store.asked != model.asked:
            return "step %d %r: loader asked %d times so far, model %d" % (step, op, store.asked, model.asked)
        held = _held(env)
        if held != model.held():
            return "step %d %r: cache holds %r, model %r" % (step, op, held, model.held())
        if cap >= 0 and len(held) > cap:
            return "step %d %r: cache holds %d > %d templates" % (step, op, len(held), cap)
    if kind == "fs":
        shutil.rmtree(store.dir, True)
    return None


# ------------------------------------------------------------------------------------------------ mode A kernel
class StubLoader(BaseLoader):
    """load() hands out prebuilt templates (compiled natively at setup) and counts."""

    def __init__(self):
        self.loads = 0
        self.fresh = True
        self.next = None

    def load(self, environment, name, globals=None):
        self.loads += 1
        return self.next


CELL = [True]


def kernel_ok(cached: bool, auto: bool, has_cb: bool, fresh: bool) -> bool:
    """
    pre: True
    post: _
    """
    ld = S["stub"]
    env = S["kenv"]
    with NoTracing():
        ld.loads = 0
        env.cache.clear()
    t_old = S["t_cb"] if has_cb else S["t_nocb"]
    t_new = S["t_new"]
    CELL[0] = fresh
    env.auto_reload = auto
    if cached:
        ld.next = t_old
        env.get_template("k")
        ld.loads = 0
    ld.next = t_new
    got = env.get_template("k")
    reload_expected = (not cached) or (auto and has_cb and not fresh)
    if reload_expected:
        return ld.loads == 1 and got is t_new
    return ld.loads == 0 and got is t_old


# ------------------------------------------------------------------------------------------------ setup
def setup(param):
    global P, WORK, ROOT
    P = dict(param or {})
    if ROOT is None:
        shm = "/dev/shm"
        ROOT = tempfile.mkdtemp(prefix="vf-c25-", dir=shm if os.path.isdir(shm) and os.access(shm, os.W_OK) else None)
        atexit.register(shutil.rmtree, ROOT, True)
    if WORK:
        shutil.rmtree(WORK, True)
    WORK = tempfile.mkdtemp(prefix="w-", dir=ROOT)
    S.clear()
    if P.get("kernel"):
        stub = StubLoader()
        kenv = Environment(loader=stub, cache_size=P.get("size", 2))
        plain = Environment()
        code = plain.compile("old")
        S.update(stub=stub, kenv=kenv, t_new=plain.from_string("new"),
                 t_cb=plain.template_class.from_code(plain, code, {}, lambda: CELL[0]),
                 t_nocb=plain.template_class.from_code(plain, code, {}, None))


# ------------------------------------------------------------------------------------------------ conditions
def _name(kind, size, auto, extra=""):
    return f"cache[{kind},size={size},auto_reload={'on' if auto else 'off'}{extra}]"


def conditions(tier, seed):
    th = tier == "thorough"
    to = 300 if th else 60
    out = []
    for size in (2, -1):
        out.append(Cond(f"_load_template decision[size={size}]", "kernel_ok", mode="A", param={"kernel": True, "size": size}, timeout=to,
                        witnesses=[[True, True, True, False], [True, False, True, False], [False, True, False, True], [True, True, False, False]],
                        bounds="symbolic bools: template cached?, auto_reload?, up-to-date callback present?, its answer; stub loader"))
    matrix = []
    for size in (0, 1, 2, -1):
        for auto in (True, False):
            matrix.append(("dict", size, auto, False))
            if th or auto or size == -1:
                matrix.append(("func", size, auto, False))
            if th or auto or size == 2:
                matrix.append(("fs", size, auto, False))
    matrix += [("func-str", -1, True, False), ("func-none", 2, True, False)]
    matrix += [("dict", 2, True, True), ("dict", 0, True, True)] + ([("fs", -1, True, True), ("func", 1, False, True)] if th else [])
    n12 = 4 if th else 3
    for kind, size, auto, ov in matrix:
        for first in (range(12) if n12 >= 4 else [None]):
            f0 = 0 if first is None else first
            wit = [[f0, 7, 0, 9], [f0, 1, 2, 0], [f0, 9, 5, 7], [f0 if first is not None else 3, 8, 6, 11], [f0 if first is not None else 4, 10, 4, 1]]
            out.append(Cond(_name(kind, size, auto, (",overlay" if ov else "") + ("" if first is None else f",first={first}")),
                            "cache_ok", mode="B",
                            param={"loader": kind, "size": size, "auto": auto, "overlay": ov, "hlen": n12, "first": first, "ops": 12},
                            timeout=to, witnesses=[[hist_no(w[:n12], 12, first)] for w in wit],
                            bounds=f"all histories of {n12} operations (argument = history number, base-12 digits) from "
                                   "get a/get b/get c/get_or_select('a', globals)/get('b', globals)/select([a,b])/"
                                   "get_or_select([c,a], globals)/write a/write a with mtime backwards (fs; others: write c)/"
                                   "delete a/write b/delete c; a, b, c exist initially; every step compared with the reference model"))
    n6 = 5 if th else 4
    for kind, size, auto in [("dict", 2, True), ("dict", 2, False), ("fs", 1, True)] + ([("func", 2, True), ("fs", 2, True)] if th else []):
        for first in (range(6) if n6 >= 5 else [None]):
            f0 = 0 if first is None else first
            wit = [[f0, 1, 0, 2, 1], [f0, 4, 3, 0, 5], [f0, 5, 1, 2, 0]]
            out.append(Cond(_name(kind, size, auto, ",6 ops" + ("" if first is None else f",first={first}")), "cache_ok", mode="B",
                            param={"loader": kind, "size": size, "auto": auto, "hlen": n6, "first": first, "ops": 6},
                            timeout=to, witnesses=[[hist_no(w[:n6], 6, first)] for w in wit],
                            bounds=f"all histories of {n6} operations (base-6 digits) from get a/get b/get c/select([c,a])/write a/delete b "
                                   "(eviction order needs four lookups); every step compared with the reference model"))
    n8 = 5 if th else 4
    for kind, size, auto in [("dict", 2, False), ("dict", -1, True), ("fs", 2, False)] + ([("func", 1, False), ("dict", 0, False)] if th else []):
        for first in (range(8) if n8 >= 5 else [None]):
            f0 = 0 if first is None else first
            wit = [[f0, 6, 3, 0, 1], [f0, 3, 6, 0, 0], [f0, 7, 3, 0, 6], [f0 if first is not None else 4, 6, 1, 2, 5]]
            out.append(Cond(_name(kind, size, auto, ",8 ops with auto_reload switches" + ("" if first is None else f",first={first}")), "cache_ok", mode="B",
                            param={"loader": kind, "size": size, "auto": auto, "hlen": n8, "first": first, "ops": 8},
                            timeout=to, witnesses=[[hist_no(w[:n8], 8, first)] for w in wit],
                            bounds=f"all histories of {n8} operations (base-8 digits) from get a/get b/select([c,a])/write a/delete b/write b/"
                                   "auto_reload = True/auto_reload = False; the reference model uses the auto_reload value at the time of each lookup"))
    return out
