"""C34 — native rendering returns native values as documented.

* single_ok (mode A): templates whose output is one non-string node (plain print, inside if / for /
  block / macro / set / with / include / extends, conditional expression, subscript, call) get a
  symbolic int, a symbolic bool, a list / tuple / dict / nested container of symbolic ints; the
  result must be that value itself (``is`` for containers, value and type for ints / bools).
* single_obj_ok (mode B): the same templates with concrete objects: None, floats, nan, bytes, sets,
  opaque objects (one whose ``__str__`` looks like a literal), a generator, a class, a function,
  an undefined, falsy values (0, False, [], ()), an exception instance ... — ``is`` identity.
* text_ok (mode B): a table of output texts (ints, floats, complex, prefixed strings, keyword
  constants with surrounding whitespace, tuples, nested containers, names, invalid syntax ...) is
  produced by differently shaped multi-node templates (one string node, two / three nodes, template
  data + node, constant-folded node, loop over characters from a list or a generator, typed pieces,
  include, extends) through the entry points (render / render_async / generate / generate_async on
  a sync and an async native environment); the result must be the literal value of the text iff
  Python's parser + ``ast.literal_eval`` accept the text, else the text.
* pieces_ok (mode B): all sequences of <= 3 typed pieces from a table, as 1..3 nodes or a loop.
* fresh_ok (mode B): render, mutate the returned container, render again (same / other template,
  same / other entry point), mutate, render a third time: every result is again the literal value
  of the text (results of different renders are independent objects).

VERIF_INCLUDE_KNOWN=1 drops the exclusions of the SUSPECTED_DEFECTS inputs (the check then reports them).
"""
import ast
import os
import re
import warnings
from typing import List

from jinja2 import DictLoader
from jinja2.exceptions import TemplateSyntaxError
from jinja2.nativetypes import NativeEnvironment, native_concat
from jinja2.runtime import Undefined
from vfw.core import Cond, pick, pickb
from vfw.support import NoTracing, drive, drive_agen

FUNCTIONS = [
    "jinja2.nativetypes.native_concat", "jinja2.nativetypes.NativeTemplate.render/render_async",
    "jinja2.nativetypes.NativeCodeGenerator (_default_finalize, _output_const_repr, _output_child_to_const, _output_child_pre/post; generated code)",
    "jinja2.environment.Template.generate/generate_async on native environments", "jinja2.runtime.Macro (native concat of macro bodies)",
]
OUTSIDE = [
    "templates that produce no output node at all (native_concat returns None for them)",
    "output texts outside the TEXTS / PIECES tables; more than 3 typed pieces",
    "awaitable values as template data; real suspension in async mode (coroutines are driven without an event loop)",
    "native_concat called directly with a non-generator iterator (templates never do that)",
]
ASSUMPTIONS = [
    "reference meaning of 'the text parses as a literal expression': compile(text, mode='eval', flags=PyCF_ONLY_AST) "
    "followed by ast.literal_eval of the tree succeeds (no stripping of leading blanks: ' True' stays text, as the test-suite states)",
    "templates are compiled natively (at setup or inside NoTracing)",
]
SUSPECTED_DEFECTS = [
    "native_concat lets TypeError from ast.literal_eval escape when the text is a set/dict display with an unhashable "
    "member: NativeEnvironment().from_string('{{ a }}{{ b }}').render(a='{[]', b=': 1}') raises TypeError(\"unhashable type: 'list'\") "
    "instead of returning the text '{[]: 1}' (same for '{1, []}', '{{}: 1}', '{[]}', '[{[]: 1}]'; typed pieces '{', [], '}')",
    "native_concat lets RecursionError escape for texts the parser cannot build an AST for: "
    "NativeEnvironment().from_string('{{ a }}{{ b }}').render(a='-' * 3000, b='1') raises RecursionError instead of returning the text",
    "NativeTemplate.render on NativeEnvironment(enable_async=True) raises TypeError(\"'async_generator' object is not iterable\") "
    "for every template, e.g. NativeEnvironment(enable_async=True).from_string('{{ x }}').render(x=1) (Template.render would use asyncio.run(render_async))",
]

_LOADER = DictLoader({
    "inc_x": "{{ x }}", "inc_a": "{{ a }}",
    "base": "{% block b %}{% endblock %}",
    "base_ab": "{% block p %}{% endblock %}{% block q %}{% endblock %}",
})
_ENVS = {False: (NativeEnvironment(loader=_LOADER), NativeEnvironment(loader=_LOADER, enable_async=True)),
         # native rendering does not escape: the autoescape setting must not change any result
         True: (NativeEnvironment(loader=_LOADER, autoescape=True), NativeEnvironment(loader=_LOADER, enable_async=True, autoescape=True))}
ENV, AENV = _ENVS[False]
P = {}
_TC = {}
# VERIF_INCLUDE_KNOWN=1 drops the exclusions of SUSPECTED_DEFECTS inputs, so that the check re-finds them
INCLUDE_KNOWN = True  # all three listed defects were repaired in /repo by "fix:" commits: nothing is excluded any more


def _t(env, src):
    key = (env is AENV, env.autoescape, src)
    t = _TC.get(key)
    if t is None:
        t = _TC[key] = env.from_string(src)
    return t


# ---------------------------------------------------------------- entry points
ENTRIES = ["render", "render_async", "generate", "generate_async", "generate@async", "render@async"]
E_RENDER_AT_ASYNC = ENTRIES.index("render@async")


def _call(entry, src, ctx):
    if entry == "render":
        return _t(ENV, src).render(**ctx)
    if entry == "render_async":
        return drive(_t(AENV, src).render_async(**ctx))
    if entry == "generate":
        return ENV.concat(list(_t(ENV, src).generate(**ctx)))
    if entry == "generate_async":
        return AENV.concat(drive_agen(_t(AENV, src).generate_async(**ctx)))
    if entry == "generate@async":   # sync generate on an async environment (asyncio.run inside jinja)
        return AENV.concat(list(_t(AENV, src).generate(**ctx)))
    if entry == "render@async":     # sync render on an async environment
        return _t(AENV, src).render(**ctx)
    raise AssertionError(entry)


# ---------------------------------------------------------------- reference
def lit(text):
    """(True, literal value) iff the text parses as a literal expression, else (False, text)."""
    try:
        with warnings.catch_warnings():
            warnings.simplefilter("ignore")
            tree = compile(text, "<c34>", "eval", ast.PyCF_ONLY_AST)
            return True, ast.literal_eval(tree)
    except Exception:
        return False, text


def same(r, e):
    if type(r) is not type(e):
        return False
    if isinstance(e, float):
        return r == e or (r != r and e != e)
    if isinstance(e, (list, tuple)):
        return len(r) == len(e) and all(same(a, b) for a, b in zip(r, e))
    if isinstance(e, dict):
        return len(r) == len(e) and all(same(a, b) and same(r[a], e[b]) for a, b in zip(r, e))
    if isinstance(e, (set, frozenset)):
        return r == e and sorted(map(repr, r)) == sorted(map(repr, e))
    return r == e


# ---------------------------------------------------------------- mode A: single non-string node
SINGLE_FORMS = [
    "{{ x }}",
    "{% if c %}{{ x }}{% endif %}",
    "{% if not c %}no{% else %}{{ x }}{% endif %}",
    "{% for i in [x] %}{{ i }}{% endfor %}",
    "{% block b %}{{ x }}{% endblock %}",
    "{% macro m(v) %}{{ v }}{% endmacro %}{{ m(x) }}",
    "{% set y = x %}{{ y }}",
    "{% with z = x %}{{ z }}{% endwith %}",
    "{{ x if c else 0 }}",
    "{{- x -}}",
    "{{ (x, 0)[0] }}",
    "{{ {'k': x}.k }}",
    "{{ ident(x) }}",
    "{% include 'inc_x' %}",
    "{% extends 'base' %}{% block b %}{{ x }}{% endblock %}",
    "{% for i in [1, 2] if i == 2 %}{{ x }}{% endfor %}",
]


class Opaque:
    pass


class LitStr:
    """Not a string, but its text would parse as a literal."""

    def __str__(self):
        return "[1, 2]"

    __repr__ = __str__


def _gen():
    yield 1


def _ident(v):
    return v


SYM_KINDS = ["int", "bool", "list", "tuple", "dict", "nested"]          # built from symbolic data (mode A)
OBJ_KINDS = ["none", "set", "float", "nan", "bytes", "opaque", "litstr", "generator", "class", "function", "undefined", "complex",
             "ellipsis", "emptylist", "emptytuple", "zero", "false", "frozenset", "range", "exception"]   # concrete objects (mode B)
S_ENTRIES = ["render", "render_async", "generate", "generate_async", "direct:list", "direct:gen"]


def _value(k, n, b, xs):
    """-> (value, check(result)) for a kind of non-string value."""
    copy = [v for v in xs]
    if k == "int":
        return n, lambda r: isinstance(r, int) and not isinstance(r, (bool, str)) and r == n
    if k == "bool":
        return b, lambda r: isinstance(r, bool) and r == b
    if k == "list":
        x = [v for v in xs]
        return x, lambda r: r is x and r == copy
    if k == "tuple":
        x = (n, b)
        return x, lambda r: r is x and r[0] == n and r[1] == b
    if k == "dict":
        x = {"k": n, "xs": [v for v in xs]}
        return x, lambda r: r is x and len(r) == 2 and r["k"] == n and r["xs"] == copy
    if k == "nested":
        x = [[n], {"b": b}]
        return x, lambda r: r is x and r[0] == [n] and r[1] == {"b": b}
    x = {
        "none": None, "set": {1, 2}, "float": 1.5, "nan": float("nan"), "bytes": b"[1]", "opaque": Opaque(), "litstr": LitStr(),
        "generator": _gen(), "class": bool, "function": _ident, "undefined": Undefined(name="x"), "complex": 1 + 2j, "ellipsis": ...,
        "emptylist": [], "emptytuple": (), "zero": 0, "false": False, "frozenset": frozenset([1]), "range": range(3),
        "exception": ValueError("[1]"),
    }[k]
    if k in ("zero", "false"):
        return x, lambda r: type(r) is type(x) and r == x
    return x, lambda r: r is x


def _single(k, en, src, n, b, xs):
    x, check = _value(k, n, b, xs)
    if en == "direct:list":
        r = native_concat([x])
    elif en == "direct:gen":
        r = native_concat(v for v in [x])
    else:
        ctx = {"c": True, "ident": _ident}
        if k == "undefined":
            # a missing variable: the template's own undefined object must come back
            r = _call(en, src, ctx)
            return isinstance(r, Undefined) and not isinstance(r, str)
        ctx["x"] = x
        r = _call(en, src, ctx)
    return bool(check(r))


def NSE():
    return P.get("ne", len(S_ENTRIES))


def single_ok(kind: int, entry: int, n: int, b: bool, xs: List[int]) -> bool:
    """
    pre: 0 <= kind < len(SYM_KINDS) and 0 <= entry < NSE() and len(xs) <= 3
    post: _
    """
    k = SYM_KINDS[pick(kind, len(SYM_KINDS))]
    en = S_ENTRIES[pick(entry, NSE())]
    return _single(k, en, SINGLE_FORMS[P.get("form", 0)], n, b, xs)


def single_obj_ok(form: int, kind: int, entry: int) -> bool:
    """
    pre: 0 <= form < P["nf"] and 0 <= kind < len(OBJ_KINDS) and 0 <= entry < len(S_ENTRIES)
    post: _
    """
    src = SINGLE_FORMS[P["flo"] + pick(form, P["nf"])]
    k = OBJ_KINDS[pick(kind, len(OBJ_KINDS))]
    en = S_ENTRIES[pick(entry, len(S_ENTRIES))]
    with NoTracing():
        return _single(k, en, src, 0, False, [])


# ---------------------------------------------------------------- mode B: tables of output texts
TEXTS = [
    # ints
    "0", "7", "12", "-3", "- 4", "+5", "--1", "1_000", "1__0", "0x1f", "0o17", "0b101", "007", "00", "9" * 30, "9" * 4301, "1 2",
    # floats, complex
    "1.5", ".5", "5.", "1e3", "1E-2", "1e400", "-1e400", "1e", "1.2.3", "1.5j", "1+2j", "1 - 2j", "2j+1", "1+2", "nan", "inf", "-inf",
    # strings and prefixes
    "'a'", '"a"', "'a' 'b'", "'''a'''", "'a", "'it''s'", "b'ab'", "B'ab'", "r'a\\d'", "R'x'", "u'a'", "U'a'", "rb'a'", "br'a'", "Rb'a'",
    "f'a'", "ub'a'", "b'\\xff'", "'\\n'", "'\\x41'", "b 'a'", "b'é'", "'é'", "bx", "b", "r", "u'a' b'b'", "b'a' b'b'",
    # keyword constants and whitespace
    "True", "False", "None", "True ", "None\t", "False  ", " True", " None", "\tFalse", "True\n", "\nNone", "None # c", "true", "none", "TRUE",
    "Truex", "True1", "Ellipsis", "...", "NotImplemented", "__debug__", "True,", "None None", "not True", "-True",
    # tuples
    "()", "(1,)", "(1)", "1,", "1, 2", "(1, 'a', None)", "1,,", "(1 2)", "(", ")",
    # lists, dicts, sets, nested
    "[]", "[1, 2]", "[1, [2, [3]]]", "[1,", "[1 2]", "{}", "{'a': 1}", "{1: [2, {3: (4,)}]}", "{1, 2}", "{1: 2, 1: 3}", "{True: 1, 1: 2}", "set()",
    "{*[1]}", "[*[1]]", "{**{}}", "frozenset()", "list()", "{'a': {'b': [1, 2.5, True, None, b'x', 'y']}}", "[[]] ", "[1, 1.0, True]",
    "[" * 50 + "]" * 50,
    # names and other non-literals
    "foo", "a.b", "a b", "abc def", "x = 1", "1 if 1 else 2", "lambda: 1", "~1", "1 < 2", "[x for x in y]", "f(1)", "__import__('os')",
    "1;2", "1\n2", "# c", "", " ", "\n", "\\", "$", "\x00", "1\x00", "'\ud800'", "１２", "é", "<b>", "{{", "{% if %}", "1\r\n",
    # unhashable members / parser limits (see SUSPECTED_DEFECTS)
    "{[]: 1}", "{1, []}", "{{}: 1}", "{[]}", "[{[]: 1}]", "-" * 3000 + "1",
]
# exactly the table entries for which the unchanged tree lets an exception escape (SUSPECTED_DEFECTS 1 and 2)
DEFECT_TEXTS = ["{[]: 1}", "{1, []}", "{{}: 1}", "{[]}", "[{[]: 1}]", "-" * 3000 + "1"]
DEFECT_TI = [TEXTS.index(s) for s in DEFECT_TEXTS]

SHAPES = ["one", "two@1", "two@mid", "two@0", "three", "data-head", "data-tail", "const-head", "loop-list", "loop-gen", "typed",
          "include", "extends"]

_TOK = re.compile(r"True|False|None|[0-9]+\.[0-9]+|[0-9]+|.", re.S)


def typed_pieces(text):
    """Split a text into native pieces whose str() concatenation is the text again."""
    out = []
    for m in _TOK.finditer(text):
        s = m.group()
        v = s
        if s in ("True", "False", "None"):
            v = {"True": True, "False": False, "None": None}[s]
        elif len(s) < 100 and s.isdigit():
            if str(int(s)) == s:
                v = int(s)
        elif len(s) < 100 and s[0].isdigit() and repr(float(s)) == s:
            v = float(s)
        if isinstance(v, str) and out and isinstance(out[-1], str):
            out[-1] += v
        else:
            out.append(v)
    assert "".join(str(p) for p in out) == text
    return out


def _safe_data(s, tail):
    if "{{" in s or "{%" in s or "{#" in s or "\r" in s:
        return False
    if tail:
        return not s.endswith("\n")
    return not s.endswith("{")


def _const_src(head):
    if head.isascii() and head.isdigit() and str(int(head)) == head and len(head) < 20:
        return head
    if head in ("True", "False", "None"):
        return head
    if head and head.isascii() and head.isprintable() and "'" not in head and "\\" not in head:
        return "'" + head + "'"
    return None


def _gen_of(xs):
    for x in xs:
        yield x


def build(text, shape):
    """-> (template source, context factory, pieces as the template emits them)."""
    n = len(text)
    mid = n // 2
    if n == 0 and shape in ("loop-list", "loop-gen", "typed"):
        shape = "one"       # no output node at all is outside the bound
    if shape == "one":
        return "{{ a }}", lambda: {"a": text}, [text]
    if shape in ("two@1", "two@mid", "two@0"):
        j = {"two@1": min(1, n), "two@mid": mid, "two@0": 0}[shape]
        return "{{ a }}{{ b }}", lambda: {"a": text[:j], "b": text[j:]}, [text[:j], text[j:]]
    if shape == "three":
        i, j = min(1, n), max(min(1, n), n - 1)
        return "{{ a }}{{ b }}{{ c }}", lambda: {"a": text[:i], "b": text[i:j], "c": text[j:]}, [text[:i], text[i:j], text[j:]]
    if shape == "data-head" and mid and _safe_data(text[:mid], False):
        return text[:mid] + "{{ b }}", lambda: {"b": text[mid:]}, [text[:mid], text[mid:]]
    if shape == "data-tail" and mid < n and _safe_data(text[mid:], True):
        return "{{ a }}" + text[mid:], lambda: {"a": text[:mid]}, [text[:mid], text[mid:]]
    if shape == "const-head":
        for j in (mid, n, 1):
            c = _const_src(text[:j])
            if c is not None:
                return "{{ " + c + " }}{{ b }}", lambda: {"b": text[j:]}, [text[:j], text[j:]]
    if shape == "loop-list":
        return "{% for p in ps %}{{ p }}{% endfor %}", lambda: {"ps": list(text)}, list(text)
    if shape == "loop-gen":
        return "{% for p in ps %}{{ p }}{% endfor %}", lambda: {"ps": _gen_of(list(text))}, list(text)
    if shape == "typed":
        ps = typed_pieces(text)
        return "{% for p in ps %}{{ p }}{% endfor %}", lambda: {"ps": list(ps)}, ps
    if shape == "include":
        return "{% include 'inc_a' %}{{ b }}", lambda: {"a": text[:mid], "b": text[mid:]}, [text[:mid], text[mid:]]
    if shape == "extends":
        return ("{% extends 'base_ab' %}{% block q %}{{ b }}{% endblock %}{% block p %}{{ a }}{% endblock %}",
                lambda: {"a": text[:mid], "b": text[mid:]}, [text[:mid], text[mid:]])
    return "{{ a }}{{ b }}", lambda: {"a": text[:mid], "b": text[mid:]}, [text[:mid], text[mid:]]


def expected(pieces):
    """The property, applied to the sequence of output nodes (at least one)."""
    if len(pieces) == 1 and not isinstance(pieces[0], str):
        return "is", pieces[0]
    return "eq", lit("".join(str(p) for p in pieces))[1]


def _agrees(r, pieces):
    how, e = expected(pieces)
    return (r is e) if how == "is" else same(r, e)


def _text_native(text, shape, entry):
    src, mkctx, pieces = build(text, shape)
    try:
        _t(ENV, src)
    except TemplateSyntaxError:      # harness-side precaution: the text is not usable as template data
        src, mkctx, pieces = build(text, "two@mid")
    r = _call(entry, src, mkctx())
    return _agrees(r, pieces)


def NT():
    return P.get("n", len(TEXTS))


# (shape, entry) pairs.  quick: every shape through render and render_async, the other entry points with three shapes;
# thorough: the full product.
_FULL = [(s, e) for e in range(len(ENTRIES)) for s in range(len(SHAPES))]
_QUICK = [(s, e) for (s, e) in _FULL
          if ENTRIES[e] in ("render", "render_async") or SHAPES[s] in ("one", "two@mid", "loop-gen")]


def COMBOS():
    return _FULL if P.get("full") else _QUICK


def known_text(ti, combo):
    """Inputs excluded because the unchanged tree violates the property for them (SUSPECTED_DEFECTS)."""
    if INCLUDE_KNOWN:
        return False
    cs = COMBOS()
    for i in range(len(cs)):
        if cs[i][1] == E_RENDER_AT_ASYNC and combo == i:
            return True
    t = P.get("lo", 0) + ti
    for d in DEFECT_TI:
        if t == d:
            return True
    return False


def text_ok(ti: int, combo: int) -> bool:
    """
    pre: 0 <= ti < NT() and 0 <= combo < len(COMBOS()) and not known_text(ti, combo)
    post: _
    """
    text = TEXTS[P.get("lo", 0) + pick(ti, NT())]
    sh, en = COMBOS()[pick(combo, len(COMBOS()))]
    with NoTracing():
        return _text_native(text, SHAPES[sh], ENTRIES[en])


# ---------------------------------------------------------------- mode B: sequences of typed pieces
PIECES = [1, 0, -2, 1.5, True, None, [], "", " ", "'", "b'", "[", "]", ", ", "a", "{", "}", ": ", "(", ")", "#", "\n", "-", "e", "_", "r", "\\", "0x",
          "j", "+", ".", (1,), {"k": 1}, "u", "\t", "\""]
P_ENTRIES = ["render", "render_async", "direct:list", "direct:gen", "generate", "generate_async"]
P_SRC = ["", "{{ a }}", "{{ a }}{{ b }}", "{{ a }}{{ b }}{{ c }}"]
# (entry, as a loop over a generator instead of separate print nodes)
_PFULL = [(e, lp) for e in range(len(P_ENTRIES)) for lp in (False, True) if not (lp and P_ENTRIES[e].startswith("direct"))]
_PQUICK = [(0, False), (1, True), (2, False), (3, False), (4, True)]
# the quick tier uses these pieces
PQ = [PIECES.index(v) for v in (1, True, None, " ", "'", "[", "]", ", ", "{", "}")] + [PIECES.index([])]
# exactly the piece sequences for which the unchanged tree lets TypeError escape (SUSPECTED_DEFECTS 1): '{' [] '}' and '{' {'k': 1} '}'
DEFECT_PIECES = [[PIECES.index("{"), PIECES.index([]), PIECES.index("}")], [PIECES.index("{"), PIECES.index({"k": 1}), PIECES.index("}")]]


PT = list(range(22)) + [PIECES.index((1,)), PIECES.index({"k": 1})]      # thorough tier


def PSET():
    return PT if P.get("full") else PQ


def PCOMBOS():
    return _PFULL if P.get("full") else _PQUICK


def known_pieces(n, p0, p1, p2):
    if INCLUDE_KNOWN:
        return False
    ps = PSET()
    for d in DEFECT_PIECES:
        if d[0] in ps and d[1] in ps and d[2] in ps:
            if n == 3 and p0 == ps.index(d[0]) and p1 == ps.index(d[1]) and p2 == ps.index(d[2]):
                return True
    return False


def pieces_ok(n: int, p1: int, p2: int, combo: int) -> bool:
    """
    pre: 1 <= n <= 3 and 0 <= p1 < len(PSET()) and 0 <= p2 < len(PSET()) and (n >= 2 or p1 == 0) and (n >= 3 or p2 == 0)
    pre: 0 <= combo < len(PCOMBOS()) and not known_pieces(n, P.get("first", 0), p1, p2)
    post: _
    """
    ps = PSET()
    ln = pick(n - 1, 3) + 1
    idx = [ps[P.get("first", 0)], ps[pick(p1, len(ps))], ps[pick(p2, len(ps))]][:ln]
    e, lp = PCOMBOS()[pick(combo, len(PCOMBOS()))]
    with NoTracing():
        return _pieces_native(idx, P_ENTRIES[e], lp)


def _pieces_native(idx, en, lp):
    vals = [PIECES[i] for i in idx]
    if en == "direct:list":
        r = native_concat(list(vals))
    elif en == "direct:gen":
        r = native_concat(_gen_of(vals))
    elif lp:
        r = _call(en, "{% for p in ps %}{{ p }}{% endfor %}", {"ps": _gen_of(vals)})
    else:
        r = _call(en, P_SRC[len(vals)], dict(zip("abc", vals)))
    return _agrees(r, vals)


# ---------------------------------------------------------------- mode B: repeated renders are independent
MUT_TEXTS = ["[1, 2]", "{'a': 1}", "{1, 2}", "[[1], [2]]", "([1], 2)", "{'a': {'b': []}}", "[]", "{}", "[1, {2: [3]}]", "set()",
             "[1, (2, {3})]", "b'ab'", "(1, 2)", "'s'", "7"]
RUNS = [("one", "render"), ("two@mid", "render"), ("one", "render_async"), ("loop-gen", "render_async"), ("data-head", "generate"),
        ("typed", "render"), ("const-head", "generate_async"), ("extends", "render")]


def _mutate(v, deep):
    """Change a mutable container inside v (the outermost one, or the innermost one). True when something changed."""
    if isinstance(v, (list, tuple)):
        kids = list(v)
    elif isinstance(v, dict):
        kids = list(v.values())
    else:
        kids = []
    if deep or isinstance(v, tuple):
        for kid in kids:
            if _mutate(kid, deep):
                return True
    if isinstance(v, list):
        v.append(99)
        return True
    if isinstance(v, dict):
        v["zz"] = 99
        return True
    if isinstance(v, set):
        v.add(99)
        return True
    return False


def fresh_ok(ti: int, first: int, second: int) -> bool:
    """
    pre: 0 <= ti < len(MUT_TEXTS) and 0 <= first < len(RUNS) and 0 <= second < len(RUNS)
    post: _
    """
    text = MUT_TEXTS[pick(ti, len(MUT_TEXTS))]
    m = P.get("mut", 1)
    f = RUNS[pick(first, len(RUNS))]
    s = RUNS[pick(second, len(RUNS))]
    with NoTracing():
        return _fresh_native(text, m, f, s)


def _fresh_native(text, m, f, s):
    src, mkctx, pieces = build(text, f[0])
    r1 = _call(f[1], src, mkctx())
    if not _agrees(r1, pieces):
        return False
    if m:
        _mutate(r1, m == 2)
    src2, mkctx2, pieces2 = build(text, s[0])
    r2 = _call(s[1], src2, mkctx2())
    if not _agrees(r2, pieces2):
        return False
    if m:
        _mutate(r2, m == 1)
    r3 = _call(f[1], src, mkctx())
    return _agrees(r3, pieces)


# ---------------------------------------------------------------- framework hooks
def setup(param):
    global P, ENV, AENV
    P = dict(param or {})
    ENV, AENV = _ENVS[bool(P.get("ae"))]
    if "form" in P:
        src = SINGLE_FORMS[P["form"]]
        _t(ENV, src)
        _t(AENV, src)


def _text_witnesses(lo, n, combos):
    out = []
    for ti, c in ((0, 0), (n - 1, 2), (min(5, n - 1), 10), (min(3, n - 1), 17), (min(7, n - 1), len(combos) - 1), (n // 2, 4)):
        while c >= 0 and combos[c][1] == E_RENDER_AT_ASYNC:
            c -= 1
        if lo + ti not in DEFECT_TI and [ti, c] not in out:
            out.append([ti, c])
    return out[:5]


def known_markup_in_constant_container_ok():
    """Known-finding witness: a constant container holding a value marked safe is folded to text that is not a literal."""
    e = NativeEnvironment()
    a = e.from_string('{{ ("a"|safe, 1) }}').render()
    b = e.from_string('{{ (x|safe, 1) }}').render(x="a")
    return type(a) is type(b) and a == b


def conditions(tier, seed):
    th = tier == "thorough"
    to = 300 if th else 60
    out = []
    for i, src in enumerate(SINGLE_FORMS):
        ne = len(S_ENTRIES) if i == 0 else 4     # the two direct native_concat calls do not depend on the template
        out.append(Cond(f"single[{src}]", "single_ok", mode="A", param={"form": i, "ne": ne}, timeout=to,
                        witnesses=[[0, 0, 41, True, [1, 2]], [3, 1, -5, False, [7]], [2, 2, 0, True, []], [1, 3, 2, False, [0, 0, 9]],
                                   [4, 0, 1, True, [3]], [5, ne - 1, 3, True, [4]]],
                        bounds=f"template {src!r}; x one of {SYM_KINDS} built from any int n, any bool b, any list of <= 3 ints; "
                               f"entry points {S_ENTRIES[:ne]}"))
    half = len(SINGLE_FORMS) // 2
    for flo, nf in ((0, half), (half, len(SINGLE_FORMS) - half)):
        out.append(Cond(f"single-objects[forms {flo}..{flo + nf - 1}]", "single_obj_ok", mode="B", param={"flo": flo, "nf": nf}, timeout=to,
                        witnesses=[[0, 0, 0], [1, 5, 1], [nf - 1, 10, 2], [3, 7, 3], [2, 6, 4], [4, 19, 5]],
                        bounds=f"templates {SINGLE_FORMS[flo:flo + nf]!r} x concrete non-string values {OBJ_KINDS} x entry points {S_ENTRIES}"))
    combos = _FULL if th else _QUICK
    chunk = 16
    for lo in range(0, len(TEXTS), chunk):
        n = min(chunk, len(TEXTS) - lo)
        for ae in ((False, True) if (th or (lo // chunk + seed) % 2 == 0) else (False,)):
            out.append(Cond(f"text[{lo}..{lo + n - 1}]" + ("[autoescape env]" if ae else ""), "text_ok", mode="B", param={"lo": lo, "n": n, "full": th, "ae": ae}, timeout=to,
                            witnesses=_text_witnesses(lo, n, combos),
                            bounds=f"texts {lo}..{lo + n - 1} of the {len(TEXTS)}-entry table x {len(combos)} (template shape, entry point) pairs from "
                                   f"shapes {SHAPES} and entry points {ENTRIES}" + ("; environment created with autoescape=True (native rendering never escapes)" if ae else "")))
    pset = PT if th else PQ
    pc = _PFULL if th else _PQUICK
    for first in range(len(pset)):
        out.append(Cond(f"pieces[first={PIECES[pset[first]]!r}]", "pieces_ok", mode="B", param={"first": first, "full": th}, timeout=to,
                        witnesses=[[1, 0, 0, 0], [3, 0, 6, 1], [3, 4, 4, 2], [2, 3, 0, len(pc) - 1], [3, 5, 1, 3]],
                        bounds=f"all sequences of 1..3 pieces from {[PIECES[i] for i in pset]!r} starting with {PIECES[pset[first]]!r}, "
                               f"as (entry point, loop) from {[(P_ENTRIES[e], lp) for e, lp in pc]!r} (minus the inputs listed in SUSPECTED_DEFECTS)"))
    for m in (0, 1, 2):
        out.append(Cond(f"fresh[render, {['no mutation', 'mutate outermost', 'mutate innermost'][m]}, render again]", "fresh_ok", mode="B",
                        param={"mut": m}, timeout=to,
                        witnesses=[[0, 0, 0], [3, 1, 2], [5, 5, 4], [1, 2, 7], [2, 3, 3], [8, 6, 1]],
                        bounds=f"texts {MUT_TEXTS!r} x first and second run from {RUNS!r}; three renders, returned containers mutated in between"))
    return out
