"""C35 — errors point at the template line that caused them.

Three families of conditions:

* ``lineno_ok`` (mode A): the real ``Template.get_corresponding_lineno`` on a symbolic ``debug_info``
  (pairs built from two symbolic ``List[int]``, sorted by code line) and a symbolic code line.
* ``raise_ok`` (mode A in ``k``, selectors for line-break form / environment variant / entry point):
  multi-line, multi-file template skeletons in which every line-bearing construct holds a numbered
  call ``f(i)`` / ``g(i)`` / ``|fl(i)`` / ``is ts(i)`` to a context function that raises a private
  exception iff ``i == k`` (``k`` symbolic, unbounded).  Templates are compiled natively at setup;
  rendering, the raising call, ``Environment.handle_exception`` and ``rewrite_traceback_stack`` run
  under tracing.  Oracle: the innermost traceback frame whose file is one of the skeleton's template
  files names the file and the line on which call ``k`` was written.
* ``syn_ok`` (mode B): slot ``j`` of the same skeletons is made malformed in one of a table of ways
  (bad expression in place of the call argument, or a malformed tag put in front of the line, with and
  without whitespace control); the template is compiled natively; ``TemplateSyntaxError.lineno`` must
  equal the slot's line.
"""
import traceback
from typing import List

from jinja2 import Environment, FunctionLoader
from jinja2.environment import Template
from jinja2.exceptions import TemplateSyntaxError
from jinja2.utils import Namespace
from vfw.core import Cond, pick, pickb
from vfw.support import NoTracing, drive, drive_agen

FUNCTIONS = [
    "jinja2.environment.Template.get_corresponding_lineno", "Template.debug_info",
    "jinja2.debug.rewrite_traceback_stack / fake_traceback", "Environment.handle_exception",
    "Template.render/generate/render_async/generate_async",
    "jinja2.compiler.CodeGenerator (newline/writeline debug_info mapping, all statement visitors used by the skeletons)",
    "jinja2.lexer.Lexer.tokeniter/wrap (token line counting, whitespace control, raw, comments, line statements)",
    "jinja2.parser.Parser (node line numbers, fail)", "jinja2.ext (do, i18n trans, loopcontrols) node line numbers",
]
OUTSIDE = [
    "templates other than the skeleton table (structure is fixed per skeleton; which call raises / which slot is malformed, "
    "the line-break form, environment variant and entry point are quantified)",
    "calls written on a continuation line of a multi-line statement tag (the statement's first line is reported by design)",
    "line breaks other than \\n, \\r\\n, \\r; custom delimiters",
    "syntax errors whose offending token is the end of the template (unclosed blocks/comments/raw)",
]
ASSUMPTIONS = [
    "templates are compiled natively at setup (runtime conditions) or natively per path (syntax conditions)",
    "template file names come from a FunctionLoader returning a distinct filename per template",
]
# repaired in /repo by three 'fix:' commits (see known_findings.json); the slots are no longer flagged
FIXED_DEFECTS = [
    "compiler.visit_With emits the assignments with self.newline() (no node): an exception raised by the value of "
    "'{% with a = f() %}' is attributed to the previous mapped template line, e.g. '{{ 1 }}\\n\\n\\n{% with a = f() %}{% endwith %}' "
    "reports line 1 instead of 4 (skeleton 'ext' slot flagged @D)",
    "compiler.visit_EvalContextModifier writes 'context.eval_ctx.autoescape = <expr>' without a line mapping: "
    "'{{ 1 }}\\n\\n\\n{% autoescape f() %}{% endautoescape %}' reports line 1 instead of 4 (skeleton 'ext' slot flagged @D)",
    "ext.InternationalizationExtension.parse returns the synthetic Assign('_trans', <call>) without a line number: "
    "'{{ 1 }}\\n\\n\\n{% trans x=f() %}{{ x }}{% endtrans %}' reports line 1 instead of 4 (skeleton 'ext' slot flagged @D)",
]


class Boom(Exception):
    pass


K = [0]


def _f(i, *a, **kw):
    if i == K[0]:
        raise Boom(i)
    c = kw.get("caller")
    if c is not None:
        return c()
    return [i]


def _tn(i, name):
    if i == K[0]:
        raise Boom(i)
    return name


def _fl(v, i):
    if i == K[0]:
        raise Boom(i)
    return v


def _ts(v, i):
    if i == K[0]:
        raise Boom(i)
    return True


# ---------------------------------------------------------------------------------------------- skeletons
# '@' marks a numbered call argument ("slot").  Every slot is reachable when no earlier slot raises.
SK = {}
SKENV = {}

SK["flat"] = {"main": """{{ f(@) }}
text {{ f(@) }} text {{ f(@) }}

{# comment
   spanning
   lines #}
{% set a = f(@) %}
{% raw %}
 {{ not a call }}

 {% endfor %}
{% endraw %}
{{ f(@) }}
{% set s = "multi
line
string" %}{{ f(@) }}
{{ [1,
    2,
    3]|length }}{{ f(@) }}
{{
   f(@)
}}
{{ 'a
b' ~ 1 }}
{{ f(@) }}{# c1
#}{{ f(@) }}
{% set t %}
  t1
  t2
{% endset %}{{ f(@) }}
last {{ none_v|fl(@) }} {{ none_v is ts(@) }}"""}

SK["ws"] = {"main": """{{ f(@) }}

   \t
  {%- set a = f(@) %}
x

  {{- f(@) }}
y

  {#- comment -#}

{{ f(@) -}}


{{ f(@) }}
{% if true -%}


  {{ f(@) }}
{%- endif -%}


{{ f(@) }}
{% raw -%}

  raw
{%- endraw -%}

{{ f(@) }}
{%- for x in f(@) -%}

   {%- if f(@) -%}

      {{- f(@) -}}

   {%- endif -%}

{%- endfor -%}

{%+ set b = f(@) %}
   {%+ if f(@) +%}
{{ f(@) }}
   {% endif +%}
{#-

-#}

{{- f(@) }}
 \t {% set c = f(@) %} \t
 {# lone comment #}
 {{ f(@) }}"""}

SK["cond_loop"] = {"main": """{% if f(@) %}
  {{ f(@) }}
{% elif f(0) %}
{% else %}
{% endif %}
{% if not f(@) %}
  x
{% elif not f(@) %}
  y
{% elif f(@) %}
  {{ f(@) }}
{% else %}
  z
{% endif %}
{% if not f(@) %}
  a
{% else %}
  {{ f(@) }}
{% endif %}
{% for x in f(@) %}
  {{ f(@) }}
  {% for y in f(@) if f(@) %}
     {{ f(@) }}{{ loop.index }}
  {% else %}
  {% endfor %}
  {{ f(@) }}
{% endfor %}
{% for x in [] %}
 never
{% else %}
 {{ f(@) }}
{% endfor %}
{% for n in f(@) recursive %}
  {{ f(@) }}
  {% if loop.depth < 2 %}{{ loop(f(@)) }}{% endif %}
{% endfor %}
{{ f(@) if f(@) else 0 }}
{% for a, b in [(1, 2)] %}

  {{ f(@) }}{% set q = f(@) %}
{% endfor %}
{{ f(@) }}"""}

SK["call"] = {"main": """{{ f(@) }}
{% call g(@) %}
  line
  {{ f(@) }}
  more

{% endcall %}
{% call g(@) %}
  text only

{% endcall %}
{% call(a) g(@) -%}

  {{- f(@) }}
{%- endcall %}
{% macro wrap(n) %}
  <{{ caller(f(@)) }}>

{% endmacro %}
{% call(v) wrap(f(@)) %}
  {{ v }}

  {{ f(@) }}
{% endcall %}
{% call g(@) %}{% call g(@) %}

{{ f(@) }}

{% endcall %}

{% endcall %}
{{ f(@) }}"""}

SK["filterset"] = {"main": """{{ f(@) }}
{% filter fl(@) %}
  line
  {{ f(@) }}
  more

{% endfilter %}
{% filter fl(@) %}
  text

{% endfilter %}
{% set x | fl(@) %}
 a
 {{ f(@) }}
 b
{% endset %}
{% set y | fl(@) %}
 a

 b
{% endset %}
{% set z %}

 {{ f(@) }}
{% endset %}
{% filter upper | fl(@) -%}

  {% filter fl(@) %}
     {{ f(@) }}

  {% endfilter %}
{%- endfilter %}
{{ f(@) }}"""}

SK["macro"] = {"main": """{% macro m(a, b=f(@)) %}
  {{ f(@) }}
  {% if a %}

    {{ f(@) }}
  {% endif %}
  {{ caller() if caller else '' }}
{% endmacro %}
{% macro outer() -%}
  {% macro inner() %}
     {{ f(@) }}
  {% endmacro %}
  {{ inner() }}
  {{ m(f(@)) }}
{%- endmacro %}
{{ f(@) }}

{{ m(f(@)) }}
{{ outer() }}
{% call m(f(@)) %}
   {{ f(@) }}
{% endcall %}
{{ none_v|fl(@) }}
{{ none_v is ts(@) }}
{% set v = m(1, 2) ~ f(@) %}
{{ f(@) }}"""}

SK["blocks"] = {
    "base": """{{ f(@) }}
<html>
{% block head %}
  {{ f(@) }}
{% endblock %}

{% block body %}
  base body {{ f(@) }}
{% endblock %}
{% block tail scoped %}{{ f(@) }}
{% endblock %}
{% for i in f(@) %}
  {% block inloop scoped %}

    {{ f(@) }}{{ i }}
  {% endblock %}
{% endfor %}
{{ f(@) }}""",
    "mid": """{% extends "base" %}
{% set junk = f(@) %}

{% block body %}
  {{ f(@) }}
  {{ super() }}
  {{ f(@) }}
{% endblock %}""",
    "main": """{# leading comment

#}
{% extends tn(@, "mid") %}
{% block head %}

  {{ f(@) }}{{ super() }}
  {{ self.tail() }}
{% endblock %}
{% block body -%}

  {{ f(@) }}
  {{- super() }}
{% endblock %}
{% block inloop %}
 {{ f(@) }}{{ super() }}
{% endblock %}""",
}

SK["include"] = {
    "main": """{{ f(@) }}
{% include "inc" %}
{% for i in f(@) %}
  {% include "inc2" %}
{% endfor %}
{% import "lib" as lib %}
{% from "lib" import mm, vv with context %}

{{ lib.mm(f(@)) }}
{{ mm(1) }}
{% include ["missing", "inc2"] %}
{% include "missing" ignore missing %}
{% include tn(@, "inc2") %}

{% include [tn(@, "missing"), "inc2"] ignore missing %}
{% import tn(@, "lib") as lib2 %}
{% from tn(@, "lib") import mm as mm2 %}
{{ f(@) }}""",
    "inc": """line one
{{ f(@) }}

{% include "inc2" %}
{{ f(@) }}""",
    "inc2": """

{{ f(@) }}""",
    "lib": """{% set vv = f(@) %}
{% macro mm(a) %}

  {{ f(@) }}
{% endmacro %}
{{ f(@) }}""",
}

SK["linestmt"] = {"main": """{{ f(@) }}
# set a = f(@)
## a line comment
# for x in f(@):
  {{ f(@) }}   ## trailing comment
  # if f(@)
    text
    # set b = f(@)
  # endif
# endfor

# if f(@):

  {{ f(@) }}
# endif
{{ f(@) }}"""}
SKENV["linestmt"] = dict(line_statement_prefix="#", line_comment_prefix="##")

SK["ext"] = {"main": """{% do f(@) %}
{% trans x=f(@) %}
  hello {{ x }}

{% endtrans %}
{{ f(@) }}
{% trans n=f(@)|length %}
  one
{% pluralize %}
  many {{ n }}
{% endtrans %}
{{ _("x") }}{{ f(@) }}
{% for i in [1,2] %}
  {% if i == 2 %}{% break %}{% endif %}
  {{ f(@) }}
  {% continue %}
{% endfor %}
{% with a = f(@), b = 2 %}
  {{ f(@) }}
{% endwith %}
{% autoescape true %}
  {{ f(@) }}
{% endautoescape %}

{% autoescape f(@) %}
  {{ f(@) }}
{% endautoescape %}
{% set ns0.v = f(@) %}
{{ f(@) }}"""}
SKENV["ext"] = dict(extensions=["jinja2.ext.do", "jinja2.ext.i18n", "jinja2.ext.loopcontrols"])

# constructing Namespace under tracing trips CrossHair's constructor enforcement: native (mode B) conditions only
SK["ns"] = {"main": """{{ f(@) }}
{% set ns = namespace(v=f(@)) %}

{% set ns.v = f(@) %}
{% for i in f(@) %}
  {% set ns.w = f(@) %}
{% endfor %}
{{ f(@) }}"""}
NATIVE_ONLY = {"ns"}

NLS = ["\n", "\r\n", "\r", "mixed"]
_ROT = ["\r", "\r\n", "\n"]     # unambiguous rotation: '\r' is never directly followed by '\n'
VARS = [("plain", {}), ("trim", dict(trim_blocks=True, lstrip_blocks=True)), ("async", dict(enable_async=True))]

# malformations.  kind 'x': replaces the slot's argument; kind 'p': inserted at the start of the slot's line.
MAL = [
    ("x", "$"), ("x", "1 2"), ("x", "]"), ("x", "1))"), ("x", "1 if"), ("x", "1,,"), ("x", "a b"),
    ("x", "1|nosuchfilter_"), ("x", "1 is nosuchtest_"), ("x", "**"), ("x", "x=1, 2"),
    ("p", "{% bogus %}"), ("p", "{%- bogus -%}"), ("p", "{{ }}"), ("p", "{{- 1 + }}"), ("p", "{% if %}"),
    ("p", "{% for x %}"), ("p", "{% endbogus %}"), ("p", "{% set 1 = 2 %}"), ("p", "{% include %}"),
    ("p", "{% macro 1 %}"), ("p", "{% block %}"), ("p", "{% import 'x' %}"), ("p", "{% call 1 %}"),
    ("p", "{%- filter %}"), ("p", "{% block dup_ %}{% endblock %}{% block dup_ %}{% endblock %}"),
    ("p", "{{ 1|nosuchfilter_ }}"), ("p", "{%+ from 'x' import %}"), ("p", "{{ 1 1 }}"),
]
QUICK_MAL = [0, 1, 2, 7, 11, 12, 14, 18]


def convert_nl(src, nl):
    if nl == "\n":
        return src
    lines = src.split("\n")
    if nl != "mixed":
        return nl.join(lines)
    out = []
    for i, ln in enumerate(lines[:-1]):
        out.append(ln + _ROT[i % 3])
    out.append(lines[-1])
    return "".join(out)


def build(files, bad=None, mal=None, flagged=None):
    """Number the slots; returns ({name: source}, {slot: (name, line)}).  With ``bad``/``mal`` slot ``bad`` is malformed."""
    n = 0
    out = {}
    slots = {}
    for name, src in files.items():
        parts = src.split("@")
        s = parts[0]
        prefix_at = None
        for p in parts[1:]:
            n += 1
            if p.startswith("D"):       # slot flagged as a known deviation of the unchanged tree (see SUSPECTED_DEFECTS)
                p = p[1:]
                if flagged is not None:
                    flagged.append(n)
            slots[n] = (name, 1 + s.count("\n"))
            if n == bad and mal[0] == "x":
                s += mal[1] + p
            else:
                if n == bad:
                    prefix_at = s.rfind("\n") + 1
                s += str(n) + p
        if prefix_at is not None:
            s = s[:prefix_at] + mal[1] + s[prefix_at:]
        out[name] = s
    return out, slots


def fname(sk, name):
    return "/vf/%s/%s.html" % (sk, name)


def make_env(sk, srcs, nl, var):
    kw = dict(VARS[var][1])
    kw.update(SKENV.get(sk, {}))
    conv = {n: convert_nl(s, NLS[nl]) for n, s in srcs.items()}

    def load(name):
        if name in conv:
            return conv[name], fname(sk, name), None
        return None

    env = Environment(loader=FunctionLoader(load), **kw)
    env.globals.update(f=_f, g=_f, tn=_tn, none_v=None, ns0=Namespace())
    env.filters["fl"] = _fl
    env.tests["ts"] = _ts
    if "extensions" in kw:
        env.install_null_translations()
    return env


P = {}
BUILT = {}
SLOTS = {}
FILES = set()
EXCL = []


def setup(param):
    P.clear()
    P.update(param or {})
    BUILT.clear()
    SLOTS.clear()
    FILES.clear()
    del EXCL[:]
    K[0] = 0
    sk = P.get("sk")
    if not sk:
        return
    srcs, slots = build(SK[sk], flagged=EXCL)
    SLOTS.update(slots)
    FILES.update(fname(sk, n) for n in srcs)
    if P.get("kind") == "rt":
        for nl in range(len(NLS)):
            for var in range(len(VARS)):
                env = make_env(sk, srcs, nl, var)
                for n in srcs:          # compile every file now: nothing is compiled under tracing
                    env.get_template(n)
                BUILT[(nl, var)] = env.get_template("main")


# ---------------------------------------------------------------------------------------------- kernel (mode A)
class _Stub:
    def __init__(self, debug_info):
        self.debug_info = debug_info


def _sorted(xs):
    return all(xs[i] <= xs[i + 1] for i in range(len(xs) - 1))


def lineno_ok(tl: List[int], cl: List[int], lineno: int) -> bool:
    """
    pre: len(tl) == len(cl) and len(cl) <= MAXMAP() and _sorted(cl)
    post: _
    """
    pairs = [(tl[i], cl[i]) for i in range(len(cl))]
    got = Template.get_corresponding_lineno(_Stub(pairs), lineno)
    exp = 1
    for t_line, c_line in pairs:
        if c_line <= lineno:
            exp = t_line
    return got == exp


def MAXMAP():
    return P.get("maxmap", 4)


def debuginfo_ok(sel: int) -> bool:
    """
    pre: 0 <= sel < len(BUILT_LIST())
    post: _
    """
    # the debug_info property of each compiled skeleton template: pairs of positive ints, code lines
    # strictly increasing (so 'last mapping with code_line <= lineno' is well defined)
    t = BUILT_LIST()[pick(sel, len(BUILT_LIST()))]
    with NoTracing():
        di = t.debug_info
        ok = all(isinstance(a, int) and isinstance(b, int) and a >= 1 and b >= 1 for a, b in di)
        return ok and all(di[i][1] < di[i + 1][1] for i in range(len(di) - 1))


def BUILT_LIST():
    return [BUILT[k] for k in sorted(BUILT)]


# ---------------------------------------------------------------------------------------------- runtime errors
def _run(t, is_async, gen):
    if is_async:
        if gen:
            return drive_agen(t.generate_async())
        return drive(t.render_async())
    if gen:
        return list(t.generate())
    return t.render()


def _raise(k, nl, var, gen):
    t = BUILT[(nl, var)]
    K[0] = k
    try:
        _run(t, VARS[var][0] == "async", gen)
    except Boom as e:
        i = e.args[0]
        frames = [(fr.f_code.co_filename, ln) for fr, ln in traceback.walk_tb(e.__traceback__)
                  if fr.f_code.co_filename in FILES]
        name, line = SLOTS[i]
        return len(frames) > 0 and frames[-1] == (fname(P["sk"], name), line)
    finally:
        K[0] = 0
    # every slot is reachable: no exception means k names no slot
    return not (1 <= k <= len(SLOTS))


# EXCL: slots written '@D' in the skeleton = statements the unchanged tree is known to mis-report (SUSPECTED_DEFECTS)
def raise_ok(k: int, var: int) -> bool:
    """
    pre: 0 <= var < len(VARS) and all(k != d for d in EXCL)
    post: _
    """
    # mode A: k (any int) flows through the rendering template into the context function; the render, the
    # raise, handle_exception and the traceback rewrite all run under tracing
    var = pick(var, len(VARS))
    return _raise(k, P.get("nl", 3), var, False)


def raise_b_ok(k: int, nl: int, var: int, gen: bool) -> bool:
    """
    pre: 0 <= k <= len(SLOTS) + 1 and 0 <= nl < len(NLS) and 0 <= var < len(VARS) and all(k != d for d in EXCL)
    post: _
    """
    k = pick(k, len(SLOTS) + 2)
    nl = pick(nl, len(NLS))
    var = pick(var, len(VARS))
    gen = pickb(gen)
    with NoTracing():
        return _raise(k, nl, var, gen)


# ---------------------------------------------------------------------------------------------- syntax errors
def MALS():
    return P.get("mals") or list(range(len(MAL)))


def syn_ok(j: int, m: int, nl: int, var: int) -> bool:
    """
    pre: 1 <= j <= len(SLOTS) and 0 <= m < len(MALS()) and 0 <= nl < len(NLS) and 0 <= var < 2
    post: _
    """
    j = pick(j - 1, len(SLOTS)) + 1
    m = pick(m, len(MALS()))
    nl = pick(nl, len(NLS))
    var = pick(var, 2)
    with NoTracing():
        return _syn(j, MALS()[m], nl, var)


def _syn(j, m, nl, var):
    sk = P["sk"]
    mal = MAL[m]
    if mal[0] == "p" and sk == "linestmt":
        return True     # a prefix would turn the line statement into data
    srcs, slots = build(SK[sk], j, mal)
    name, line = slots[j]
    env = make_env(sk, srcs, nl, var)
    try:
        env.get_template(name)
    except TemplateSyntaxError as e:
        return e.lineno == line
    return True     # the property speaks about reported syntax errors only


# ---------------------------------------------------------------- errors the engine itself raises at render time
# A filter or test that does not exist may be named inside a conditional (the check is deferred to render time); the error
# must point at the line that uses it.
D_USES = ["{{ v|nofilter }}", "{{ v|nofilter(1)|upper }}", "{% if v is notest %}y{% endif %}", "{{ 1 if v is notest(2) else 0 }}", "{{ (v|nofilter) if go else '' }}",
          "{% filter nofilter %}x{% endfilter %}", "{% set q = v|nofilter %}", "{% for i in v|nofilter %}{% endfor %}", "{% for i in [1] if i is notest %}{% endfor %}"]
D_SHAPES = ["top", "macro", "block", "include", "callblock", "loop"]


def _deferred_sources(ui, shape, pad):
    use = "{% if go %}" + D_USES[ui] + "{% endif %}"
    lines = ["L%d {{ 1 }}" % i for i in range(pad)]
    extra = {}
    if shape == "top":
        body = lines + [use]
        errfile, errline = "main", len(body)
    elif shape == "macro":
        body = ["{% macro m() %}"] + lines + [use, "{% endmacro %}", "{{ m() }}"]
        errfile, errline = "main", 1 + pad + 1
    elif shape == "block":
        extra["base"] = "B\n{% block b %}{% endblock %}\n"
        body = ["{% extends 'base' %}", "{% block b %}"] + lines + [use, "{% endblock %}"]
        errfile, errline = "main", 2 + pad + 1
    elif shape == "include":
        extra["inc"] = "\n".join(lines + [use])
        body = ["x", "{% include 'inc' %}"]
        errfile, errline = "inc", pad + 1
    elif shape == "callblock":
        body = ["{% macro w() %}{{ caller() }}{% endmacro %}", "{% call w() %}"] + lines + [use, "{% endcall %}"]
        errfile, errline = "main", 2 + pad + 1
    else:
        body = ["{% for z in [1] %}"] + lines + [use, "{% endfor %}"]
        errfile, errline = "main", 1 + pad + 1
    extra["main"] = "\n".join(body)
    return extra, errfile, errline


def deferred_ok(use: int, shape: int, pad: int, asyncm: bool) -> bool:
    """
    pre: 0 <= use < len(D_USES) and 0 <= shape < len(D_SHAPES) and 0 <= pad <= 3
    post: _
    """
    from jinja2 import FunctionLoader
    from jinja2.exceptions import TemplateRuntimeError, TemplateAssertionError
    ui = pick(use, len(D_USES))
    sh = D_SHAPES[pick(shape, len(D_SHAPES))]
    pd = pick(pad, 4)
    am = pickb(asyncm)
    with NoTracing():
        srcs, errfile, errline = _deferred_sources(ui, sh, pd)
        env = Environment(loader=FunctionLoader(lambda n: (srcs[n], "/c35d/" + n, None) if n in srcs else None), enable_async=am)
        try:
            t = env.get_template("main")
        except TemplateAssertionError:
            return True     # this use is checked at compile time (not deferred): nothing to locate at render time
        # not taken: renders fine
        try:
            drive(t.render_async(go=False, v=1)) if am else t.render(go=False, v=1)
        except TemplateAssertionError:
            return True     # compile-time check of a lazily compiled included template
        except Exception:
            return False
        try:
            drive(t.render_async(go=True, v=1)) if am else t.render(go=True, v=1)
        except (TemplateRuntimeError, TemplateAssertionError) as e:
            # (an included template is compiled when it is first included: its compile-time check surfaces here too)
            frames = [(fr.f_code.co_filename, ln) for fr, ln in traceback.walk_tb(e.__traceback__) if fr.f_code.co_filename.startswith("/c35d/")]
            return len(frames) > 0 and frames[-1] == ("/c35d/" + errfile, errline)
        return False


def conditions(tier, seed):
    thorough = tier == "thorough"
    to = 300 if thorough else 60
    out = [Cond("get_corresponding_lineno", "lineno_ok", mode="A", param=dict(maxmap=5 if thorough else 4), timeout=to,
                witnesses=[[[1, 3, 7], [5, 9, 20], 10], [[1, 3, 7], [5, 9, 20], 4], [[2, 2], [8, 8], 8], [[], [], 3]],
                bounds="debug_info of <= %d (template_line, code_line) pairs of arbitrary ints sorted by code line; any int line" % (5 if thorough else 4))]
    for sk in SK:
        fl = []
        n = len(build(SK[sk], flagged=fl)[1])
        good = [i for i in range(1, n + 1) if i not in fl]
        desc = f"skeleton '{sk}' ({len(SK[sk])} file(s), {n} numbered calls" + (f", slots {fl} excluded: see SUSPECTED_DEFECTS" if fl else "") + ")"
        if sk not in NATIVE_ONLY:
            for nl in ([3, 1] if thorough else [3]):
                out.append(Cond(f"raiseA[{sk},nl{nl}]", "raise_ok", mode="A", param=dict(sk=sk, kind="rt", nl=nl), timeout=to,
                                witnesses=[[good[0], 0], [good[-1], 1], [good[len(good) // 2], 2], [n + 1, 2]],
                                bounds=desc + f"; raising call index k: any int; line breaks: {NLS[nl]!r}; "
                                       "env in {default, trim_blocks+lstrip_blocks, async}; render()/render_async()"))
        out.append(Cond(f"raiseB[{sk}]", "raise_b_ok", mode="B", param=dict(sk=sk, kind="rt"), timeout=to,
                        witnesses=[[good[0], 0, 0, False], [good[-1], 3, 1, True], [good[len(good) // 2], 2, 2, False], [n + 1, 1, 2, True]],
                        bounds=desc + f"; k in 0..{n + 1}; line breaks in {{\\n, \\r\\n, \\r, mixed}}; "
                               "env in {default, trim_blocks+lstrip_blocks, async}; render or generate (sync/async)"))
        out.append(Cond(f"debug_info[{sk}]", "debuginfo_ok", mode="B", param=dict(sk=sk, kind="rt"), timeout=to,
                        witnesses=[[0], [5], [11]], bounds=f"the 12 compiled variants of skeleton '{sk}'"))
        mals = list(range(len(MAL))) if thorough else QUICK_MAL
        groups = [mals[i::2] for i in range(2)]
        for gi, g in enumerate(groups):
            out.append(Cond(f"syntax[{sk},{gi}]", "syn_ok", mode="B", param=dict(sk=sk, kind="syn", mals=g), timeout=to,
                            witnesses=[[1, 0, 0, 0], [n, len(g) - 1, 3, 1], [max(1, n // 2), len(g) // 2, 2, 0]],
                            bounds=f"skeleton '{sk}': malformed slot j in 1..{n} x {len(g)} malformations x 4 line-break forms x "
                                   "{default, trim_blocks+lstrip_blocks}"))
    out.append(Cond("deferred unknown filter / test errors", "deferred_ok", mode="B", param={}, timeout=100 if tier != "thorough" else 300,
                    witnesses=[[0, 0, 2, False], [2, 1, 1, True], [3, 2, 0, False], [4, 3, 3, False], [5, 4, 1, True], [8, 5, 2, False]],
                    bounds=f"{len(D_USES)} uses of a missing filter/test inside a conditional x {len(D_SHAPES)} placements (top level, macro, child block, included template, call block, loop) x 0..3 preceding lines x sync/async; innermost template frame == (file, line of the use)"))
    out.append(Cond("deferred unknown filter / test errors", "deferred_ok", mode="B", param={}, timeout=100 if tier != "thorough" else 300,
                    witnesses=[[0, 0, 2, False], [2, 1, 1, True], [3, 2, 0, False], [4, 3, 3, False], [5, 4, 1, True], [8, 5, 2, False]],
                    bounds=f"{len(D_USES)} uses of a missing filter/test inside a conditional x {len(D_SHAPES)} placements (top level, macro, child block, included template, call block, loop) x 0..3 preceding lines x sync/async; innermost template frame == (file, line of the use)"))
    return out
