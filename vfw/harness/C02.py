"""C02 — compiled expressions evaluate as the documented expression semantics.

Expression trees are generated from an own tree type and printed with *minimal*
parentheses according to the documented precedence/associativity table, so a
changed precedence level or associativity in the real parser yields a different
tree and the solver is asked for data on which the two differ.  Leaves are
symbolic ints/bools (mode A); the oracle is an independent evaluator over the
tree.  Every expression is evaluated through ``compile_expression`` and through a
rendered template (recording callable) in default, unoptimized, sandboxed and
async environments.
"""
import itertools
import random
from typing import List

from jinja2 import Environment
from jinja2.exceptions import UndefinedError
from jinja2.sandbox import SandboxedEnvironment
from vfw.core import Cond, pick
from vfw.support import NoTracing, Rec, drive, norm

FUNCTIONS = ["jinja2.parser.Parser.parse_condexpr/parse_or/parse_and/parse_not/parse_compare/parse_math1/parse_concat/parse_math2/parse_pow/parse_unary/parse_postfix/parse_subscript/parse_filter/parse_test",
             "jinja2.compiler.CodeGenerator expression visitors (visit_Const/BinExpr/UnaryExpr/Compare/CondExpr/Getattr/Getitem/Slice/Filter/Test/Call/Concat)",
             "jinja2.optimizer.Optimizer", "jinja2.nodes.*.as_const", "Environment.getattr/getitem", "Environment.compile_expression / TemplateExpression",
             "jinja2.runtime.Undefined / Context.resolve_or_missing", "jinja2.tests / jinja2.filters (abs, default, length, first, last, int)"]
OUTSIDE = ["expression trees with more than 2 binary operators (three-operator trees are a seeded sample: 24 quick / 360 thorough)", "float data", "exponents outside 0..3",
           "string formatting of results (values are compared, not text)", "arbitrary user objects (only the attribute/item probe objects)",
           "undocumented combinations such as an unparenthesised unary minus as a ** operand or a filter applied to an unparenthesised unary expression"]
ASSUMPTIONS = ["reference evaluator = Python semantics per docs/templates.rst 'Expressions' (and/or return operand values, chained comparisons, ** left associative, ~ string concatenation)"]

# ---------------------------------------------------------------- trees
BINLEVEL = {"or": 2, "and": 3, "==": 5, "!=": 5, "<": 5, "<=": 5, ">": 5, ">=": 5, "in": 5, "not in": 5,
            "+": 6, "-": 6, "~": 7, "*": 8, "/": 8, "//": 8, "%": 8, "**": 9}


def level(t):
    k = t[0]
    if k == "cond":
        return 1
    if k == "bin":
        return BINLEVEL[t[1]]
    if k == "not":
        return 4
    if k == "cmp":
        return 5
    if k in ("neg", "pos"):
        return 10
    return 11


def show(t, need=0):
    k = t[0]
    if k == "var":
        s = t[1]
    elif k == "const":
        s = repr(t[1])
    elif k == "bin":
        op, l, r = t[1], t[2], t[3]
        L = BINLEVEL[op]
        if op == "**":
            # operands of ** are written as primaries (parenthesised unless atomic): documented corner avoided
            s = f"{show(l, 11)} ** {show(r, 11)}"
        elif L == 5:
            s = f"{show(l, 6)} {op} {show(r, 6)}"
        else:
            s = f"{show(l, L)} {op} {show(r, L + 1)}"
    elif k == "cmp":
        s = show(t[1], 6) + "".join(f" {op} {show(x, 6)}" for op, x in t[2])
    elif k == "not":
        s = "not " + show(t[1], 4)
    elif k == "neg":
        s = "-" + show(t[1], 11)
    elif k == "pos":
        s = "+" + show(t[1], 11)
    elif k == "cond":
        s = f"{show(t[1], 2)} if {show(t[2], 2)}" + (f" else {show(t[3], 1)}" if t[3] is not None else "")
    elif k == "filter":
        s = f"{show(t[1], 11)}|{t[2]}" + (f"({', '.join(show(a) for a in t[3])})" if t[3] else "")
    elif k == "test":
        s = f"{show(t[1], 11)} is {'not ' if t[4] else ''}{t[2]}" + (f"({', '.join(show(a) for a in t[3])})" if t[3] else "")
        if need > 4:
            return "(" + s + ")"
        return s
    elif k == "attr":
        s = f"{show(t[1], 11)}.{t[2]}"
    elif k == "item":
        s = f"{show(t[1], 11)}[{show(t[2])}]"
    elif k == "slice":
        s = f"{show(t[1], 11)}[{'' if t[2] is None else show(t[2])}:{'' if t[3] is None else show(t[3])}" + (f":{show(t[4])}" if t[4] is not None else "") + "]"
    elif k == "list":
        s = "[" + ", ".join(show(x) for x in t[1]) + "]"
    elif k == "tuple":
        s = "(" + ", ".join(show(x) for x in t[1]) + ("," if len(t[1]) == 1 else "") + ")"
    elif k == "call":
        s = f"{show(t[1], 11)}({', '.join(show(a) for a in t[2])})"
    else:
        raise AssertionError(k)
    if level(t) < need:
        return "(" + s + ")"
    return s


class Undef:
    def __eq__(self, o):
        return isinstance(o, Undef)

    def __repr__(self):
        return "UNDEF"


UNDEF = ("<undefined>",)


def ev(t, env):
    """Reference evaluation. Undefined is represented by UNDEF and raises like the default Undefined when used."""
    k = t[0]
    if k == "var":
        return env.get(t[1], UNDEF)
    if k == "const":
        return t[1]
    if k == "bin":
        op = t[1]
        if op == "and":
            l = ev(t[2], env)
            return ev(t[3], env) if _truth(l) else l
        if op == "or":
            l = ev(t[2], env)
            return l if _truth(l) else ev(t[3], env)
        l, r = ev(t[2], env), ev(t[3], env)
        if op == "~":
            return _str(l) + _str(r)
        if op in ("==", "!=", "<", "<=", ">", ">=", "in", "not in"):
            return _cmp(op, l, r)
        _need(l), _need(r)
        if op == "+":
            return l + r
        if op == "-":
            return l - r
        if op == "*":
            return l * r
        if op == "/":
            return l / r
        if op == "//":
            return l // r
        if op == "%":
            return l % r
        if op == "**":
            return l ** r
    if k == "cmp":
        l = ev(t[1], env)
        for op, x in t[2]:
            r = ev(x, env)
            if not _cmp(op, l, r):
                return False
            l = r
        return True
    if k == "not":
        return not _truth(ev(t[1], env))
    if k == "neg":
        v = ev(t[1], env)
        _need(v)
        return -v
    if k == "pos":
        v = ev(t[1], env)
        _need(v)
        return +v
    if k == "cond":
        if _truth(ev(t[2], env)):
            return ev(t[1], env)
        return ev(t[3], env) if t[3] is not None else UNDEF
    if k == "list":
        return [ev(x, env) for x in t[1]]
    if k == "tuple":
        return tuple(ev(x, env) for x in t[1])
    if k == "filter":
        v = ev(t[1], env)
        args = [ev(a, env) for a in t[3]]
        name = t[2]
        if name == "abs":
            _need(v)
            return abs(v)
        if name == "default":
            return args[0] if v == UNDEF else v
        if name == "length":
            _need(v)
            return len(v)
        if name == "first":
            _need(v)
            return v[0] if len(v) else UNDEF
        if name == "last":
            _need(v)
            return v[-1] if len(v) else UNDEF
        if name == "int":
            return 0 if v == UNDEF else int(v)
    if k == "test":
        v = ev(t[1], env)
        args = [ev(a, env) for a in t[3]]
        name = t[2]
        if name == "defined":
            r = v != UNDEF
        elif name == "undefined":
            r = v == UNDEF
        elif name == "none":
            r = v is None
        else:
            _need(v)
            if name == "odd":
                r = v % 2 == 1
            elif name == "even":
                r = v % 2 == 0
            elif name == "divisibleby":
                r = v % args[0] == 0
            elif name in ("eq", "equalto"):
                r = v == args[0]
            elif name == "gt":
                r = v > args[0]
            elif name == "in":
                r = v in args[0]
            elif name == "number":
                r = isinstance(v, (int, float)) or hasattr(v, "__int__") and not isinstance(v, (str, list, tuple))
            elif name == "string":
                r = isinstance(v, str)
            else:
                raise AssertionError(name)
        return (not r) if t[4] else r
    if k == "slice":
        v = ev(t[1], env)
        _need(v)
        a = None if t[2] is None else ev(t[2], env)
        b = None if t[3] is None else ev(t[3], env)
        c = None if t[4] is None else ev(t[4], env)
        return v[a:b:c]
    if k == "item":
        v = ev(t[1], env)
        i = ev(t[2], env)
        _need(v)
        try:
            return v[i]
        except (IndexError, KeyError, TypeError):
            return UNDEF
    raise AssertionError(k)


def _need(v):
    if isinstance(v, tuple) and v == UNDEF:
        raise UndefinedError("undefined used")


def _truth(v):
    if isinstance(v, tuple) and v == UNDEF:
        return False
    return bool(v)


def _str(v):
    if isinstance(v, tuple) and v == UNDEF:
        return ""
    return str(v)


def _cmp(op, l, r):
    if op == "==":
        return l == r
    if op == "!=":
        return l != r
    if op in ("in", "not in"):
        _need(r)
        res = l in r
        return res if op == "in" else not res
    _need(l), _need(r)
    return {"<": l < r, "<=": l <= r, ">": l > r, ">=": l >= r}[op]


# ---------------------------------------------------------------- the tree corpus
V = lambda n: ("var", n)
C = lambda v: ("const", v)
B = lambda op, l, r: ("bin", op, l, r)
ARITH = ["+", "-", "*", "//", "%", "**"]
PAIR_OPS = ["or", "and", "==", "<", "+", "-", "*", "//", "%", "**"]


def _leaf_for(op, side, name):
    # exponent operands are kept in 0..3 (constants) to stay out of nonlinear/huge territory
    if op == "**" and side == "r":
        return C({"a": 2, "b": 3, "c": 2}[name])
    return V(name)


def pair_trees():
    out = []
    for o1, o2 in itertools.product(PAIR_OPS, repeat=2):
        # (a o1 b) o2 c   and   a o1 (b o2 c)
        out.append(B(o2, B(o1, V("a"), _leaf_for(o1, "r", "b")), _leaf_for(o2, "r", "c")))
        out.append(B(o1, V("a"), B(o2, V("b"), _leaf_for(o2, "r", "c")) if o1 != "**" else C(2)))
    seen = set()
    res = []
    for t in out:
        s = show(t)
        if s not in seen:
            seen.add(s)
            res.append(t)
    return res


TRIPLE_OPS = ["or", "and", "==", "<", "+", "-", "*", "//", "%", "**", "in", "not in"]


def triple_trees(seed, n):
    """Seeded sample of trees with three binary operators and optional unary not / minus (all five bracketings); printed
    with minimal parentheses, so the real parser's precedence and associativity decide the shape it builds."""
    rnd = random.Random(1000 + seed)
    names = ["a", "b", "c"]

    def leaf(k):
        return V(names[k % 3])

    def mk(op, l, r):
        if op == "**":
            r = C(rnd.choice([0, 2, 3]))
        if op in ("in", "not in"):
            r = rnd.choice([V("xs"), ("list", [leaf(rnd.randint(0, 2)), C(1)])])
        return B(op, l, r)

    def un(t):
        x = rnd.random()
        if x < 0.12:
            return ("not", t)
        if x < 0.24:
            return ("neg", t)
        return t
    out, seen = [], set()
    tries = 0
    while len(out) < n and tries < n * 20:
        tries += 1
        o1, o2, o3 = (rnd.choice(TRIPLE_OPS) for _ in range(3))
        shape = rnd.randint(0, 4)
        a, b, c, d = un(leaf(0)), un(leaf(1)), un(leaf(2)), un(leaf(rnd.randint(0, 2)))
        if shape == 0:
            t = mk(o3, mk(o2, mk(o1, a, b), c), d)
        elif shape == 1:
            t = mk(o3, mk(o1, a, mk(o2, b, c)), d)
        elif shape == 2:
            t = mk(o2, mk(o1, a, b), mk(o3, c, d))
        elif shape == 3:
            t = mk(o1, a, mk(o3, mk(o2, b, c), d))
        else:
            t = mk(o1, a, mk(o2, b, mk(o3, c, d)))
        t = un(t)
        try:
            sh = show(t)
        except Exception:
            continue
        if sh not in seen:
            seen.add(sh)
            out.append(t)
    return out


def extra_trees():
    a, b, c, p, q = V("a"), V("b"), V("c"), V("p"), V("q")
    xs = V("xs")
    T = [
        ("cmp", a, [("<", b), ("<=", c)]), ("cmp", a, [("==", b), ("!=", c)]), ("cmp", a, [(">", b), (">=", c), ("<", a)]),
        ("not", B("and", p, q)), B("and", ("not", p), q), ("not", ("not", p)), B("or", ("not", B("==", a, b)), q),
        ("neg", a), B("-", a, ("neg", b)), B("*", ("neg", a), b), ("neg", B("+", a, b)), ("pos", a), B("**", ("neg", a), C(2)), ("neg", B("**", a, C(2))),
        B("**", B("**", a, C(2)), C(3)), B("**", C(2), C(3)), B("**", B("**", C(2), C(3)), C(2)),
        ("cond", a, p, b), ("cond", a, p, None), ("cond", a, p, ("cond", b, q, c)), ("cond", ("cond", a, p, b), q, c), B("+", ("cond", a, p, b), C(1)),
        ("cond", B("+", a, C(1)), B("<", a, b), B("-", b, C(1))), ("cond", a, B("or", p, q), b),
        B("in", a, ("list", [b, C(1), c])), B("not in", a, ("list", [b, c])), B("in", a, ("tuple", [b, c])), B("in", a, xs), B("and", B("in", a, xs), ("not", B("in", b, xs))),
        ("not", B("in", a, xs)), B("==", B("in", a, xs), p),
        ("filter", a, "abs", []), ("filter", ("neg", a), "abs", []), B("+", ("filter", a, "abs", []), b), ("filter", B("-", a, b), "abs", []),
        ("filter", V("zz"), "default", [a]), ("filter", a, "default", [b]), ("filter", xs, "length", []), ("filter", xs, "first", []), ("filter", xs, "last", []),
        B("+", ("filter", xs, "length", []), a), ("filter", ("filter", xs, "first", []), "default", [C(7)]),
        ("test", a, "odd", [], False), ("test", a, "even", [], True), ("test", a, "divisibleby", [C(3)], False), ("test", V("zz"), "defined", [], False),
        ("test", a, "defined", [], True), ("test", V("zz"), "undefined", [], False), ("test", a, "eq", [b], False), ("test", a, "gt", [b], True),
        ("test", a, "in", [xs], False), ("test", a, "none", [], False), B("and", ("test", a, "odd", [], False), p), ("not", ("test", a, "odd", [], False)),
        ("test", B("+", a, b), "even", [], False), ("test", a, "number", [], False), ("test", a, "string", [], False),
        ("slice", xs, C(1), None, None), ("slice", xs, None, None, C(-1)),
        # a slice of something that cannot be sliced is an error (as in Python), not an undefined value
        ("slice", a, C(1), None, None), ("slice", p, None, C(2), None), ("slice", B("+", a, b), None, None, C(-1)), ("slice", ("cond", xs, p, a), C(0), C(1), None),
        ("slice", xs, a, b, None), ("slice", xs, None, None, ("cond", C(1), p, C(-1))),
        ("item", xs, a), ("item", xs, C(0)), ("item", xs, ("neg", C(1))), B("+", ("item", xs, C(0)), a),
        B("+", V("zz"), a), B("==", V("zz"), a), ("not", V("zz")), B("or", V("zz"), a), B("and", V("zz"), a), ("cond", a, V("zz"), b),
        B("//", a, C(0)), B("%", a, B("-", b, b)), B("+", a, C("s")), B("<", a, C("s")),
        ("list", [a, B("+", a, b)]), ("tuple", [a]), ("tuple", [a, b]),
    ]
    return T


def concat_trees():
    s, t, a = V("s"), V("t"), V("a")
    return [B("~", s, t), B("~", s, B("*", t, C(2))), B("*", B("~", s, t), C(2)), B("~", B("+", a, C(1)), s), B("+", a, B("~", C(1), C(2))) if False else B("~", a, B("+", a, C(1))),
            B("~", B("~", s, t), s), B("==", B("~", s, t), C("pq")), B("~", s, B("<", a, C(3))), B("~", V("zz"), s), B("in", s, B("~", s, t)),
            # constant operands that the optimizer folds before code generation
            B("**", ("neg", C(2)), a), B("**", ("neg", C(2)), C(2)), B("*", ("neg", C(2)), a), B("-", a, ("neg", C(3))), B("**", B("-", C(0), C(2)), a),
            B("+", B("*", C(2), C(3)), a), B("//", ("neg", C(7)), C(2)), B("%", ("neg", C(7)), a), ("neg", ("neg", C(2))), B("**", C(2), ("neg", C(1))),
            B("**", ("neg", C(2.5)), a), B("**", B("-", C(1.5), C(4)), a), B("*", ("neg", C(0.5)), a), B("**", ("neg", C(2)), C(0.5)) if False else B("+", ("neg", C(2.5)), a),
            B("not in", C("a"), C("abc")), B("in", C("a"), C("abc")), B("not in", C("abc"), C("a")), B("in", ("tuple", [C(1)]), ("list", [("tuple", [C(1)]), ("tuple", [C(2)])])),
            B("not in", ("tuple", [C(1)]), ("list", [("tuple", [C(1)]), ("tuple", [C(2)])])), B("not in", C(1), ("list", [C(1), C(2)])), B("in", s, C("xpq")), B("not in", s, C("xpq")),
            ("cmp", C(1), [("<", C(2)), ("<", C(2))]), ("cmp", C(3), [(">", C(2)), (">=", C(2)), ("!=", C(1))]), B("==", C("a"), C("a")), ("not", B("==", C(1), C(1))),
            ("cond", C(1), C(0), C(2)), ("cond", C(1), C(0), None), B("and", C(0), C(5)), B("or", C(0), C(5)), B("or", C(""), C("x")),
            ("slice", ("list", [C(10), C(20), C(30), C(40)]), a, None, None), ("slice", V("ys"), a, B("+", a, C(2)), None), ("slice", V("ys"), None, a, C(-1)),
            ("slice", V("ys"), a, None, C(2)), ("slice", V("ys"), ("neg", C(2)), a, None), ("item", V("ys"), a), ("item", V("ys"), ("neg", a))]


TREES = pair_trees() + extra_trees()
CTREES = concat_trees()

# ---------------------------------------------------------------- environments
ENVS = {}
P = {}
CUR = None
EXPR_SRC = ""
CE = None
TPL = {}


def _envs():
    if not ENVS:
        ENVS["default"] = Environment()
        ENVS["unopt"] = Environment(optimized=False)
        ENVS["sandbox"] = SandboxedEnvironment()
        ENVS["async"] = Environment(enable_async=True)
    return ENVS


def setup(param):
    global P, CUR, EXPR_SRC, CE, TPL
    P = dict(param or {})
    _envs()
    corpus = CTREES if P.get("concat") else TREES
    if P.get("triple") is not None:
        CUR = triple_trees(P.get("tseed", 0), P.get("tn", 0))[P["triple"]]
    else:
        CUR = corpus[P.get("tree", 0)]
    EXPR_SRC = show(CUR)
    CE = ENVS["default"].compile_expression(EXPR_SRC, undefined_to_none=False)
    TPL = {k: e.from_string("{{ rec('r', " + EXPR_SRC + ") }}") for k, e in ENVS.items()}


def _deep(v):
    if isinstance(v, tuple) and v == UNDEF:
        return v
    if isinstance(v, (list, tuple)):
        return [_deep(x) for x in v]
    return norm(v)


def _out(fn):
    try:
        return ("ok", _deep(fn()))
    except Exception as e:
        return ("exc", type(e).__name__)


def _all_agree(ctx):
    exp = _out(lambda: ev(CUR, ctx))
    got = _out(lambda: CE(**ctx))
    if got != exp:
        return False
    for k, t in TPL.items():
        rec = Rec()

        def run():
            if k == "async":
                drive(t.render_async(rec=rec, **ctx))
            else:
                t.render(rec=rec, **ctx)
            return rec.log[0][1]
        if _out(run) != exp:
            return False
    return True


def expr_ok(a: int, b: int, c: int, p: bool, q: bool, xs: List[int]) -> bool:
    """
    pre: len(xs) <= 3
    post: _
    """
    return _all_agree(dict(a=a, b=b, c=c, p=p, q=q, xs=[x for x in xs]))


def concat_ok(a: int, si: int, ti: int) -> bool:
    """
    pre: -3 <= a <= 5 and 0 <= si <= 2 and 0 <= ti <= 2
    post: _
    """
    aa = pick(a + 3, 9) - 3
    s = ["p", "", "7"][pick(si, 3)]
    t = ["q", "p", "1"][pick(ti, 3)]
    with NoTracing():
        return _all_agree(dict(a=aa, s=s, t=t, ys=[10, 20, 30, 40]))


# ---------------------------------------------------------------- attribute / item order
class Probe:
    def __init__(self, has_attr, has_item):
        self._ha = has_attr
        self._hi = has_item

    def __getattr__(self, name):
        if name == "k" and self.__dict__["_ha"]:
            return "ATTR"
        raise AttributeError(name)

    def __getitem__(self, key):
        if key == "k" and self._hi:
            return "ITEM"
        raise KeyError(key)


GET_T = {}


def lookup_ok(ha: bool, hi: bool, envk: int) -> bool:
    """
    pre: 0 <= envk <= 3
    post: _
    """
    ek = ["default", "unopt", "sandbox", "async"][pick(envk, 4)]
    if not GET_T:
        for k, e in _envs().items():
            GET_T[k] = e.from_string("{{ rec('r', o.k, o['k'], o.zz, o['zz'], o.k is defined, (o['k']|default('D'))) }}")
    rec = Rec()
    o = Probe(ha, hi)
    if ek == "async":
        drive(GET_T[ek].render_async(rec=rec, o=o))
    else:
        GET_T[ek].render(rec=rec, o=o)
    got = rec.log[0][1:]
    dot = "ATTR" if ha else ("ITEM" if hi else UNDEF)
    sub = "ITEM" if hi else ("ATTR" if ha else UNDEF)
    return got == (dot, sub, UNDEF, UNDEF, dot != UNDEF, sub if sub != UNDEF else "D")


# ---------------------------------------------------------------- calls: positional, keyword, reserved-word keyword, * and ** arguments
KW_SRC = [
    "kw(a=1, b=2)", "kw(a=1, class=2)", "kw(class=1, a=2, for=3)", "kw(if=1, not=2)", "kw(1, 2, a=3, in=4)", "kw(a=1, **{'b': 2})", "kw(class=1, **{'b': 2})", "kw(a=1, class=2, **{'c': 3})",
    "kw(*[1, 2], a=3, import=4)", "kw(a=x, None=y, c=x + y)", "kw(obj=1, self=2, context=3)", "kw(x, *[y], lambda=1, z=2, **{'w': 3})",
    "x|kwf(a=1, class=2)", "x|kwf(2, in=3, b=4)", "x|kwf(else=1)|kwf(k=2, is=3)", "x is kwt(lo=1, not=2, hi=3)", "x is kwt(1, and=2)", "dict(id=x, class='btn', for=y)|dictsort",
    "[x]|map('kwf', a=1, class=2)|list", "[x]|select('kwt', lo=1, or=2)|list",
]
KW_T = {}


def _kw(*a, **k):
    return ("C", a, tuple(k.items()))


def _kwf(v, *a, **k):
    return ("F", v, a, tuple(k.items()))


def callkw_ok(i: int, envk: int, x: int, y: int) -> bool:
    """
    pre: 0 <= i < len(KW_SRC) and 0 <= envk <= 3
    post: _
    """
    k = pick(i, len(KW_SRC))
    ek = ["default", "unopt", "sandbox", "async"][pick(envk, 4)]
    src = KW_SRC[k]
    with NoTracing():
        env = _envs()[ek]
        if "kwf" not in env.filters:
            for e in _envs().values():
                e.filters["kwf"] = _kwf
                e.tests["kwt"] = lambda v, *a, **kk: ("lo" in kk or bool(a))
                e.globals["kw"] = _kw
        key = (ek, k)
        if key not in KW_T:
            KW_T[key] = env.from_string("{{ rec('r', " + src + ") }}")
    rec = Rec()
    if ek == "async":
        drive(KW_T[key].render_async(rec=rec, x=x, y=y))
    else:
        KW_T[key].render(rec=rec, x=x, y=y)
    got = rec.log[0][1]
    # reference: the argument tuples a Python call of the same shape delivers, written out per call shape below
    exp = KW_EXPECT[k](x, y)
    return _deep(got) == _deep(exp)


KW_EXPECT = [
    lambda x, y: ("C", (), (("a", 1), ("b", 2))),
    lambda x, y: ("C", (), (("a", 1), ("class", 2))),
    lambda x, y: ("C", (), (("class", 1), ("a", 2), ("for", 3))),
    lambda x, y: ("C", (), (("if", 1), ("not", 2))),
    lambda x, y: ("C", (1, 2), (("a", 3), ("in", 4))),
    lambda x, y: ("C", (), (("a", 1), ("b", 2))),
    lambda x, y: ("C", (), (("class", 1), ("b", 2))),
    lambda x, y: ("C", (), (("a", 1), ("class", 2), ("c", 3))),
    lambda x, y: ("C", (1, 2), (("a", 3), ("import", 4))),
    lambda x, y: ("C", (), (("a", x), ("None", y), ("c", x + y))),
    lambda x, y: ("C", (), (("obj", 1), ("self", 2), ("context", 3))),
    lambda x, y: ("C", (x, y), (("lambda", 1), ("z", 2), ("w", 3))),
    lambda x, y: ("F", x, (), (("a", 1), ("class", 2))),
    lambda x, y: ("F", x, (2,), (("in", 3), ("b", 4))),
    lambda x, y: ("F", ("F", x, (), (("else", 1),)), (), (("k", 2), ("is", 3))),
    lambda x, y: True,
    lambda x, y: True,
    lambda x, y: [("class", "btn"), ("for", y), ("id", x)],
    lambda x, y: [("F", x, (), (("a", 1), ("class", 2)))],
    lambda x, y: [x],
]


def _subst(t, env):
    if isinstance(t, tuple):
        if t and t[0] == "var" and t[1] in env:
            v = env[t[1]]
            if isinstance(v, bool) or not isinstance(v, int) or v >= 0:
                return ("const", v)
            return ("neg", ("const", -v))
        return tuple(_subst(x, env) for x in t)
    if isinstance(t, list):
        return [_subst(x, env) for x in t]
    return t


IVALS = [-2, 1, 3]


def inline_ok(ti: int, a: int, b: int, c: int, p: bool, q: bool) -> bool:
    """
    pre: 0 <= ti < NTREES() and 0 <= a <= 2 and 0 <= b <= 2 and 0 <= c <= 2
    post: _
    """
    k = P.get("lo", 0) + pick(ti, NTREES())
    env = dict(a=IVALS[pick(a, 3)], b=IVALS[pick(b, 3)], c=IVALS[pick(c, 3)], p=bool(p), q=bool(q))
    with NoTracing():
        tree = TREES[k]
        ctx = dict(env, xs=[env["a"], 1, env["c"]])
        exp = _out(lambda: ev(tree, ctx))
        inl = _subst(tree, env)           # every int/bool variable written as a literal: the optimizer folds what it can
        src = show(inl)
        for ek in ("default", "unopt", "sandbox"):
            e = ENVS[ek]
            got = _out(lambda: e.compile_expression(src, undefined_to_none=False)(xs=ctx["xs"]))
            if got != exp:
                return False
        return True


def NTREES():
    return P.get("n", len(TREES))


MK_ENV = None
MK_T = None


def concat_markup_ok(x: int, y: int, z: int, asyncm: bool) -> bool:
    """
    pre: 0 <= x <= 3 and 0 <= y <= 3 and 0 <= z <= 3
    post: _
    """
    global MK_ENV, MK_T
    from markupsafe import Markup, escape
    table = ["<a>", Markup("<b>"), 5, ""]
    vals = [table[pick(v, 4)] for v in (x, y, z)]
    am = bool(asyncm)
    with NoTracing():
        if MK_T is None:
            MK_T = {False: Environment(autoescape=True).from_string("{{ rec('r', x ~ y ~ z) }}|{{ x ~ y }}"),
                    True: Environment(autoescape=True, enable_async=True).from_string("{{ rec('r', x ~ y ~ z) }}|{{ x ~ y }}")}
        rec = Rec()
        ctx = dict(x=vals[0], y=vals[1], z=vals[2], rec=rec)
        out = drive(MK_T[True].render_async(**ctx)) if am else MK_T[False].render(**ctx)
        got = rec.log[0][1]
        if any(hasattr(v, "__html__") for v in vals):
            exp = Markup("").join(vals)  # safe operands verbatim, everything else escaped
            ok = isinstance(got, Markup) and got == exp
        else:
            exp = "".join(str(v) for v in vals)
            ok = got == exp
        # rendered text: x ~ y printed under autoescape never contains the raw plain operand
        exp2 = "".join(str(v) if hasattr(v, "__html__") else str(escape(v)) for v in vals[:2])
        return ok and out == "|" + exp2


def conditions(tier, seed):
    th = tier == "thorough"
    to = 120 if th else 25
    rnd = random.Random(seed)
    out = []
    idx = list(range(len(TREES)))
    npairs = len(pair_trees())
    if not th:
        # quick: every extra tree, and a seed-rotated half of the operator-pair trees
        idx = [i for i in idx if i >= npairs or (i + seed) % 2 == 0]
    for i in idx:
        out.append(Cond(f"expr[{show(TREES[i])}]", "expr_ok", mode="A", param={"tree": i}, timeout=to,
                        witnesses=[[7, 3, 2, True, False, [3, 9]], [0, 0, 0, False, False, []], [-5, 2, 3, False, True, [-5, 1, 0]]],
                        bounds="a, b, c any ints; p, q any bools; xs any int list of length <= 3; evaluated via compile_expression and rendered templates in default/unoptimized/sandboxed/async environments"))
    tn = 360 if th else 24
    for k, t in enumerate(triple_trees(seed, tn)):
        out.append(Cond(f"expr3[{show(t)}]", "expr_ok", mode="A", param={"triple": k, "tseed": seed, "tn": tn}, timeout=to,
                        witnesses=[[7, 3, 2, True, False, [3, 9]], [0, 0, 0, False, False, []], [-5, 2, 3, False, True, [-5, 1, 0]]],
                        bounds="seeded sample of three-operator trees (all bracketings, optional not / unary minus): a, b, c any ints; xs any int list of length <= 3"))
    for i in range(len(CTREES)):
        out.append(Cond(f"concat[{show(CTREES[i])}]", "concat_ok", mode="B", param={"tree": i, "concat": True}, timeout=to,
                        witnesses=[[2, 0, 0], [0, 1, 2]], bounds="a in -3..5, s and t from 3-entry string tables, ys = [10, 20, 30, 40]"))
    chunk = 10
    for lo in range(0, len(TREES), chunk):
        if not th and (lo // chunk + seed) % 2:
            continue
        out.append(Cond(f"inlined constants[trees {lo}..{min(lo + chunk, len(TREES)) - 1}]", "inline_ok", mode="B",
                        param={"tree": 0, "lo": lo, "n": min(chunk, len(TREES) - lo)}, timeout=to * 3,
                        witnesses=[[0, 0, 1, 2, True, False], [3, 2, 2, 0, False, True]],
                        bounds="the corpus trees with every int/bool variable written as a literal (a, b, c in {-2, 1, 3}, p, q bools): folded by the optimizer vs reference evaluator; default/unoptimized/sandboxed"))
    out.append(Cond("~ with safe and plain operands under autoescape", "concat_markup_ok", mode="B", param={}, timeout=to * 2,
                    witnesses=[[0, 1, 2, False], [1, 0, 3, True], [0, 0, 0, False]],
                    bounds="3 operands each from {plain '<a>', Markup('<b>'), 5, ''}, sync and async"))
    out.append(Cond("keyword arguments incl. reserved words in calls, filters and tests", "callkw_ok", mode="A", param={}, timeout=to * 2,
                    witnesses=[[1, 0, 5, 7], [9, 2, -1, 3], [13, 3, 0, 0], [17, 1, 2, 2], [11, 0, 4, 9]],
                    bounds=f"{len(KW_SRC)} call shapes mixing ordinary keywords, Python reserved words, names of internal parameters (obj, self, context), * and ** arguments; x, y any ints; 4 environments; the order of keyword arguments is compared too"))
    out.append(Cond("attribute-then-item / item-then-attribute / undefined", "lookup_ok", mode="A", param={}, timeout=to,
                    witnesses=[[True, True, 0], [False, True, 2], [False, False, 3], [True, False, 1]],
                    bounds="probe object with symbolic presence of attribute and item 'k'; 4 environments"))
    return out
