"""C06 — macro argument binding follows the documented calling rules.

Real macros are obtained by compiling macro definitions (natively, at setup) for
a family of signatures; the call shape (number of positional arguments, which
keywords are present) and all argument values are symbolic.  The macro body
reports what it received through a recording callable; the oracle is the
binding specification transcribed from the property statement.
"""
from typing import List

from jinja2 import Environment
from vfw.core import Cond, pick
from vfw.support import NoTracing, Rec, drive

FUNCTIONS = [
    "jinja2.runtime.Macro.__call__/_invoke/_async_invoke",
    "jinja2.compiler.CodeGenerator.macro_body/macro_def/visit_Macro/visit_CallBlock/signature (generated code)",
    "jinja2.parser.Parser.parse_signature/parse_call_args",
    "jinja2.environment.Template.make_module / TemplateModule attribute access",
]
OUTSIDE = ["more than 3 declared parameters", "more than 5 positional arguments", "argument values other than ints",
           "keyword names outside {declared parameters, 'zz', 'caller'}"]
ASSUMPTIONS = ["macro definitions and call templates are compiled natively; binding and rendering run symbolically"]

NAMES = ["a", "b", "c"]
ENV = Environment()
AENV = Environment(enable_async=True)
P = {}
MOD = None
T_STAR = None
T_CALL = None
REC = None
SIG = None


def _src(sig):
    params = []
    for i in range(sig["np"]):
        d = sig["defaults"][i]
        n = NAMES[i]
        if d == "none":
            params.append(n)
        elif d == "const":
            params.append(f"{n}={700 + i}")
        elif d == "prev":
            params.append(f"{n}={NAMES[i-1]}")
        elif d == "outer":
            params.append(f"{n}=outer")
        elif d == "self":
            params.append(f"{n}={n}")   # a default naming its own parameter: the parameter shadows, stays undefined
    body = ["'m'"] + NAMES[: sig["np"]]
    if sig.get("ind"):
        # the special names occur only in the call expression of a call block and in a nested macro's default:
        # both are evaluated in this macro's scope, so the macro accepts the extra arguments all the same
        spec3 = ["varargs" if sig["v"] else "'-'", "kwargs" if sig["k"] else "'-'", "(caller is defined)" if sig["c"] else "'-'"]
        pre = "{% macro pass3(v, k, c) %}{{ caller(v, k, c) }}{% endmacro %}"
        if sig.get("ind") == 2:
            inner = "{%% macro inner(vv=%s, kk=%s, cc=%s) %%}{{ rec(%s, vv, kk, cc) }}{%% endmacro %%}{{ inner() }}" % (spec3[0], spec3[1], spec3[2], ", ".join(body))
            return "{%% macro m(%s) %%}%s{%% endmacro %%}" % (", ".join(params), inner)
        inner = "{%% call(vv, kk, cc) pass3(%s) %%}{{ rec(%s, vv, kk, cc) }}{%% endcall %%}" % (", ".join(spec3), ", ".join(body))
        return pre + "{%% macro m(%s) %%}%s{%% endmacro %%}" % (", ".join(params), inner)
    body.append("varargs" if sig["v"] else "'-'")
    body.append("kwargs" if sig["k"] else "'-'")
    body.append("(caller is defined)" if sig["c"] else "'-'")
    return "{%% macro m(%s) %%}{{ rec(%s) }}{%% endmacro %%}" % (", ".join(params), ", ".join(body))


def setup(param):
    global MOD, T_STAR, T_CALL, REC, SIG, P
    P = dict(param or {})
    SIG = P.get("sig") or {"np": 2, "defaults": ["none", "const"], "v": False, "k": False, "c": False}
    env = AENV if P.get("asyncm") else ENV
    src = _src(SIG)
    REC = Rec()
    T_STAR = env.from_string(src + "{% set outer = o2 %}{{ m(*pos, **kw) }}")
    T_CALL = env.from_string(src + "{% set outer = o2 %}{% call m(*pos, **kw) %}x{% endcall %}")
    t = env.from_string(src)
    if P.get("asyncm"):
        MOD = drive(t.make_module_async({"rec": REC, "outer": 41}))
    else:
        MOD = t.make_module({"rec": REC, "outer": 41})


class TE:
    pass


def spec(sig, pos, kw, outer):
    """Binding per the property statement. Returns the expected rec() tuple or TE."""
    params = NAMES[: sig["np"]]
    bound = {}
    rest = dict(kw)
    for i, p in enumerate(params):
        if i < len(pos):
            bound[p] = pos[i]
        elif p in rest:
            bound[p] = rest.pop(p)
        else:
            d = sig["defaults"][i]
            if d in ("none", "self"):
                bound[p] = ("<undefined>",)
            elif d == "const":
                bound[p] = 700 + i
            elif d == "prev":
                bound[p] = bound[params[i - 1]]
            else:
                bound[p] = outer
    surplus = tuple(pos[len(params):])
    caller_defined = False
    if sig["c"]:
        caller_defined = rest.pop("caller", None) is not None
    if rest and not sig["k"]:
        return TE
    if surplus and not sig["v"]:
        return TE
    return ("m",) + tuple(bound[p] for p in params) + (
        surplus if sig["v"] else "-", rest if sig["k"] else "-", caller_defined if sig["c"] else "-")


def _kwnames():
    return NAMES[: SIG["np"]] + ["zz", "caller"]


def _mk(npos, kwp, vals):
    n = pick(npos, 6)
    pos = [vals[i] for i in range(n)]
    kw = {}
    names = _kwnames()
    none_idx = P.get("none_idx", -1)
    for i, nm in enumerate(names):
        if kwp[i]:
            kw[nm] = vals[5 + i] if nm != "caller" else _caller
            if nm != "caller" and i == none_idx:
                kw[nm] = None      # None is an ordinary value: a keyword passing it fills the parameter
    return pos, kw


def _caller(*a, **k):
    return "C"


def bind_ok(npos: int, kwp: List[bool], vals: List[int]) -> bool:
    """
    pre: 0 <= npos <= 5 and len(kwp) == SIG["np"] + 2 and len(vals) == 10
    post: _
    """
    via = P.get("via", "python")
    pos, kw = _mk(npos, kwp, vals)
    if via == "callblock" and "caller" in kw:
        # a call block supplies `caller` itself; an explicit one as well is a Python-level
        # duplicate-keyword TypeError, not macro binding
        del kw["caller"]
    del REC.log[:]
    exp_kw = dict(kw)
    outer = 41
    try:
        if via == "python":
            r = MOD.m(*pos, **kw)
            if P.get("asyncm"):
                drive(r)
        else:
            outer = vals[9]
            t = T_STAR if via == "star" else T_CALL
            if via == "callblock":
                exp_kw["caller"] = _caller
            if P.get("asyncm"):
                drive(t.render_async(pos=pos, kw=kw, rec=REC, o2=outer))
            else:
                t.render(pos=pos, kw=kw, rec=REC, o2=outer)
        got = REC.log[0] if len(REC.log) == 1 else ("log", list(REC.log))
    except TypeError:
        got = TE
    exp = spec(SIG, pos, exp_kw, outer)
    if exp is TE or got is TE:
        return exp is got
    if via == "callblock" and SIG["k"] and not SIG["c"]:
        # the generated caller macro object lands in kwargs; compare it by presence only
        g = list(got)
        if isinstance(g[-2], dict) and "caller" in g[-2]:
            g[-2] = dict(g[-2], caller=_caller)
        got = tuple(g)
    return got == exp


SYN_ENV = Environment()
UNKNOWN = ["zz", "obj", "self", "context", "args", "kwargs", "environment", "name", "__obj", "eval_ctx"]


def syntax_ok(sigi: int, npos: int, kwsel: int) -> bool:
    """
    pre: 0 <= sigi < NSIG() and 0 <= npos <= 4 and 0 <= kwsel < 32
    post: _
    """
    si = P.get("lo", 0) + pick(sigi, NSIG())
    n = pick(npos, 5)
    ks = pick(kwsel, 32)
    with NoTracing():
        return _syntax_native(si, n, ks)


def NSIG():
    return P.get("n", len(SIGS))


def _syntax_native(si, n, ks):
    """Explicit call syntax m(p0, p1, b=k1, zz=k2), in templates and call blocks, native."""
    sig = SIGS[si]
    # "class" is a Python reserved word: the compiler passes such keywords through **{...}
    # the keyword that names no parameter rotates over names the call path uses internally
    names = NAMES[: sig["np"]] + [UNKNOWN[P.get("unk", 0) % len(UNKNOWN)]]
    if len(names) < 4:
        names = names + ["class"]
    kwn = [nm for i, nm in enumerate(names[:4]) if (ks >> i) & 1]
    if (ks >> 4) & 1 and "class" not in kwn:
        kwn.append("class")
    args = [str(100 + i) for i in range(n)] + [f"{nm}={200 + i}" for i, nm in enumerate(kwn)]
    pos = [100 + i for i in range(n)]
    kw = {nm: 200 + i for i, nm in enumerate(kwn)}
    ok = True
    for form in ("expr", "call"):
        if form == "expr":
            src = _src(sig) + "{% set outer = 41 %}{{ m(" + ", ".join(args) + ") }}"
            ekw = kw
        else:
            src = _src(sig) + "{% set outer = 41 %}{% call m(" + ", ".join(args) + ") %}x{% endcall %}"
            ekw = dict(kw, caller=_caller)
        rec = Rec()
        try:
            SYN_ENV.from_string(src).render(rec=rec)
            got = rec.log[0] if len(rec.log) == 1 else ("log", list(rec.log))
        except TypeError:
            got = TE
        exp = spec(sig, pos, ekw, 41)
        if exp is TE or got is TE:
            ok = ok and (exp is got)
            continue
        if form == "call" and sig["k"] and not sig["c"]:
            g = list(got)
            if isinstance(g[-2], dict) and "caller" in g[-2]:
                g[-2] = dict(g[-2], caller=_caller)
            got = tuple(g)
        ok = ok and got == exp
    return ok


def _sigs():
    out = []
    shapes = [
        (0, []), (1, ["none"]), (1, ["const"]), (1, ["outer"]),
        (2, ["none", "none"]), (2, ["none", "const"]), (2, ["none", "prev"]), (2, ["const", "prev"]), (2, ["outer", "const"]),
        (1, ["self"]), (2, ["none", "self"]), (2, ["self", "prev"]),
        (3, ["none", "none", "none"]), (3, ["none", "none", "const"]), (3, ["none", "const", "prev"]), (3, ["const", "prev", "outer"]),
    ]
    for np_, d in shapes:
        for bits in range(8):
            out.append({"np": np_, "defaults": d, "v": bool(bits & 1), "k": bool(bits & 2), "c": bool(bits & 4)})
    # the same special names used only indirectly (call-block expression / nested macro default)
    for np_, d in [(0, []), (1, ["none"]), (2, ["none", "const"])]:
        for bits in range(1, 8):
            for ind in (1, 2):
                out.append({"np": np_, "defaults": d, "v": bool(bits & 1), "k": bool(bits & 2), "c": bool(bits & 4), "ind": ind})
    return out


SIGS = _sigs()


def conditions(tier, seed):
    thorough = tier == "thorough"
    out = []
    import random
    rnd = random.Random(seed)
    to = 240 if thorough else 40
    for idx, sig in enumerate(SIGS):
        if not thorough and (idx + seed) % 2:
            continue  # quick: a seed-rotated half of the signatures
        name = "m(%s)%s%s%s" % (",".join(f"{n}:{d}" for n, d in zip(NAMES, sig["defaults"])),
                                "+varargs" if sig["v"] else "", "+kwargs" if sig["k"] else "", ("+caller" if sig["c"] else "") + ({1: " [via call expr]", 2: " [via nested default]"}.get(sig.get("ind"), "")))
        vias = ["python", "star", "callblock"]
        if not thorough:
            # quick: every signature from Python; template routes on a seed-rotated third of them
            vias = ["python"] + [v for j, v in enumerate(["star", "callblock"]) if (idx + j + seed) % 3 == 0]
        for via in vias:
            for asyncm in ((False, True) if (thorough or (idx + seed) % 5 == 0) else (False,)):
                out.append(Cond(f"bind[{name},{via}{',async' if asyncm else ''}]", "bind_ok", mode="A",
                                param={"sig": sig, "via": via, "asyncm": asyncm, "none_idx": (idx % 4) - 1}, timeout=to,
                                witnesses=[[2, [False] * (sig["np"] + 2), list(range(10))],
                                           [0, [True] * (sig["np"] + 1) + [False], list(range(10, 20))],
                                           [5, [False] * (sig["np"]) + [True, True], list(range(10))]],
                                bounds="0..5 positional args, any subset of keywords {params, zz, caller}, any int values (one keyword, rotating with the signature, carries None instead); call via " + via))
    chunk = 4
    for lo in range(0, len(SIGS), chunk):
      if thorough or (lo // chunk + seed) % 2 == 0:
        out.append(Cond(f"syntax[explicit call shapes, signatures {lo}..{lo+chunk-1}]", "syntax_ok", mode="B",
                    param={"lo": lo, "n": min(chunk, len(SIGS) - lo), "unk": (lo // chunk) // (1 if thorough else 2) + seed}, timeout=(300 if thorough else 60),
                    witnesses=[[1, 1, 3], [3, 4, 16]],
                    bounds=f"{chunk} of {len(SIGS)} signatures x 0..4 positional literals x subsets of keyword literals, as {{{{ m(...) }}}} and {{% call m(...) %}}; compiled and run natively per path"))
    return out
