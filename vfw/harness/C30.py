"""C30 — template compilation is deterministic.

The observed function is ``Environment.compile(source, name, raw=True)`` (lexer, parser, optimizer, ``idtracking`` and
``CodeGenerator``); the generated Python source must be a function of (source, environment configuration) only.

(a) ``order_ok`` — E4a + mode B: for the duration of one compile the name ``set`` in the module globals of
    ``jinja2.compiler`` and ``jinja2.idtracking`` is bound to ``OSet``, a ``set`` subclass whose iteration order is a
    permutation (of the sorted elements) chosen by a selector: sorted, reversed, the k-th lexicographic permutation, salted
    shuffles; every order must give the source obtained with the builtin ``set``.  "Any iteration order" over-approximates
    "any hash seed", therefore a counterexample is *confirmed differently*: when the framework replays it (fresh interpreter,
    ``python -m vfw.replay``) the same function compiles that template in subprocesses with PYTHONHASHSEED 0..N and reports a
    violation only if two seeds really produce different source; otherwise the replay holds and the framework lists the
    counterexample as spurious/inconclusive — never as an alarm.
(b) ``repeat_ok`` — mode B: (the whole corpus is compiled in an environment,) one or two disturbing templates chosen by selectors
    are compiled — or compiled to code and rendered — in the same environment / a fresh one / environments with another
    configuration, then the whole corpus is compiled again: every source equals the one obtained before — no state leaks
    between compilations.
(c) ``hashseed_ok`` — native differential: ``setup`` compiles the whole corpus in subprocesses with PYTHONHASHSEED in a small
    set (one subprocess per seed); for every template (selector) all seeds and the in-process result give identical source.
"""
import json
import math
import os
import random
import subprocess
import sys
import zlib

import jinja2
from jinja2 import DictLoader, Environment
from vfw.core import Cond, pick
from vfw.support import NoTracing

FUNCTIONS = [
    "jinja2.environment.Environment.compile(raw=True) / _parse / _generate",
    "jinja2.compiler.generate / CodeGenerator (pull_dependencies, enter_frame, leave_frame, macro_body, dump_local_context, "
    "pop_assign_tracking, push_parameter_definitions, visit_Template/For/If/Macro/CallBlock/Include/Import/FromImport/Block/With/Assign)",
    "jinja2.compiler.DependencyFinderVisitor / UndeclaredNameVisitor / find_undeclared",
    "jinja2.idtracking.Symbols (store, branch_update, dump_stores, dump_param_targets, copy) / FrameSymbolVisitor / RootVisitor",
]
OUTSIDE = [
    "(a) the injection reaches every set created through the *name* `set` in jinja2.compiler and jinja2.idtracking (all 10 creation "
    "sites on the pinned tree: DependencyFinderVisitor.filters/tests, UndeclaredNameVisitor.names/undeclared, macro_body.skip_special_params, "
    "_assign_stack entries, visit_Assign seen_refs, Symbols.stores, branch_update.stores, dump_param_targets) and everything derived "
    "from them by copy/union/difference/... (overridden to stay in the subclass).  It cannot reach: set displays `{a, b}` and set "
    "comprehensions (compiler.has_safe_repr uses two displays, for membership tests only), sets created in other modules "
    "(nodes, parser, lexer, optimizer, runtime, utils, extensions) or by C code, frozenset (not used by the two modules), and code that "
    "would newly introduce such a construct — those are covered only by (c)",
    "(a) only orders that are a function of the set's contents (as hash orders are); orders also depending on insertion history are not modelled",
    "(c) hash seeds outside the stated set; other sources of nondeterminism (id()/address based ordering, time, environment variables)",
    "templates outside the generated corpus (skeleton list below x 2 name assignments x sync/async environment)",
    "extensions other than the built-in tags, custom delimiters",
]
ASSUMPTIONS = [
    "PYTHONHASHSEED fixes str hashing, the only hash randomisation relevant to sets of names",
    "for (a) the source obtained in-process with the builtin set is the reference",
]

# ------------------------------------------------------------------------------------------------ corpus
POOLS = [
    ["alpha", "b", "zeta", "k9", "_priv", "item", "Q", "mm", "x1"],
    ["mm", "_priv", "x1", "Q", "alpha", "zeta", "k9", "b", "item"],
]
SKELETONS = [
    # several top-level sets, then include / import with context (derive_context -> dump_local_context)
    "{% set $0 = 1 %}{% set $1 = 2 %}{% set $2 = 3 %}{% set $4 = 4 %}{% include 'inc' %}{{ $0 }}{{ $3 }}",
    "{% set $0 = 1 %}{% set $1 = 2 %}{% for $5 in seq %}{% set $3 = $5 %}{% set $2 = 2 %}{% include 'inc' %}{% from 'm' import f1, f2 with context %}{{ f1($3) }}{% endfor %}",
    "{% set $0 = 1 %}{% with $1 = 1, $2 = 2, $3 = 3 %}{% include 'inc' %}{% from 'm' import f1, f2 as $6 with context %}{{ f1() }}{{ $6 }}{% endwith %}{% set $7 = 2 %}",
    "{% set $0 = 1 %}{% set $2 = 2 %}{% macro m($1, $3=3) %}{% set $6 = 1 %}{% include 'inc' %}{% import 'mod' as $7 with context %}{{ $7.f($1) }}{{ $0 }}{% endmacro %}{{ m(1) }}",
    "{% from 'm' import $2, $0, $5 as $3, $6 as $4 with context %}{{ $2() }}{{ $0 }}{% import 'a' as $6 %}{% import 'b' as $7 with context %}{% from 'c' import $8, $5 %}{{ $6.f($8) }}",
    "{% set $0, $1 = 1, 2 %}{% for $5 in seq %}{% with $2 = $5 %}{% macro inner($3) %}{% include 'inc' %}{% set $6 = $3 %}{% import 'mod' as $7 with context %}{% endmacro %}{{ inner($2) }}{% endwith %}{% endfor %}",
    # macros and their special names
    "{% macro m(a) %}{{ caller() }}{{ kwargs }}{{ varargs }}{{ a }}{% endmacro %}{% call m(1, 2, x=3) %}c{{ $0 }}{% endcall %}",
    "{% macro m(a) %}{% set kwargs = 1 %}{% set varargs = 2 %}{% set caller = 3 %}{{ kwargs }}{{ varargs }}{{ caller }}{% endmacro %}{{ m(1) }}",
    "{% macro m(varargs, kwargs, caller=none) %}{{ varargs }}{{ kwargs }}{{ caller }}{% endmacro %}{{ m(1, 2) }}",
    "{% macro m() %}{{ kwargs }}{% set varargs = 1 %}{{ varargs }}{% for caller in [1] %}{{ caller }}{% endfor %}{% endmacro %}{{ m(x=1) }}",
    "{% macro m($0, $1=1, $2=$0) %}{% if $0 %}{{ varargs }}{% else %}{{ caller($1) }}{% endif %}{% set $3 = kwargs %}{{ $3 }}{% endmacro %}"
    "{% call(v) m(1) %}{{ v }}{% set $4 = v %}{% endcall %}",
    "{% macro outer($0) %}{% macro inner($1) %}{{ $0 }}{{ $1 }}{{ kwargs }}{% endmacro %}{{ inner($0, k=1) }}{{ varargs }}{% endmacro %}{{ outer(1, 2) }}",
    "{% macro m(caller=1) %}{{ caller }}{% endmacro %}{% macro n(kwargs, varargs) %}{% set caller = kwargs %}{{ caller }}{{ varargs }}{% endmacro %}",
    # filters / tests dependency pulls
    "{{ $0|upper|lower|trim|default($1)|replace('a', $2)|join(',') }}{% if $0 is odd %}{{ $1|abs }}{% elif $0 is even or $1 is defined %}{{ $2|title }}{% endif %}"
    "{{ 1 if $3 is none else ($3|int) }}{{ xs|select('odd')|map('string')|list }}",
    "{% filter upper|trim %}{{ $0|e }}{% endfilter %}{% for $5 in xs|sort|unique if $5 is divisibleby 3 %}{{ $5|round|string|center(9) }}{% else %}{{ xs|length }}{% endfor %}"
    "{% block b %}{{ $1|capitalize|wordcount }}{% if $1 is string and $1 is not mapping %}{{ $1|first }}{% endif %}{% endblock %}",
    "{% macro m(x) %}{{ x|float|abs|int }}{{ x is number }}{{ x is sameas none }}{% endmacro %}{{ $0|batch(2)|list|tojson }}{{ $1 is lt 3 }}{{ $2 is in [1] }}{{ $3|xmlattr }}",
    # if / elif / else assigning different variable sets
    "{% if c1 %}{% set $0 = 1 %}{% set $1 = 2 %}{% set $2 = 3 %}{% elif c2 %}{% set $2 = 1 %}{% set $3 = 2 %}{% set $4 = 3 %}{% else %}{% set $6 = 1 %}{% set $7 = 2 %}{% endif %}"
    "{{ $0 }}{{ $1 }}{{ $2 }}{{ $3 }}{{ $4 }}{{ $6 }}{{ $7 }}{% include 'inc' %}",
    "{% set $2 = 0 %}{% for $5 in seq %}{% if $5 %}{% set $0 = 1 %}{% set $1 = 2 %}{% set $2 = 3 %}{% elif c2 %}{% set $3 = 2 %}{% set $8 = 3 %}{% else %}{% set $6, $7 = 1, 2 %}{% endif %}"
    "{{ $0 }}{{ $1 }}{{ $2 }}{{ $3 }}{{ $6 }}{% include 'inc' %}{% endfor %}",
    "{% macro m($5) %}{% if $5 %}{% set $0 = 1 %}{% set $1 = 2 %}{% if c %}{% set $2 = 3 %}{% set $6 = 1 %}{% else %}{% set $7 = 1 %}{% endif %}{% else %}{% set $3 = 2 %}{% set $4 = 3 %}{% endif %}"
    "{{ $0 }}{{ $1 }}{{ $2 }}{{ $3 }}{{ $4 }}{{ $6 }}{{ $7 }}{% from 'm' import g with context %}{% endmacro %}",
    "{% block body %}{% if c1 %}{% set $0 = 1 %}{% set $1 = 2 %}{% elif c2 %}{% set $1 = 1 %}{% set $2 = 2 %}{% elif c3 %}{% set $3, $4 = 1, 2 %}{% endif %}{{ $0 }}{{ $1 }}{{ $2 }}{{ $3 }}{% include 'inc' %}{% endblock %}",
    "{{ $0 }}{{ $1 }}{% if c1 %}{{ $2 }}{% set $0 = 1 %}{% set $2 = 2 %}{% set $3 = 2 %}{% else %}{% set $1 = 1 %}{% set $3 = 1 %}{% set $4 = $2 %}{% endif %}{{ $0 }}{{ $1 }}{{ $2 }}{{ $3 }}{{ $4 }}",
    # nested loops, loop variables, recursive loops
    "{% for $0 in xs %}{% for $1 in $0 %}{% set $2 = $1 %}{% set $3 = $0 %}{% for $5 in $1 recursive %}{{ loop($5) }}{% set $6 = loop.index %}{% endfor %}{{ loop.index }}{% else %}{% set $7 = 1 %}{% endfor %}{% endfor %}",
    "{% for $0, ($1, $2) in xs %}{% set $3, $4 = $0, $1 %}{% set $6 = $2 %}{% for $7, $8 in $3 if $7 %}{% set $0 = $8 %}{% set $5 = 1 %}{{ loop.previtem }}{% endfor %}{{ $3 }}{{ $4 }}{{ $6 }}{% endfor %}",
    "{% for $5 in xs if $5 is odd %}{% set $0 = 1 %}{% set $1 = 1 %}{% set $2 = 1 %}{% if loop.changed($5) %}{% set $3 = 1 %}{% set $4 = 2 %}{% endif %}{% else %}{% set $6 = 1 %}{% set $7 = 2 %}{% endfor %}{{ $0 }}",
    # blocks
    "{% extends 'base' %}{% set $0 = 1 %}{% block a scoped %}{% set $1 = 1 %}{% set $2 = 2 %}{{ super() }}{% include 'inc' %}{% endblock %}{% block z %}{% for i in x %}{% set $3 = i %}{% set $6 = 2 %}{% endfor %}{% endblock %}",
    "{% block a %}{% set $0 = 1 %}{% set $1 = 1 %}{% set $2 = 1 %}{% block b scoped required %}{% endblock %}{{ self.a() }}{% endblock %}{% set $3 = 1 %}{% set $4 = 2 %}{% set $6 = 3 %}{% block c %}{{ $3 }}{{ $6 }}{% endblock %}",
    "{% for $5 in seq %}{% block row scoped %}{% set $0 = $5 %}{% set $1 = 1 %}{% set $2 = 2 %}{% import 'm' as $3 with context %}{{ $5 }}{% endblock %}{% endfor %}",
    # namespaces
    "{% set ns = namespace($0=1, $1=2) %}{% set ns.$2 = 3 %}{% set ns.$3 = ns.$0 %}{% for i in x %}{% set ns.$1 = i %}{% set $6 = ns %}{% set $7 = 1 %}{% endfor %}{{ ns.$2 }}",
    # tuple unpacking, with, set blocks
    "{% set $0, $1, ($2, $3) = t %}{% for $6, ($7, $8) in xs %}{% set $4, $5 = $6, $7 %}{% endfor %}{% with $0 = 1, $1 = 2 %}{{ $0 }}{% include 'inc' %}{% endwith %}",
    "{% set $0 %}x{% endset %}{% set $1 | upper %}y{{ $0 }}{% endset %}{% set $2 = $0 ~ $1 %}{% set $4 = 1 %}{% with %}{% set $3 = 1 %}{% set $6 = 2 %}{% include 'inc' ignore missing with context %}{% endwith %}",
    "{% set $0 = 1 %}{% set $1 = 2 %}{% set $2 = 3 %}{% set $3 = 4 %}{% set $4 = 5 %}{% set $5 = 6 %}{% set $6 = 7 %}{% set $7 = 8 %}{% set $8 = 9 %}{% include ['a', 'b'] without context %}{% include 'c' %}",
    "{% autoescape c %}{% set $0 = 1 %}{% set $1 = 2 %}{{ $2 }}{% call(a, b) $3(1) %}{% set $6 = a %}{% set $7 = b %}{{ $0 }}{% endcall %}{% endautoescape %}{% set $4 = 2 %}{% set $8 = 3 %}{% include 'inc' %}",
    # several namespaces assigned in one tuple target (one guard per namespace is generated)
    "{% set $0 = namespace() %}{% set $1 = namespace() %}{% set $2 = namespace() %}{% set $3 = namespace() %}{% set $4 = namespace() %}"
    "{% set $0.a, $1.b, $2.c, $3.d, $4.e, $0.f = 1, 2, 3, 4, 5, 6 %}{% set $3.x, $2.y, $1.z = 1, 2, 3 %}{{ $0.a }}{% set $4.blk %}v{% endset %}",
    # constant input to filters / tests whose result is not plain data (generators, views, iterators)
    "{{ [1, 2, 3]|batch(2) }}{{ [1, 2]|unique }}{{ [3, 1]|select('odd') }}{{ 'ab'|map('upper') }}{{ {'a': 1}|items }}{{ [1, 2]|reverse }}{{ (1, 2)|slice(2) }}"
    "{{ [1, 2]|map('string')|join($0) }}{{ {'b': 1}|dictsort }}{{ [[1]]|sum(start=[]) }}{{ 'x'|list|groupby(0) }}{{ range(3)|reject('odd') }}{{ cycler(1, 2) is defined }}",
    # translation blocks with several free and declared variables (extension-generated nodes)
    "{% trans %}{{ $0 }} {{ $1 }} {{ $2 }} {{ $3 }} {{ $4 }}{% endtrans %}{% trans $5=$0, $6=1 %}{{ $5 }} {{ $7 }} {{ $6 }} {{ $8 }}{% pluralize $6 %}{{ $8 }} {{ $7 }} {{ $2 }}{% endtrans %}"
    "{% trans trimmed count=$1|length %} {{ count }} {{ $3 }} {{ $0 }} {% pluralize %} {{ $4 }} {{ $0 }} {{ count }} {% endtrans %}{{ _('x') }}{{ ngettext('a', 'b', $2) }}",
    "{% for $5 in seq %}{% if $5 %}{% continue %}{% endif %}{% do $0.append($5) %}{% trans $1=$5 %}{{ $1 }} {{ $2 }} {{ $3 }}{% endtrans %}{% break %}{% endfor %}{% debug %}",
]
CONFIGS = [dict(), dict(enable_async=True), dict(trim_blocks=True, autoescape=True, optimized=False)]
CORPUS = []     # (source, config index)
for _sk in SKELETONS:
    for _pi, _pool in enumerate(POOLS):
        _src = _sk
        for _i in range(len(_pool) - 1, -1, -1):
            _src = _src.replace("$%d" % _i, _pool[_i])
        CORPUS.append(_src)
NT = len(CORPUS)
NC = len(CONFIGS)

SUPPORT = {
    "inc": "[{{ alpha }}{{ zeta }}]", "m": "{% macro f1(x=0) %}f1{% endmacro %}{% macro f2() %}f2{% endmacro %}{% macro g() %}{% endmacro %}",
    "mod": "{% macro f(x) %}{{ x }}{% endmacro %}", "base": "{% block a %}A{% endblock %}{% block z %}Z{% endblock %}",
}

P = {}
_BASE = {}
SEED_SOURCES = {}       # seed -> list (template index x config) of sources, filled by setup for (c)
IN_REPLAY = getattr(getattr(sys.modules.get("__main__"), "__spec__", None), "name", "") == "vfw.replay"


EXTENSIONS = ["jinja2.ext.i18n", "jinja2.ext.do", "jinja2.ext.loopcontrols", "jinja2.ext.debug"]


def make_env(cfg):
    env = Environment(loader=DictLoader(SUPPORT), extensions=EXTENSIONS, **CONFIGS[cfg])
    env.install_null_translations(newstyle=bool(cfg % 2))
    return env


def compile_raw(env, t):
    return env.compile(CORPUS[t], "t%d" % t, "t%d.html" % t, raw=True)


def baseline(t, cfg):
    if (t, cfg) not in _BASE:
        _BASE[t, cfg] = compile_raw(make_env(cfg), t)
    return _BASE[t, cfg]


# ------------------------------------------------------------------------------------------------ (a) order injection
_ORDER = [("builtin", 0)]
_ITERATIONS = [0]


def _kth_permutation(items, k):
    items = list(items)
    n = len(items)
    k %= math.factorial(min(n, 12))
    out = []
    # permute the first elements most: choose digits from the left
    for i in range(n, 0, -1):
        f = math.factorial(i - 1) if i - 1 <= 12 else None
        if f is None or f > k:
            idx = 0
        else:
            idx, k = divmod(k, f)
        out.append(items.pop(idx))
    return out


def permute(items):
    """The iteration order of a set with these elements under the current order mode (a function of the contents only)."""
    kind, k = _ORDER[0]
    items = sorted(items, key=repr)
    if kind == "sorted":
        return items
    if kind == "reversed":
        return items[::-1]
    if kind == "perm":
        # k-th permutation, counted once from the front and once from the back so that both ends of larger sets move
        return _kth_permutation(items, k) if k % 2 else _kth_permutation(items[::-1], k // 2 + 1)
    if kind == "shuffle":
        rnd = random.Random(k * 1000003 + zlib.crc32(repr(items).encode()))
        rnd.shuffle(items)
        return items
    raise AssertionError(kind)


def _wrap(name):
    base = getattr(set, name)

    def method(self, *a):
        r = base(self, *a)
        return OSet(r) if type(r) is set else r

    method.__name__ = name
    return method


class OSet(set):
    """set whose iteration order is chosen by the harness; results of set algebra stay in the class."""

    __slots__ = ()

    def __iter__(self):
        _ITERATIONS[0] += 1
        if _ORDER[0][0] == "builtin":
            return set.__iter__(self)
        return iter(permute(list(set.__iter__(self))))

    def pop(self):
        for x in self:
            self.discard(x)
            return x
        raise KeyError("pop from an empty set")

    def __repr__(self):
        return "OSet(%r)" % (list(self),)


for _n in ("copy", "union", "intersection", "difference", "symmetric_difference", "__or__", "__and__", "__sub__", "__xor__",
           "__ror__", "__rand__", "__rsub__", "__rxor__"):
    setattr(OSet, _n, _wrap(_n))

ORDERS_QUICK = [("sorted", 0), ("reversed", 0)] + [("perm", k) for k in range(1, 11)] + [("shuffle", s) for s in range(4)]
ORDERS_THOROUGH = [("sorted", 0), ("reversed", 0)] + [("perm", k) for k in range(1, 49)] + [("shuffle", s) for s in range(14)]


def ORDERS():
    return ORDERS_THOROUGH if P.get("thorough") else ORDERS_QUICK


class injected:
    """Bind the name `set` in the globals of jinja2.compiler and jinja2.idtracking to OSet for the duration of a compile."""

    def __init__(self, order):
        self.order = order

    def __enter__(self):
        import jinja2.compiler
        import jinja2.idtracking

        self.mods = (jinja2.compiler, jinja2.idtracking)
        self.saved = [m.__dict__.get("set", self) for m in self.mods]
        for m in self.mods:
            m.__dict__["set"] = OSet
        _ORDER[0] = self.order
        _ITERATIONS[0] = 0

    def __exit__(self, *exc):
        _ORDER[0] = ("builtin", 0)
        for m, old in zip(self.mods, self.saved):
            if old is self:
                m.__dict__.pop("set", None)
            else:
                m.__dict__["set"] = old
        return False


def seeds_differ(t, cfg, seeds):
    """Native confirmation: compile CORPUS[t] under the given hash seeds in subprocesses; True iff two sources differ."""
    srcs = run_seeds(seeds, only=t, jobs=8)
    got = {json.dumps(srcs[s][cfg]) for s in srcs}
    return len(got) > 1


def order_ok(t: int, cfg: int, order: int) -> bool:
    """
    pre: T0() <= t < T1() and 0 <= cfg < NC and 0 <= order < len(ORDERS())
    post: _
    """
    lo = T0()
    t = lo + pick(t - lo, T1() - lo)
    cfg = pick(cfg, NC)
    order = pick(order, len(ORDERS()))
    with NoTracing():
        if IN_REPLAY:
            # a counterexample of the order injection is a violation only if two hash seeds really disagree
            return not seeds_differ(t, cfg, range(P.get("replay_seeds", 64)))
        ref = baseline(t, cfg)
        env = make_env(cfg)
        with injected(ORDERS()[order]):
            got = compile_raw(env, t)
            reached = _ITERATIONS[0]
        if P.get("need_iterations") and reached == 0:
            return False        # vacuity guard: the injected class was never iterated
        return got == ref


# ------------------------------------------------------------------------------------------------ (b) repeated compilation
DISTURB = ["same", "rendered", "fresh", "other_config"]
RENDER_CTX = dict(seq=[1, 2], xs=[], x=[1], t=(1, 2, (3, 4)), c1=True)


def repeat_ok(a: int, b: int, how: int, cfg: int) -> bool:
    """
    pre: T0() <= a < T1() and 0 <= b < NB() and 0 <= how < len(DISTURB) and 0 <= cfg < NCFG()
    post: _
    """
    lo = T0()
    a = lo + pick(a - lo, T1() - lo)
    b = pick(b, NB())
    how = pick(how, len(DISTURB))
    cfg = pick(cfg, NCFG())
    with NoTracing():
        if P.get("derive_cfg"):
            cfg = (a + how) % NC     # quick tier: the configuration is not an independent dimension
        # thorough tier: a second disturber, every 8th corpus member starting after the first
        return _repeat_native(a, (a + 1 + 8 * b) % NT if P.get("pairs") else None, DISTURB[how], cfg)


def NB():
    return NT // 8 if P.get("pairs") else 1


def NCFG():
    return 1 if P.get("derive_cfg") else NC


def _repeat_native(a, b, how, cfg):
    """Compile the disturbing template(s), then the whole corpus: every source must equal the reference obtained before.

    The whole corpus is the victim set, so that a leak is detected on the very path that causes it (the worker process is
    clean at the start of every path by induction, which makes a counterexample self-contained and replayable)."""
    ref = [baseline(t, cfg) for t in range(NT)]
    env = make_env(cfg)
    same_env = how in ("same", "rendered")
    if same_env:
        # the victims have been compiled in this environment before the disturbance
        for t in range(NT):
            if compile_raw(env, t) != ref[t]:
                return False
    for o in ([a] if b is None else [a, b]):
        if how == "same":
            compile_raw(env, o)
        elif how == "rendered":
            # through the template cache, executed as far as it gets
            try:
                tmpl = env.from_string(CORPUS[o])
                if not CONFIGS[cfg].get("enable_async"):
                    tmpl.render(**RENDER_CTX)
            except Exception:
                pass
        elif how == "fresh":
            compile_raw(make_env(cfg), o)
        else:
            compile_raw(make_env((cfg + 1) % NC), o)
            compile_raw(env.overlay(line_statement_prefix="#"), o)
    check_env = env if same_env else make_env(cfg)
    for t in range(NT):
        if compile_raw(check_env, t) != ref[t]:
            return False
    return True


# ------------------------------------------------------------------------------------------------ (c) hash seeds
_CHILD = r"""
import json, sys
from vfw.harness import C30
only = int(sys.argv[1])
out = []
for t in range(C30.NT):
    if only >= 0 and t != only:
        out.append(None)
        continue
    out.append([C30.compile_raw(C30.make_env(c), t) for c in range(C30.NC)])
sys.stdout.write("@@C30@@" + json.dumps(out))
"""


def run_seeds(seeds, only=-1, jobs=4):
    """{seed: [per template [per config source]]} computed in subprocesses with PYTHONHASHSEED=seed (same PYTHONPATH, so the same tree)."""
    root = os.path.dirname(os.path.dirname(os.path.dirname(os.path.abspath(__file__))))
    seeds = list(seeds)
    out = {}
    pending = list(seeds)
    running = []
    while pending or running:
        while pending and len(running) < jobs:
            s = pending.pop(0)
            env = dict(os.environ)
            env["PYTHONHASHSEED"] = str(s)
            env["PYTHONPATH"] = os.pathsep.join([p for p in (os.environ.get("VERIF_REPO_SRC"), env.get("PYTHONPATH"), root) if p])
            running.append((s, subprocess.Popen([sys.executable, "-c", _CHILD, str(only)], stdout=subprocess.PIPE, stderr=subprocess.PIPE,
                                                text=True, env=env, cwd=root)))
        s, proc = running.pop(0)
        so, se = proc.communicate(timeout=240)
        if "@@C30@@" not in so:
            raise RuntimeError("hash-seed child %s failed: %s" % (s, se[-800:]))
        data = json.loads(so.split("@@C30@@", 1)[1])
        out[s] = data if only < 0 else data[only]
    return out


def hashseed_ok(t: int, cfg: int) -> bool:
    """
    pre: 0 <= t < NT and 0 <= cfg < NC
    post: _
    """
    t = pick(t, NT)
    cfg = pick(cfg, NC)
    with NoTracing():
        if not SEED_SOURCES:
            return False        # setup did not run the subprocesses: never a silent pass
        ref = baseline(t, cfg)
        for s in SEED_SOURCES:
            if SEED_SOURCES[s][t][cfg] != ref:
                return False
        return True


# ------------------------------------------------------------------------------------------------ framework glue
def T0():
    return P.get("t0", 0)


def T1():
    return P.get("t1", NT)


def setup(param):
    global P
    P = dict(param or {})
    _BASE.clear()
    SEED_SOURCES.clear()
    _ORDER[0] = ("builtin", 0)
    jinja2.clear_caches()
    if P.get("seeds"):
        SEED_SOURCES.update(run_seeds(P["seeds"], jobs=P.get("jobs", 4)))


def conditions(tier, seed):
    th = tier == "thorough"
    to = 300 if th else 60
    out = []
    chunk = 8
    orders = ORDERS_THOROUGH if th else ORDERS_QUICK
    for t0 in range(0, NT, chunk):
        t1 = min(NT, t0 + chunk)
        out.append(Cond(f"order[t{t0}..{t1 - 1}]", "order_ok", mode="B", param=dict(t0=t0, t1=t1, thorough=th, need_iterations=True, replay_seeds=256 if th else 64),
                        timeout=to, witnesses=[[t0, 0, 1], [t1 - 1, 1, len(orders) - 1], [(t0 + t1) // 2, 2, 3], [t0 + 1, 0, 5]],
                        bounds=f"templates {t0}..{t1 - 1} of the {NT}-template corpus ({len(SKELETONS)} skeletons x {len(POOLS)} name assignments) x {NC} environment "
                               f"configurations x {len(orders)} iteration orders of every set created in jinja2.compiler / jinja2.idtracking (sorted, reversed, "
                               "k-th permutations from both ends, salted shuffles)"))
    chunk = 2 if th else 16
    for t0 in range(0, NT, chunk):
        t1 = min(NT, t0 + chunk)
        p = dict(t0=t0, t1=t1, pairs=th, derive_cfg=not th)
        out.append(Cond(f"repeat[disturber t{t0}..{t1 - 1}]", "repeat_ok", mode="B", param=p, timeout=to,
                        witnesses=[[t0, 0, 0, 0], [t1 - 1, 7 if th else 0, 1, 1 if th else 0], [t0, 3 if th else 0, 2, 2 if th else 0], [t1 - 1, 5 if th else 0, 3, 0]],
                        bounds=f"disturbing template {t0}..{t1 - 1}" + (f" followed by a second one (every 8th of the {NT}, starting after the first)" if th else "") + f" x {DISTURB} x "
                               + (f"{NC} configurations" if th else "configuration (template + kind) mod 3") + "; "
                               f"afterwards all {NT} corpus templates must compile to the source they had before"))
    seeds = list(range(16)) if th else [0, 1, 2, 3]
    out.append(Cond("hashseeds", "hashseed_ok", mode="B", param=dict(seeds=seeds, jobs=4), timeout=to,
                    witnesses=[[0, 0], [NT - 1, 1], [NT // 2, 2], [7, 1]],
                    bounds=f"whole corpus ({NT} templates x {NC} configurations) compiled in subprocesses with PYTHONHASHSEED in {seeds} and in the worker process"))
    return out
