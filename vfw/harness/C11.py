"""C11 — plain text, comments and raw blocks render verbatim.

E2: ``newline_re`` is exactly {\\r\\n, \\r, \\n}; the root directive rule of the
live rule table can only match strings containing a configured start delimiter
(or line prefix).  E1 mode B: delimiter-free sources assembled from a character
table (including partial delimiter characters and all three line-break forms),
comment bodies and raw bodies with delimiter look-alikes, in every
newline_sequence x keep_trailing_newline configuration and under every kind of
``finalize`` hook (template data is never finalized).
"""
import re
from typing import List

import z3

from jinja2 import Environment, lexer, pass_context, pass_environment, pass_eval_context
from jinja2.lexer import Lexer
from vfw import rx, wsmodel as W
from vfw.core import Cond, pick
from vfw.support import NoTracing

FUNCTIONS = ["jinja2.lexer.newline_re", "Lexer.tokeniter (newline split/join, trailing newline removal, root data rule, raw/comment states)",
             "Lexer._normalize_newlines / Lexer.wrap", "CodeGenerator.visit_Output (template data is not finalized)"]
OUTSIDE = ["texts other than <= 4 (5 thorough) pieces from the 11-entry character table", "delimiter configurations other than the 3 listed"]
ASSUMPTIONS = ["line breaks are exactly \\n, \\r\\n and \\r as documented"]

CH = ["a", " ", "\n", "\r\n", "\r", "{", "%", "}", "#", "é", "\n\n", "<b>&'\""]
BODY = ["x", " ", "\n", "\r\n", "{{ y }}", "{% if %}", "{#", "#}", "%}", "{{", "\r", "é", "<b>&'\""]
# (line statement prefix, line comment prefix); prefixes with regular-expression metacharacters are literals too
LINE_PREFIXES = [None, ("#", "##"), ("%", ".."), ("..", "%%"), ("$", "(.)")]
# escaping regions: template data is never escaped, whatever decides the autoescape setting
AE = [None, "static", "vol_on", "vol_off", "const_on"]
P = {}
ENV = None
NLS = ["\n", "\r\n", "\r"]


def _fin(kind):
    if kind == "plain":
        return lambda v: "<<%s>>" % v
    if kind == "context":
        return pass_context(lambda ctx, v: "<<%s>>" % v)
    if kind == "eval":
        return pass_eval_context(lambda ec, v: "<<%s>>" % v)
    if kind == "env":
        return pass_environment(lambda env, v: "<<%s>>" % v)
    return None


def setup(param):
    global P, ENV
    P = dict(param or {})
    d = W.DELIMS[P.get("delims", 0)]
    lp = LINE_PREFIXES[P.get("line", 0)]
    extra = dict(line_statement_prefix=lp[0], line_comment_prefix=lp[1]) if lp else {}
    if AE[P.get("ae", 0)] == "static":
        extra["autoescape"] = True
    ENV = Environment(newline_sequence=NLS[P.get("nl", 0)], keep_trailing_newline=P.get("ktn", False), finalize=_fin(P.get("fin")),
                      trim_blocks=P.get("trim", False), lstrip_blocks=P.get("trim", False), **extra,
                      block_start_string=d["bs"], block_end_string=d["be"], variable_start_string=d["vs"],
                      variable_end_string=d["ve"], comment_start_string=d["cs"], comment_end_string=d["ce"])


def _wrapped():
    return AE[P.get("ae", 0)] in ("vol_on", "vol_off", "const_on")


def _render(src):
    """Render `src`, inside an autoescape region when the condition asks for one."""
    ae = AE[P.get("ae", 0)]
    if not _wrapped():
        return ENV.from_string(src).render()
    d = W.DELIMS[P.get("delims", 0)]
    flag = "true" if ae == "const_on" else "flag"
    pre = d["bs"] + " autoescape " + flag + " " + d["be"]
    post = d["bs"] + " endautoescape " + d["be"]
    full = pre + src + post
    allowed = {0, len(pre) + len(src)}
    for st in (d["bs"], d["vs"], d["cs"]):
        i = full.find(st)
        while i >= 0:
            if i not in allowed:
                return None   # a trailing partial delimiter joins the region's end tag: not the text under test
            i = full.find(st, i + 1)
    return ENV.from_string(full).render(flag=(ae == "vol_on"))


def _expect_text(src):
    n = W.norm(src)
    if not P.get("ktn", False) and n.endswith("\n") and not _wrapped():
        n = n[:-1]     # the template's own trailing line break (inside a region the text is not at the end)
    return n.replace("\n", NLS[P.get("nl", 0)])


def text_ok(cs: List[int]) -> bool:
    """
    pre: len(cs) <= MAXP() and all(0 <= c < len(CH) for c in cs)
    post: _
    """
    parts = [CH[pick(c, len(CH))] for c in cs]
    with NoTracing():
        src = P.get("first", "") + "".join(parts)
        d = W.DELIMS[P.get("delims", 0)]
        if any(x in src for x in (d["bs"], d["vs"], d["cs"])):
            return True  # contains a delimiter start sequence: outside this clause
        lp = LINE_PREFIXES[P.get("line", 0)]
        if lp and any(x in src for x in lp):
            return True  # contains a line statement / line comment prefix: outside this clause
        got = _render(src)
        return got is None or got == _expect_text(src)


def body_ok(kind: int, cs: List[int], tail: int) -> bool:
    """
    pre: 0 <= kind <= 1 and len(cs) <= MAXP() and all(0 <= c < len(BODY) for c in cs) and 0 <= tail <= 2
    post: _
    """
    k = pick(kind, 2)
    parts = [BODY[pick(c, len(BODY))] for c in cs]
    tl = ["", "\n", "t"][pick(tail, 3)]
    with NoTracing():
        d = W.DELIMS[P.get("delims", 0)]
        body = "".join(parts)
        if k == 0:
            if d["ce"] in body or (body + d["ce"]).find(d["ce"]) != len(body):
                return True  # the body would end the comment early: not a comment with this body
            src = "h" + d["cs"] + " " + body + " " + d["ce"] + tl
            exp_mid = ""
            after_tag_trim = P.get("trim", False)
        else:
            if re.search(re.escape(d["bs"]) + r"[-+]?\s*endraw", body + d["bs"]) and not (body + d["bs"]).endswith(d["bs"]):
                return True
            if re.search(re.escape(d["bs"]) + r"[-+]?\s*endraw", body):
                return True
            src = "h" + d["bs"] + " raw " + d["be"] + body + d["bs"] + " endraw " + d["be"] + tl
            exp_mid = body
            if P.get("trim", False):
                # lstrip_blocks (enabled together with trim here) strips whitespace between the last line
                # start of the body and the endraw tag: documented effect of the raw block's own tags
                nb = W.norm(body)
                i = nb.rfind("\n") + 1
                if i > 0 and nb[i:] != "" and nb[i:].strip() == "":
                    exp_mid = nb[:i]
            after_tag_trim = P.get("trim", False)
        tail_n = W.norm(tl)
        if not P.get("ktn", False) and tail_n.endswith("\n") and not _wrapped():
            tail_n = tail_n[:-1]  # the template's own trailing line break
        if after_tag_trim and tail_n.startswith("\n"):
            tail_n = tail_n[1:]
        exp = ("h" + W.norm(exp_mid) + tail_n).replace("\n", NLS[P.get("nl", 0)])
        got = _render(src)
        return got is None or got == exp


def MAXP():
    return P.get("maxp", 3)


# ---------------------------------------------------------------- E2
def smt_newline(param):
    R, _ = rx.to_z3(lexer.newline_re)
    S, _ = rx.to_z3(r"\r\n|\r|\n")
    s = z3.String("s")
    q = rx.Q()
    r1, m1 = q.check("impl-not-in-spec", z3.InRe(s, R), z3.Not(z3.InRe(s, S)))
    r2, m2 = q.check("spec-not-in-impl", z3.InRe(s, S), z3.Not(z3.InRe(s, R)))
    # leftmost alternative must not be a proper prefix of a later one (CRLF is one break): structural
    alts = [a for a in re._parser.parse(lexer.newline_re.pattern)[0][1][3][0][1][1]] if False else None
    out = {"queries": q.queries, "solver_s": round(q.solver_s, 3), "detail": q.log}
    if r1 == "unsat" and r2 == "unsat":
        out["verdict"] = "CONFIRMED"
    elif "sat" in (r1, r2):
        m = m1 if r1 == "sat" else m2
        out.update(verdict="REFUTED", cex={"kind": "newline", "string": rx.zstr_to_py(rx.model_str(m, s))})
    else:
        out["verdict"] = "CANNOT_CONFIRM"
    return out


def smt_root(param):
    """Any string on which the root directive rule matches contains a start delimiter / line prefix."""
    d = W.DELIMS[param.get("delims", 0)]
    kw = dict(block_start_string=d["bs"], block_end_string=d["be"], variable_start_string=d["vs"], variable_end_string=d["ve"],
              comment_start_string=d["cs"], comment_end_string=d["ce"])
    lp = LINE_PREFIXES[int(param.get("line") or 0)]
    if lp:
        kw.update(line_statement_prefix=lp[0], line_comment_prefix=lp[1])
    lx = Lexer(Environment(**kw))
    pat = lx.rules["root"][0].pattern
    R, dropped = rx.to_z3(pat, drop_context=True)
    s = z3.String("s")
    q = rx.Q()
    starts = [d["bs"], d["vs"], d["cs"]] + (list(lp) if lp else [])
    r0, _ = q.check("nonempty", z3.InRe(s, R), z3.Length(s) <= 30)
    if r0 != "sat":
        return {"verdict": "HARNESS_ERROR", "detail": "root rule language empty"}
    cons = [z3.InRe(s, z3.Concat(R, z3.Star(rx.ANY))), z3.Length(s) <= 30]
    anys = z3.Star(rx.ANY)
    for st in starts:
        cons.append(z3.Not(z3.InRe(s, z3.Concat(anys, z3.Re(z3.StringVal(st)), anys))))
    r, m = q.check("root-needs-delimiter", *cons)
    out = {"queries": q.queries, "solver_s": round(q.solver_s, 3), "detail": {"log": q.log, "dropped_context": [str(x) for x in dropped]}}
    if r == "unsat":
        out["verdict"] = "CONFIRMED"
    elif r == "sat":
        out.update(verdict="REFUTED", cex={"kind": "root", "string": rx.zstr_to_py(rx.model_str(m, s)), "delims": param.get("delims", 0), "line": int(param.get("line") or 0)})
    else:
        out["verdict"] = "CANNOT_CONFIRM"
    return out


def smt_replay(cex):
    if isinstance(cex, str):
        return True
    w = cex["string"]
    if cex["kind"] == "newline":
        return bool(lexer.newline_re.fullmatch(w)) == (w in ("\r\n", "\r", "\n"))
    d = W.DELIMS[cex.get("delims", 0)]
    kw = dict(block_start_string=d["bs"], block_end_string=d["be"], variable_start_string=d["vs"], variable_end_string=d["ve"],
              comment_start_string=d["cs"], comment_end_string=d["ce"])
    lp = LINE_PREFIXES[int(cex.get("line") or 0)]
    if lp:
        kw.update(line_statement_prefix=lp[0], line_comment_prefix=lp[1])
    env = Environment(**kw)
    # a delimiter-free text must lex to data only
    toks = list(env.lex(w))
    return all(k == "data" for _, k, _ in toks)


def conditions(tier, seed):
    th = tier == "thorough"
    to = 200 if th else 50
    out = [Cond("E2 newline_re == {CRLF, CR, LF}", "smt_newline", kind="smt", mode="A", param={}, replay="smt_replay", timeout=60, bounds="all strings")]
    for dl in (0, 1, 2):
        for line in range(len(LINE_PREFIXES)):
            if line >= 2 and (dl + line + seed) % 3 and not th:
                continue
            out.append(Cond(f"E2 root rule needs a delimiter[delims={dl},line prefixes={LINE_PREFIXES[line]}]", "smt_root", kind="smt", mode="A",
                            param={"delims": dl, "line": line}, replay="smt_replay", timeout=120, bounds="all strings <= 30 chars"))
    mp = 3   # thorough: every first piece is fixed in turn, so sources of up to 4 pieces are covered with 3 free positions
    for nl in range(3):
        for ktn in (False, True):
            firsts = [""] + (CH if th else [CH[(seed + nl * 2 + ktn) % len(CH)]])
            for first in firsts:
                out.append(Cond(f"plain text[nl={NLS[nl]!r},keep_trailing={ktn},first={first!r}]", "text_ok", mode="B",
                                param={"nl": nl, "ktn": ktn, "maxp": mp, "first": first}, timeout=to,
                                witnesses=[[[0, 3, 0, 2][:mp]], [[5, 1, 6]], [[4, 2]], [[]]],
                                bounds=f"optional first piece + <= {mp} pieces from {CH!r}"))
    for line in range(1, len(LINE_PREFIXES)):
        out.append(Cond(f"plain text[line prefixes={LINE_PREFIXES[line]}]", "text_ok", mode="B", param={"line": line, "maxp": 3, "nl": line % 3}, timeout=to,
                        witnesses=[[[0, 3, 0]], [[5, 1, 6]], [[4, 2]], [[11, 2, 0]]], bounds=f"<= 3 pieces from {CH!r} not containing the configured line prefixes"))
    for ae in range(1, len(AE)):
        out.append(Cond(f"plain text[autoescape={AE[ae]}]", "text_ok", mode="B", param={"ae": ae, "maxp": 3, "ktn": ae % 2 == 0}, timeout=to,
                        witnesses=[[[11, 3, 0]], [[5, 11, 6]], [[11]], [[]]], bounds=f"<= 3 pieces from {CH!r}; autoescape decided by the environment, a constant region or a runtime flag (both values)"))
    for fin in ("plain", "context", "eval", "env"):
        out.append(Cond(f"plain text[finalize={fin}]", "text_ok", mode="B", param={"fin": fin, "maxp": 2}, timeout=to,
                        witnesses=[[[0, 2]], [[5, 0]]], bounds="<= 2 pieces; environment finalize hook of each kind must not touch template data"))
    for dl in (0, 1):
        for trim in (False, True):
            for nl in ((0, 1) if not th else (0, 1, 2)):
                ae = (dl * 2 + trim + nl + seed) % len(AE)
                out.append(Cond(f"comment/raw bodies[delims={dl},trim+lstrip={trim},nl={NLS[nl]!r},autoescape={AE[ae]}]", "body_ok", mode="B",
                                param={"delims": dl, "trim": trim, "nl": nl, "maxp": 3 if th else 2, "ae": ae}, timeout=to,
                                witnesses=[[0, [4, 2], 1], [1, [4, 5], 2], [1, [2, 1], 0], [0, [6], 0], [1, [12, 0], 1]],
                                bounds=f"comment or raw body of <= {3 if th else 2} pieces from {BODY!r}, 3 tails"))
    return out
