"""Native replay of a counterexample: fresh interpreter, no CrossHair, no stubs."""
import importlib
import json
import sys
import traceback


def run(spec):
    mod = importlib.import_module(spec["module"])
    if hasattr(mod, "setup"):
        mod.setup(spec.get("param"))
    name = spec["fn"] if spec.get("kind", "xh") == "xh" else spec["replay"]
    fn = getattr(mod, name)
    try:
        r = fn(*spec.get("args", []), **spec.get("kwargs", {}))
    except Exception as e:
        tb = traceback.extract_tb(e.__traceback__)
        in_repo = any("/jinja2/" in f.filename or "<template>" in f.filename for f in tb)
        return {
            "holds": False,
            "exc": repr(e)[:500],
            "exc_in_impl": in_repo,
            "tb": "".join(traceback.format_exception(type(e), e, e.__traceback__))[-2500:],
        }
    return {"holds": r is True, "returned": repr(r)[:500]}


if __name__ == "__main__":
    spec = json.loads(sys.stdin.read())
    print("\n@@REPLAY@@" + json.dumps(run(spec)))
