"""A small template language with a printer to Jinja source and an independent reference interpreter.

Used by C03 (statements and scoping), C04 (inheritance), C05 (include/import), C09 (async parity).
The interpreter implements the *documented* rules only:

* ``if`` shares the enclosing scope; every loop iteration, ``with``, ``filter`` block, block ``set`` and macro
  body opens a fresh scope whose assignments do not leak; the loop variable is local to the loop;
* macros (defined at the top level) see the enclosing (top-level) variables as they are at call time, bind
  their parameters locally; ``caller()`` runs the call block's body in a scope nested in the call site;
* namespace attributes persist across scopes;
* ``extends``: the root template's content with every block replaced by its most-derived definition,
  ``super()`` = next less-derived definition, ``self.name()`` = most-derived one, content outside blocks in
  children is not rendered (top-level assignments and macros of children are still evaluated), scoped blocks
  see the variables of the scope where they are placed, unscoped blocks only the top-level/context ones,
  a ``required`` block that nobody overrides raises TemplateRuntimeError;
* ``include`` sees the current context including local variables unless ``without context`` (then only
  globals); ``import`` sees only globals unless ``with context``; a module exposes the target's top-level
  macros and assignments whose names do not start with an underscore; ``ignore missing`` suppresses only
  a missing template; a list of names selects the first that exists.

Values are observed through ``rec(tag, value)`` calls (a recording callable passed in the context) so that
symbolic ints are compared as values, and through the rendered text (constant letters only).
"""
import random

# block identifiers as printed (the interpreter works on the abstract names); set by a harness before printing
BLOCK_RENAME = {}

UNDEF = ("<undefined>",)


class TplRuntimeError(Exception):
    pass


class TplNotFound(Exception):
    pass


class TplUndefined(Exception):
    pass


# ------------------------------------------------------------------------------------------------ printer
def pexpr(e, rn):
    k = e[0]
    if k == "c":
        return repr(e[1])
    if k == "v":
        return rn(e[1])
    if k == "vd":
        return f"({rn(e[1])}|default(100)) + {e[2]}"
    if k == "nsget":
        return f"{rn(e[1])}.{e[2]}"
    if k == "attr":
        return f"{rn(e[1])}.{rn(e[2])}"
    if k == "loopidx":
        return "loop.index"
    raise AssertionError(e)


def pstmts(stmts, rn):
    return "".join(pstmt(s, rn) for s in stmts)


def pstmt(s, rn):
    k = s[0]
    if k == "out":
        return "{{ rec('o', %s) }}" % pexpr(s[1], rn)
    if k == "text":
        return s[1]
    if k == "set":
        return "{%% set %s = %s %%}" % (rn(s[1]), pexpr(s[2], rn))
    if k == "settuple":
        return "{%% set %s = %s %%}" % (", ".join(rn(n) for n in s[1]), ", ".join(pexpr(e, rn) for e in s[2]))
    if k == "supersuper":
        return "{{ super.super() }}"
    if k == "selfsuper":
        return "{{ self.%s.super() }}" % BLOCK_RENAME.get(s[1], s[1])
    if k == "if":
        r = "{%% if c%d %%}%s" % (s[1], pstmts(s[2], rn))
        if s[3] is not None:
            r += "{% else %}" + pstmts(s[3], rn)
        return r + "{% endif %}"
    if k == "for":
        flt = " if %s > t" % rn(s[1]) if len(s) > 5 and s[5] else ""
        r = "{%% for %s in %s%s %%}%s" % (rn(s[1]), s[2], flt, pstmts(s[3], rn))
        if s[4] is not None:
            r += "{% else %}" + pstmts(s[4], rn)
        return r + "{% endfor %}"
    if k == "with":
        return "{%% with %s = %s %%}%s{%% endwith %%}" % (rn(s[1]), pexpr(s[2], rn), pstmts(s[3], rn))
    if k == "setblock":
        return "{%% set %s %%}%s{%% endset %%}" % (rn(s[1]), pstmts(s[2], rn))
    if k == "filterblock":
        return "{%% filter string %%}%s{%% endfilter %%}" % pstmts(s[1], rn)
    if k == "macro":
        return "{%% macro %s(%s) %%}%s{%% endmacro %%}" % (rn(s[1]), ", ".join(rn(p) for p in s[2]), pstmts(s[3], rn))
    if k == "callm":
        return "{{ %s(%s) }}" % (rn(s[1]), ", ".join(pexpr(a, rn) for a in s[2]))
    if k == "callblock":
        return "{%% call %s(%s) %%}%s{%% endcall %%}" % (rn(s[1]), ", ".join(pexpr(a, rn) for a in s[2]), pstmts(s[3], rn))
    if k == "caller":
        return "{% if caller is defined %}{{ caller() }}{% endif %}"
    if k == "nsinit":
        return "{%% set %s = namespace(%s=%s) %%}" % (rn(s[1]), s[2], pexpr(s[3], rn))
    if k == "nsset":
        return "{%% set %s.%s = %s %%}" % (rn(s[1]), s[2], pexpr(s[3], rn))
    if k == "block":
        mods = (" scoped" if s[3] else "") + (" required" if len(s) > 4 and s[4] else "")
        return "{%% block %s%s %%}%s{%% endblock %%}" % (BLOCK_RENAME.get(s[1], s[1]), mods, pstmts(s[2], rn))
    if k == "super":
        return "{{ super() }}"
    if k == "selfblock":
        return "{{ self.%s() }}" % BLOCK_RENAME.get(s[1], s[1])
    if k == "extends":
        e = "{%% extends %r %%}" % s[1][1] if s[1][0] == "const" else "{% extends parent_name %}"
        if len(s) > 2 and s[2] is not None:
            return "{%% if c%d %%}%s{%% endif %%}" % (s[2], e)
        return e
    if k == "include":
        names, wc, im = s[1], s[2], s[3]
        tgt = repr(names[0]) if len(names) == 1 else "[" + ", ".join(repr(n) for n in names) + "]"
        return "{%% include %s%s%s %%}" % (tgt, " ignore missing" if im else "", "" if wc is None else (" with context" if wc else " without context"))
    if k == "import":
        return "{%% import %r as %s%s %%}" % (s[1], rn(s[2]), "" if s[3] is None else (" with context" if s[3] else " without context"))
    if k == "fromimport":
        return "{%% from %r import %s%s %%}" % (s[1], ", ".join(f"{rn(a)} as {rn(b)}" if a != b else rn(a) for a, b in s[2]),
                                                "" if s[3] is None else (" with context" if s[3] else " without context"))
    raise AssertionError(s)


def ident(n):
    return n


# ------------------------------------------------------------------------------------------------ interpreter
class Scope:
    def __init__(self, parent=None, vars=None):
        self.parent = parent
        self.vars = vars if vars is not None else {}

    def get(self, name):
        s = self
        while s is not None:
            if name in s.vars:
                return s.vars[name]
            s = s.parent
        return UNDEF


class Macro:
    def __init__(self, name, params, body, top, tpl):
        self.name, self.params, self.body, self.top, self.tpl = name, params, body, top, tpl


class Caller:
    def __init__(self, body, scope, tpl):
        self.body, self.scope, self.tpl = body, scope, tpl


class NS:
    def __init__(self):
        self.attrs = {}


class Module:
    def __init__(self):
        self.attrs = {}


class Interp:
    """templates: name -> list of statements.  globals_: environment/template globals (visible everywhere)."""

    def __init__(self, templates, globals_=None):
        self.templates = templates
        self.globals = dict(globals_ or {})
        self.log = []

    # --- public
    def render(self, name, ctx):
        self.log = []
        self.ctx = dict(ctx)
        out = self._render_template(name, Scope(None, dict(self.globals, **ctx)), fresh_top=True)
        return out, self.log

    # --- templates
    def _chain(self, name, base_scope):
        """Resolve the extends chain; returns [most-derived ... root] as (name, stmts)."""
        chain = []
        seen = 0
        while True:
            if name not in self.templates:
                raise TplNotFound(name)
            stmts = self.templates[name]
            chain.append((name, stmts))
            ext = [s for s in stmts if s[0] == "extends" and (len(s) < 3 or s[2] is None or self.ctx["c%d" % s[2]])]
            if not ext:
                return chain
            tgt = ext[0][1]
            name = tgt[1] if tgt[0] == "const" else base_scope.get("parent_name")
            seen += 1
            if seen > 8:
                raise AssertionError("cycle")

    def _render_template(self, name, ctx_scope, fresh_top):
        chain = self._chain(name, ctx_scope)
        # block table: name -> list of (stmts, tplname) most-derived first
        blocks = {}
        for tname, stmts in chain:
            for b in _find_blocks(stmts):
                blocks.setdefault(b[1], []).append((b, tname))
        top = Scope(ctx_scope, {})
        frame = {"blocks": blocks, "top": top, "ctx": ctx_scope}
        out = []
        # children: evaluate top-level assignments/macros/imports, output nothing
        for tname, stmts in chain[:-1]:
            self._exec(stmts, top, frame, [], tname, suppress=True)
        rname, rstmts = chain[-1]
        self._exec(rstmts, top, frame, out, rname, suppress=False)
        frame["exports"] = top.vars
        self._last_top = top
        return "".join(out)

    # --- statements
    def _exec(self, stmts, scope, frame, out, tpl, suppress=False, block_ctx=None):
        for s in stmts:
            k = s[0]
            if k == "extends":
                continue
            if suppress and k in ("out", "text", "callm", "callblock", "caller", "for", "if", "with", "filterblock", "block", "include", "super", "selfblock", "supersuper", "selfsuper"):
                # content outside blocks in a child template is not rendered
                if k in ("if", "for", "with", "filterblock"):
                    continue
                continue
            if k == "out":
                self.log.append(("o", self._eval(s[1], scope)))
            elif k == "text":
                out.append(s[1])
            elif k == "set":
                scope.vars[s[1]] = self._eval(s[2], scope)
            elif k == "settuple":
                vals = [self._eval(e, scope) for e in s[2]]
                for n, v in zip(s[1], vals):
                    scope.vars[n] = v
            elif k == "supersuper":
                if block_ctx is not None:
                    bname, depth, bscope = block_ctx
                    defs = frame["blocks"].get(bname, [])
                    if depth + 2 < len(defs):
                        self._render_block(bname, depth + 2, bscope, frame, out, explicit_scope=True)
                    else:
                        raise TplUndefined("there is no parent block")
            elif k == "selfsuper":
                defs = frame["blocks"].get(s[1])
                if not defs or len(defs) < 2:
                    raise TplUndefined("no such parent block")
                self._render_block(s[1], 1, None, frame, out, explicit_scope=True)
            elif k == "if":
                c = self.ctx["c%d" % s[1]]
                if c:
                    self._exec(s[2], scope, frame, out, tpl, block_ctx=block_ctx)
                elif s[3] is not None:
                    self._exec(s[3], scope, frame, out, tpl, block_ctx=block_ctx)
            elif k == "for":
                items = list(self.ctx[s[2]])
                if len(s) > 5 and s[5]:
                    items = [x for x in items if x > self.ctx["t"]]
                for li, x in enumerate(items):
                    inner = Scope(scope, {s[1]: x, "loop.index": li + 1})
                    self._exec(s[3], inner, frame, out, tpl, block_ctx=block_ctx)
                if not items and s[4] is not None:
                    self._exec(s[4], Scope(scope, {}), frame, out, tpl, block_ctx=block_ctx)
            elif k == "with":
                inner = Scope(scope, {s[1]: self._eval(s[2], scope)})
                self._exec(s[3], inner, frame, out, tpl, block_ctx=block_ctx)
            elif k == "setblock":
                buf = []
                self._exec(s[2], Scope(scope, {}), frame, buf, tpl, block_ctx=block_ctx)
                scope.vars[s[1]] = "".join(buf)
            elif k == "filterblock":
                buf = []
                self._exec(s[1], Scope(scope, {}), frame, buf, tpl, block_ctx=block_ctx)
                out.append("".join(buf))
            elif k == "macro":
                scope.vars[s[1]] = Macro(s[1], s[2], s[3], frame["top"], tpl)
            elif k == "callm":
                out.append(self._call(self._eval(("v", s[1]), scope), [self._eval(a, scope) for a in s[2]], None, frame))
            elif k == "callblock":
                m = self._eval(("v", s[1]), scope)
                out.append(self._call(m, [self._eval(a, scope) for a in s[2]], Caller(s[3], scope, tpl), frame))
            elif k == "caller":
                c = scope.get("caller")
                if isinstance(c, Caller):
                    buf = []
                    self._exec(c.body, Scope(c.scope, {}), frame, buf, c.tpl)
                    out.append("".join(buf))
            elif k == "nsinit":
                ns = NS()
                ns.attrs[s[2]] = self._eval(s[3], scope)
                scope.vars[s[1]] = ns
            elif k == "nsset":
                ns = scope.get(s[1])
                if isinstance(ns, NS):
                    ns.attrs[s[2]] = self._eval(s[3], scope)
            elif k == "block":
                self._render_block(s[1], 0, scope if s[3] else None, frame, out)
            elif k == "super":
                if block_ctx is not None:
                    bname, depth, bscope = block_ctx
                    defs = frame["blocks"].get(bname, [])
                    if depth + 1 < len(defs):
                        self._render_block(bname, depth + 1, bscope, frame, out, explicit_scope=True)
                    else:
                        raise TplUndefined("there is no parent block")
            elif k == "selfblock":
                if s[1] not in frame["blocks"]:
                    raise TplUndefined("no such block")
                self._render_block(s[1], 0, None, frame, out)
            elif k == "include":
                self._include(s, scope, frame, out)
            elif k == "import":
                mod = self._module(s[1], scope, frame, s[3])
                scope.vars[s[2]] = mod
            elif k == "fromimport":
                mod = self._module(s[1], scope, frame, s[3])
                for a, b in s[2]:
                    scope.vars[b] = mod.attrs.get(a, UNDEF)
            else:
                raise AssertionError(s)

    def _render_block(self, bname, depth, placed_scope, frame, out, explicit_scope=False):
        defs = frame["blocks"].get(bname, [])
        if depth >= len(defs):
            return
        b, tname = defs[depth]
        if depth == 0 and len(b) > 4 and b[4]:
            raise TplRuntimeError("required block not overridden")
        if explicit_scope:
            base = placed_scope
        else:
            # scoped: sees the variables where the block is placed; otherwise only top-level/context ones
            base = placed_scope if placed_scope is not None else frame["top"]
        scope = Scope(base if base is not None else frame["top"], {})
        self._exec(b[2], scope, frame, out, tname, block_ctx=(bname, depth, base))

    def _call(self, m, args, caller, frame):
        if not isinstance(m, Macro):
            raise TplRuntimeError("not a macro")
        local = {p: (args[i] if i < len(args) else UNDEF) for i, p in enumerate(m.params)}
        if caller is not None:
            local["caller"] = caller
        buf = []
        self._exec(m.body, Scope(m.top, local), {"blocks": {}, "top": m.top, "ctx": m.top}, buf, m.tpl)
        return "".join(buf)

    def _pick_name(self, names):
        for n in names:
            if n in self.templates:
                return n
        return None

    def _visible(self, scope):
        """All variables visible from `scope`, innermost first."""
        allv = {}
        chain = []
        s = scope
        while s is not None:
            chain.append(s)
            s = s.parent
        for s in reversed(chain):
            allv.update(s.vars)
        return allv

    def _include(self, s, scope, frame, out):
        names, wc, im = s[1], s[2], s[3]
        n = self._pick_name(names)
        if n is None:
            if im:
                return
            raise TplNotFound(names)
        with_ctx = True if wc is None else wc
        base = Scope(None, self._visible(scope) if with_ctx else dict(self.globals))
        sub = Interp.__new__(Interp)
        sub.templates, sub.globals, sub.log, sub.ctx = self.templates, self.globals, self.log, self.ctx
        out.append(sub._render_template(n, base, fresh_top=True))

    def _module(self, name, scope, frame, wc):
        if name not in self.templates:
            raise TplNotFound(name)
        with_ctx = False if wc is None else wc
        base = Scope(None, self._visible(scope) if with_ctx else dict(self.globals))
        sub = Interp.__new__(Interp)
        sub.templates, sub.globals, sub.log, sub.ctx = self.templates, self.globals, self.log, self.ctx
        text = sub._render_template(name, base, fresh_top=True)
        mod = Module()
        mod.text = text
        for k, v in sub._last_top.vars.items():
            if not k.startswith("_"):
                mod.attrs[k] = v
        return mod

    # --- expressions
    def _eval(self, e, scope):
        k = e[0]
        if k == "c":
            return e[1]
        if k == "v":
            return scope.get(e[1])
        if k == "vd":
            v = scope.get(e[1])
            if v == UNDEF and isinstance(v, tuple):
                v = 100
            return v + e[2]
        if k == "nsget":
            ns = scope.get(e[1])
            if isinstance(ns, NS):
                return ns.attrs.get(e[2], UNDEF)
            return UNDEF
        if k == "loopidx":
            v = scope.get("loop.index")
            if isinstance(v, tuple) and v == UNDEF:
                raise TplUndefined("loop is undefined")
            return v
        if k == "attr":
            m = scope.get(e[1])
            if isinstance(m, Module):
                return m.attrs.get(e[2], UNDEF)
            return UNDEF
        raise AssertionError(e)


def _find_blocks(stmts):
    """Block definitions anywhere in a template (blocks are global to the template)."""
    out = []
    for s in stmts:
        k = s[0]
        if k == "block":
            out.append(s)
            out.extend(_find_blocks(s[2]))
        elif k == "if":
            out.extend(_find_blocks(s[2]))
            if s[3]:
                out.extend(_find_blocks(s[3]))
        elif k == "for":
            out.extend(_find_blocks(s[3]))
            if s[4]:
                out.extend(_find_blocks(s[4]))
        elif k in ("with",):
            out.extend(_find_blocks(s[3]))
        elif k == "filterblock":
            out.extend(_find_blocks(s[1]))
    return out


def normalize_value(v):
    """Map interpreter/Jinja values to comparable observation values."""
    if isinstance(v, (Macro, Caller)):
        return "<macro>"
    if isinstance(v, (NS,)):
        return "<ns>"
    if isinstance(v, Module):
        return "<module>"
    return v
