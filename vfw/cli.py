"""./vf check <ID> [quick|thorough] ; ./vf replay <file> ; ./vf list"""
from __future__ import annotations

import importlib
import json
import os
import queue
import subprocess
import sys
import threading
import time

ROOT = os.path.dirname(os.path.dirname(os.path.abspath(__file__)))
EVID = os.environ.get("VERIF_EVIDENCE_DIR") or os.path.join(ROOT, "evidence")
NCPU = int(os.environ.get("VERIF_JOBS", "16"))


def _pp():
    src = os.environ.get("VERIF_REPO_SRC")
    return (src + os.pathsep + ROOT) if src else ROOT


def load_known():
    try:
        with open(os.path.join(ROOT, "known_findings.json")) as f:
            return json.load(f).get("findings", [])
    except FileNotFoundError:
        return []


def native_replay(spec) -> dict:
    env = dict(os.environ)
    env["PYTHONPATH"] = _pp()
    try:
        p = subprocess.run(
            [sys.executable, "-m", "vfw.replay"],
            input=json.dumps(spec), capture_output=True, text=True, cwd=ROOT, env=env, timeout=300,
        )
    except subprocess.TimeoutExpired:
        return {"holds": None, "error": "replay timed out"}
    for line in p.stdout.splitlines():
        if line.startswith("@@REPLAY@@"):
            return json.loads(line[len("@@REPLAY@@"):])
    return {"holds": None, "error": (p.stderr or p.stdout)[-2000:]}


class Worker:
    def __init__(self):
        env = dict(os.environ)
        env["PYTHONPATH"] = _pp()
        self.p = subprocess.Popen(
            [sys.executable, "-m", "vfw.worker"], stdin=subprocess.PIPE, stdout=subprocess.PIPE,
            stderr=subprocess.DEVNULL if not os.environ.get("VERIF_DEBUG") else None,
            text=True, cwd=ROOT, env=env,
        )

    def run(self, cond: dict, hard_timeout: float) -> dict:
        self.p.stdin.write(json.dumps(cond) + "\n")
        self.p.stdin.flush()
        box: list = []

        def rd():
            box.append(self.p.stdout.readline())

        th = threading.Thread(target=rd, daemon=True)
        th.start()
        th.join(hard_timeout)
        if th.is_alive() or not box or not box[0].strip():
            self.kill()
            return {"name": cond["name"], "kind": cond["kind"], "mode": cond["mode"],
                    "verdict": "TIMEOUT" if th.is_alive() else "HARNESS_ERROR",
                    "error": "worker died or exceeded hard timeout", "paths": 0, "queries": 0,
                    "solver_s": 0.0, "wall_s": hard_timeout, "dead": True}
        return json.loads(box[0])

    def kill(self):
        try:
            self.p.kill()
        except Exception:
            pass

    def close(self):
        try:
            self.p.stdin.close()
            self.p.wait(timeout=5)
        except Exception:
            self.kill()


def run_conditions(conds: list[dict]) -> list[dict]:
    q: queue.Queue = queue.Queue()
    order = sorted(range(len(conds)), key=lambda i: -conds[i]["timeout"])
    for i in order:
        q.put(i)
    results: list = [None] * len(conds)

    def loop():
        w = None
        while True:
            try:
                i = q.get_nowait()
            except queue.Empty:
                break
            if w is None:
                w = Worker()
            c = conds[i]
            r = w.run(c, c["timeout"] * 3 + 90)
            results[i] = r
            if r.get("dead"):
                w = None
        if w:
            w.close()

    ths = [threading.Thread(target=loop) for _ in range(min(NCPU, len(conds)))]
    for t in ths:
        t.start()
    for t in ths:
        t.join()
    return results


def git_head(path):
    try:
        return subprocess.run(["git", "-C", path, "rev-parse", "--short", "HEAD"],
                              capture_output=True, text=True).stdout.strip()
    except Exception:
        return ""


def check(pid: str, tier: str) -> int:
    t0 = time.time()
    seed = int(os.environ.get("VERIF_SEED", "0") or 0)
    modname = f"vfw.harness.{pid}"
    mod = importlib.import_module(modname)
    conds = mod.conditions(tier, seed)
    cj = []
    for c in conds:
        c.module = modname
        cj.append(c.to_json())
    results = run_conditions(cj)

    known = [k for k in load_known() if k.get("property") == pid and k.get("status") == "known"]
    os.makedirs(os.path.join(EVID, "replays"), exist_ok=True)
    for fn in os.listdir(os.path.join(EVID, "replays")):
        if fn.startswith(pid + "-"):
            os.remove(os.path.join(EVID, "replays", fn))
    violations = []
    known_hits = []
    spurious = []
    replays = 0
    for c, r in zip(cj, results):
        if r["verdict"] != "REFUTED":
            continue
        cex = r.get("cex")
        if not cex:
            r["verdict"] = "UNPARSED_CEX"
            spurious.append({"cond": c["name"], "message": r.get("cex_message", "")[:300]})
            continue
        spec = {"property": pid, "module": modname, "fn": c["fn"], "kind": c["kind"],
                "replay": c.get("replay"), "param": c.get("param"),
                "args": cex["args"], "kwargs": cex["kwargs"]}
        rr = native_replay(spec)
        replays += 1
        r["replay"] = rr
        if rr.get("holds") is False:
            kmatch = [k for k in known if k.get("fn") == c["fn"] and k.get("args") == cex["args"]
                      and k.get("param") == c.get("param")]
            if kmatch:
                r["verdict"] = "KNOWN_FINDING"
                known_hits.append(kmatch[0])
                continue
            n = len(violations) + 1
            path = os.path.join(EVID, "replays", f"{pid}-{n}.json")
            spec.update(message=r.get("cex_message"), observed=rr, cond=c["name"],
                        repo_head=git_head("/repo"), bounds=c.get("bounds"))
            with open(path, "w") as f:
                json.dump(spec, f, indent=1, default=str)
            r["verdict"] = "VIOLATION"
            violations.append((c["name"], path, r.get("cex_message", ""), rr))
        else:
            r["verdict"] = "SPURIOUS_CEX"
            spurious.append({"cond": c["name"], "call": cex.get("call"), "replay": rr})

    # listed known findings: re-run their witness natively, report, never alarm
    known_lines = []
    for k in known:
        spec = {"property": pid, "module": modname, "fn": k["fn"], "kind": k.get("kind", "xh"),
                "replay": k.get("replay"), "param": k.get("param"), "args": k["args"], "kwargs": {}}
        rr = native_replay(spec)
        replays += 1
        if rr.get("holds") is False:
            known_lines.append(f"KNOWN-FINDING: property={pid} {k['what']}")
    for line in known_lines:
        print(line)

    counts: dict = {}
    for r in results:
        counts[r["verdict"]] = counts.get(r["verdict"], 0) + 1
    harness_errors = [r for r in results if r["verdict"] in ("HARNESS_ERROR", "PRE_UNSAT")]
    paths = sum(r.get("paths", 0) for r in results)
    queries = sum(r.get("queries", 0) for r in results)
    solver_s = round(sum(r.get("solver_s", 0.0) for r in results), 2)
    wit = sum(r.get("witnesses_ok", 0) for r in results)
    confirmed = counts.get("CONFIRMED", 0)
    samples = []
    for c, r in list(zip(cj, results))[:40]:
        samples.append({"condition": c["name"], "kind": c["kind"], "mode": c["mode"], "fn": c["fn"],
                        "param": c.get("param") if len(json.dumps(c.get("param"), default=str)) < 400 else "<large>",
                        "bounds": c["bounds"], "verdict": r["verdict"], "paths": r.get("paths", 0),
                        "smt_queries": r.get("queries", 0), "solver_s": r.get("solver_s", 0.0),
                        "wall_s": r.get("wall_s", 0)})
    modes = sorted({c["mode"] for c in cj})
    level = getattr(mod, "LEVEL", "model_checking")
    ev = {
        "property_id": pid, "tier": tier, "seed": seed, "level": level,
        "coverage": {
            "states": max(paths, 1), "transitions": max(queries, 1),
            "traces_validated_against_impl": wit + replays,
            "samples": samples,
            "obligations": len(cj), "discharged": confirmed,
            "evaluations": max(paths, 1), "distinct_nontrivial": max(len(cj), 2) if len(cj) >= 2 else 2,
            "rule": "one evaluation = one symbolic execution path through the real code decided by z3 "
                    "(or one SMT query for regex obligations); distinct_nontrivial = number of distinct "
                    "conditions (harness function x parameter) analysed",
            "exhaustive": counts.get("CONFIRMED", 0) == len(cj),
            "verdicts": counts, "modes": modes,
            "functions_encoded": getattr(mod, "FUNCTIONS", []),
            "bounds": sorted({c["bounds"] for c in cj if c["bounds"]})[:40],
            "outside_bounds": getattr(mod, "OUTSIDE", []),
            "solver": "z3 %s via crosshair-tool 0.0.110" % _z3v(),
            "solver_time_s": solver_s,
            "spurious_counterexamples": spurious[:20],
            "inconclusive_conditions": [c["name"] for c, r in zip(cj, results)
                                        if r["verdict"] in ("CANNOT_CONFIRM", "TIMEOUT") and c["mode"] != "S"][:60],
            "known_findings_reported": [k["what"] for k in known if any(k["what"] in l for l in known_lines)],
            "repo_head": git_head(os.path.dirname(os.environ.get("VERIF_REPO_SRC") or "/repo/src")),
            "explanation": "bounded symbolic execution of the real jinja2 code (CrossHair/z3); "
                           "'discharged' counts conditions whose whole path tree was exhausted with the "
                           "assertion holding on every path",
        },
        "assumptions": list(getattr(mod, "ASSUMPTIONS", [])) + [
            "CrossHair's models of Python builtins are faithful (counterexamples are replayed natively; "
            "confirmations rely on them)", "z3 is sound"],
        "wall_s": round(time.time() - t0, 2),
        "violations": len(violations),
    }
    os.makedirs(EVID, exist_ok=True)
    with open(os.path.join(EVID, f"{pid}.json"), "w") as f:
        json.dump(ev, f, indent=1, default=str)

    print(f"[{pid} {tier}] conditions={len(cj)} verdicts={counts} paths={paths} smt_queries={queries} "
          f"solver_s={solver_s} wall_s={ev['wall_s']}")
    for c, r in zip(cj, results):
        if r["verdict"] not in ("CONFIRMED",) and not (r["verdict"] == "CANNOT_CONFIRM" and c["mode"] == "S"):
            print(f"  - {c['name']}: {r['verdict']} paths={r.get('paths')} wall={r.get('wall_s')}"
                  + (f" :: {r.get('error', '')[-600:]}" if r.get("error") else "")
                  + (f" :: {r.get('messages')}" if r["verdict"] in ("HARNESS_ERROR", "PRE_UNSAT") and r.get("messages") else ""))
    for name, path, msg, rr in violations:
        print(f"  counterexample [{name}]: {msg[:400]} -> native: {json.dumps(rr)[:400]}")
        print(f"VIOLATION property={pid} replay={path}")
    if violations:
        return 1
    if harness_errors:
        print(f"CHECK-ERROR property={pid}: {len(harness_errors)} condition(s) vacuous or failed to run")
        return 2
    return 0


def _z3v():
    try:
        import z3
        return z3.get_version_string()
    except Exception:
        return "?"


def replay(path: str) -> int:
    with open(path) as f:
        spec = json.load(f)
    rr = native_replay(spec)
    print(json.dumps(rr, indent=1))
    if rr.get("holds") is False:
        print(f"VIOLATION property={spec.get('property')} replay={path}")
        return 1
    return 0


def main(argv):
    if len(argv) >= 2 and argv[0] == "check":
        tier = argv[2] if len(argv) > 2 else os.environ.get("VERIF_TIER", "quick")
        return check(argv[1], tier)
    if len(argv) == 2 and argv[0] == "replay":
        return replay(argv[1])
    print(__doc__)
    return 2


if __name__ == "__main__":
    sys.exit(main(sys.argv[1:]))
