"""Helpers shared by harness modules (no CrossHair dependency at import)."""
import contextlib

try:
    from crosshair import NoTracing
except ImportError:  # native replay
    NoTracing = contextlib.nullcontext

from jinja2.runtime import Undefined


def drive(coro):
    """Run a coroutine that never really suspends (no event loop needed)."""
    try:
        while True:
            coro.send(None)
    except StopIteration as e:
        return e.value


def drive_agen(agen):
    out = []
    while True:
        try:
            out.append(drive(agen.__anext__()))
        except StopAsyncIteration:
            return out


class Rec:
    """Recording callable for templates: values are compared as values, never as text."""

    def __init__(self):
        self.log = []

    def __call__(self, tag, *vals):
        self.log.append((tag,) + tuple(norm(v) for v in vals))
        return ""


def norm(v):
    if isinstance(v, Undefined):
        return ("<undefined>",)
    return v


def outcome(fn):
    """('ok', value) or ('exc', ExceptionClassName)."""
    try:
        return ("ok", fn())
    except Exception as e:
        return ("exc", type(e).__name__)


async def agen_of(xs):
    for x in xs:
        yield x


def gen_of(xs):
    for x in xs:
        yield x
