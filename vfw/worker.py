"""Worker: reads Cond json lines on stdin, analyses each, writes result json lines."""
import collections
import importlib
import json
import os
import re
import sys
import time
import traceback


def _install():
    import z3

    stats = {"q": 0, "s": 0.0}
    orig = z3.Solver.check

    def timed(self, *a):
        t0 = time.perf_counter()
        try:
            return orig(self, *a)
        finally:
            stats["q"] += 1
            stats["s"] += time.perf_counter() - t0

    z3.Solver.check = timed
    return stats


_CALL_RE = re.compile(r"when calling (.*?)(?: \(which returns .*\))?$", re.S)


def parse_call(fn_name, message):
    """Extract the concrete argument list from a CrossHair counterexample message."""
    m = _CALL_RE.search(message)
    if not m:
        return None
    call = m.group(1).strip()
    if " with " in call and not call.endswith(")"):
        call = call[: call.rindex(" with ")]
    cap = lambda *a, **k: (list(a), k)  # noqa: E731
    import collections as _c

    env = {fn_name: cap, "inf": float("inf"), "nan": float("nan"), "deque": _c.deque}
    try:
        args, kwargs = eval(call, env)  # the text is CrossHair's own repr of builtins
    except Exception:
        return None
    return {"args": args, "kwargs": kwargs, "call": call}


def run_xh(mod, cond, zstats):
    from crosshair.core_and_libs import analyze_function, run_checkables
    from crosshair.options import AnalysisKind, AnalysisOptionSet
    from crosshair.statespace import MessageType

    fn = getattr(mod, cond["fn"])
    stats = collections.Counter()
    kw = dict(
        per_condition_timeout=cond["timeout"],
        stats=stats,
        analysis_kind=[AnalysisKind.PEP316],
        report_all=True,
        max_uninteresting_iterations=sys.maxsize,
    )
    if cond.get("path_timeout"):
        kw["per_path_timeout"] = cond["path_timeout"]
    if cond.get("max_iterations"):
        kw["max_iterations"] = cond["max_iterations"]
    opts = AnalysisOptionSet(**kw)
    q0, s0 = zstats["q"], zstats["s"]
    msgs = run_checkables(analyze_function(fn, opts))
    res = {
        "paths": int(stats.get("num_paths", 0)),
        "queries": zstats["q"] - q0,
        "solver_s": round(zstats["s"] - s0, 3),
        "messages": [(m.state.name, m.message[:2000]) for m in msgs],
    }
    states = [m.state for m in msgs]
    bad = [
        m
        for m in msgs
        if m.state in (MessageType.POST_FAIL, MessageType.EXEC_ERR, MessageType.POST_ERR)
    ]
    if bad:
        res["verdict"] = "REFUTED"
        res["cex"] = parse_call(cond["fn"], bad[0].message)
        res["cex_message"] = bad[0].message[:2000]
        res["cex_traceback"] = (bad[0].traceback or "")[-1500:]
    elif any(s in (MessageType.SYNTAX_ERR, MessageType.IMPORT_ERR) for s in states):
        res["verdict"] = "HARNESS_ERROR"
    elif MessageType.PRE_UNSAT in states:
        res["verdict"] = "PRE_UNSAT"
    elif MessageType.CANNOT_CONFIRM in states:
        res["verdict"] = "CANNOT_CONFIRM"
    elif MessageType.CONFIRMED in states:
        res["verdict"] = "CONFIRMED"
    else:
        res["verdict"] = "HARNESS_ERROR"
        res["messages"].append(("NONE", "no messages returned"))
    return res


def handle(cond, zstats):
    t0 = time.time()
    out = {"name": cond["name"], "kind": cond["kind"], "mode": cond["mode"]}
    try:
        mod = importlib.import_module(cond["module"])
        if hasattr(mod, "setup"):
            mod.setup(cond.get("param"))
        # vacuity / model validation: concrete witnesses must hold natively
        wit_ok = 0
        for w in cond.get("witnesses") or []:
            fn = getattr(mod, cond["fn"] if cond["kind"] == "xh" else cond["replay"])
            try:
                ok = fn(*w) if isinstance(w, (list, tuple)) else fn(w)
            except Exception as e:  # a witness that raises is a failed witness
                ok = False
                out.setdefault("witness_exc", repr(e)[:500])
            if ok is not True:
                out["witness_failed"] = {"args": list(w) if isinstance(w, (list, tuple)) else [w], "kwargs": {}, "call": "witness"}
                continue
            wit_ok += 1
        out["witnesses_ok"] = wit_ok
        if cond["kind"] == "xh":
            out.update(run_xh(mod, cond, zstats))
        else:
            q0, s0 = zstats["q"], zstats["s"]
            r = getattr(mod, cond["fn"])(cond.get("param"))
            out.update(r)
            out.setdefault("queries", zstats["q"] - q0)
            out.setdefault("solver_s", round(zstats["s"] - s0, 3))
            out.setdefault("paths", out["queries"])
            if out.get("verdict") == "REFUTED" and "cex" in out:
                c = out["cex"]
                out["cex"] = {"args": [c], "kwargs": {}, "call": repr(c)}
        if out.get("witness_failed") and out.get("verdict") != "REFUTED":
            out["solver_verdict"] = out.get("verdict")
            out["verdict"] = "REFUTED"
            out["cex"] = out["witness_failed"]
            out["cex_message"] = "concrete witness failed natively (solver verdict: %s)" % out.get("solver_verdict")
    except BaseException as e:  # noqa
        out["verdict"] = "HARNESS_ERROR"
        out["error"] = "".join(traceback.format_exception(type(e), e, e.__traceback__))[-3000:]
    out["wall_s"] = round(time.time() - t0, 2)
    return out


def main():
    sys.setrecursionlimit(10000)
    zstats = _install()
    from vfw import xhplug  # noqa: F401

    real_out = os.fdopen(os.dup(1), "w")
    # anything the harness prints must not corrupt the protocol
    os.dup2(2, 1)
    for line in sys.stdin:
        line = line.strip()
        if not line:
            continue
        cond = json.loads(line)
        res = handle(cond, zstats)
        real_out.write(json.dumps(res) + "\n")
        real_out.flush()


if __name__ == "__main__":
    main()
