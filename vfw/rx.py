"""E2: translate *live* ``re.Pattern`` objects into z3 regular-expression terms.

The pattern text and flags are read from the compiled objects of the current
tree at run time (``pat.pattern``, ``pat.flags``), parsed with CPython's own
``re._parser`` and translated structurally.  Character classes follow the
semantics of *str* patterns: ``\\d`` is every Unicode decimal digit, ``\\s``
every Unicode whitespace, ``\\w`` every alphanumeric plus underscore.

Limits (stated in evidence): code points above z3's maximum character
(0x2FFFF) are not represented; look-arounds and anchors are not part of the
regular language — ``to_z3`` drops leading look-behinds/anchors on request and
reports them so obligations can model them as context constraints.
"""
import re
import re._constants as sc
import re._parser as sp
import sys
import time

import z3

MAXCH = 0x2FFFF
_RE_SORT = z3.ReSort(z3.StringSort())
ANY = z3.AllChar(_RE_SORT)
EPS = z3.Re(z3.StringVal(""))
NONE = z3.Empty(_RE_SORT)

_cat_cache = {}


def _ranges(pred):
    out = []
    start = None
    for cp in range(MAXCH + 1):
        if pred(chr(cp)):
            if start is None:
                start = cp
        elif start is not None:
            out.append((start, cp - 1))
            start = None
    if start is not None:
        out.append((start, MAXCH))
    return out


def cat_ranges(name):
    if name not in _cat_cache:
        if name == "digit":
            _cat_cache[name] = _ranges(lambda c: c.isdigit() and c.isdecimal())
        elif name == "space":
            _cat_cache[name] = _ranges(lambda c: c.isspace())
        elif name == "word":
            _cat_cache[name] = _ranges(lambda c: c.isalnum() or c == "_")
    return _cat_cache[name]


def zchar(cp):
    return z3.Re(z3.StringVal(_esc(cp)))


def _esc(cp):
    # z3 string literal escaping: use \u{...} for everything non-printable / non-ASCII
    if 32 <= cp < 127 and chr(cp) not in '\\"':
        return chr(cp)
    return "\\u{%x}" % cp


def zrange(lo, hi):
    if lo == hi:
        return zchar(lo)
    return z3.Range(z3.StringVal(_esc(lo)), z3.StringVal(_esc(hi)))


def zunion(parts):
    parts = list(parts)
    if not parts:
        return NONE
    if len(parts) == 1:
        return parts[0]
    return z3.Union(*parts)


def zclass(ranges):
    return zunion(zrange(lo, min(hi, MAXCH)) for lo, hi in ranges if lo <= MAXCH)


def znot(cls):
    return z3.Intersect(ANY, z3.Complement(cls))


def _case_variants(cp):
    c = chr(cp)
    vs = {c, c.lower(), c.upper()}
    return sorted(ord(v) for v in vs if len(v) == 1)


def _lit(cp, flags):
    if flags & re.I:
        return zunion(zchar(v) for v in _case_variants(cp))
    return zchar(cp)


_ASCII = {
    "digit": [(48, 57)],
    "space": [(9, 13), (32, 32)],
    "word": [(48, 57), (65, 90), (95, 95), (97, 122)],
}


def _cat(av, flags=0):
    if flags & re.A:
        base = {sc.CATEGORY_DIGIT: "digit", sc.CATEGORY_NOT_DIGIT: "digit", sc.CATEGORY_SPACE: "space",
                sc.CATEGORY_NOT_SPACE: "space", sc.CATEGORY_WORD: "word", sc.CATEGORY_NOT_WORD: "word"}.get(av)
        if base is None:
            raise NotImplementedError(av)
        cls = zclass(_ASCII[base])
        return znot(cls) if av in (sc.CATEGORY_NOT_DIGIT, sc.CATEGORY_NOT_SPACE, sc.CATEGORY_NOT_WORD) else cls
    if av == sc.CATEGORY_DIGIT:
        return zclass(cat_ranges("digit"))
    if av == sc.CATEGORY_NOT_DIGIT:
        return znot(zclass(cat_ranges("digit")))
    if av == sc.CATEGORY_SPACE:
        return zclass(cat_ranges("space"))
    if av == sc.CATEGORY_NOT_SPACE:
        return znot(zclass(cat_ranges("space")))
    if av == sc.CATEGORY_WORD:
        return zclass(cat_ranges("word"))
    if av == sc.CATEGORY_NOT_WORD:
        return znot(zclass(cat_ranges("word")))
    raise NotImplementedError(av)


def _in(items, flags):
    neg = False
    parts = []
    for op, av in items:
        if op == sc.NEGATE:
            neg = True
        elif op == sc.LITERAL:
            parts.append(_lit(av, flags))
        elif op == sc.RANGE:
            lo, hi = av
            parts.append(zrange(lo, min(hi, MAXCH)))
            if flags & re.I and hi - lo < 200:
                for cp in range(lo, hi + 1):
                    for v in _case_variants(cp):
                        if not lo <= v <= hi:
                            parts.append(zchar(v))
        elif op == sc.CATEGORY:
            parts.append(_cat(av, flags))
        else:
            raise NotImplementedError(op)
    u = zunion(parts)
    return znot(u) if neg else u


class Dropped(list):
    pass


def _seq(seq, flags, dropped):
    out = []
    for op, av in seq:
        if op == sc.LITERAL:
            out.append(_lit(av, flags))
        elif op == sc.NOT_LITERAL:
            out.append(znot(_lit(av, flags)))
        elif op == sc.ANY:
            out.append(ANY if flags & re.S else znot(zchar(10)))
        elif op == sc.IN:
            out.append(_in(av, flags))
        elif op == sc.SUBPATTERN:
            _g, addf, delf, p = av
            out.append(_seq(p, (flags | addf) & ~delf, dropped))
        elif op == sc.BRANCH:
            _x, alts = av
            out.append(zunion(_seq(a, flags, dropped) for a in alts))
        elif op in (sc.MAX_REPEAT, sc.MIN_REPEAT, getattr(sc, "POSSESSIVE_REPEAT", -1)):
            lo, hi, p = av
            r = _seq(p, flags, dropped)
            if hi == sc.MAXREPEAT:
                if lo == 0:
                    out.append(z3.Star(r))
                elif lo == 1:
                    out.append(z3.Plus(r))
                else:
                    out.append(z3.Concat(z3.Loop(r, lo, lo), z3.Star(r)))
            elif lo == 0 and hi == 1:
                out.append(z3.Option(r))
            else:
                out.append(z3.Loop(r, lo, hi))
        elif op in (sc.ASSERT, sc.ASSERT_NOT, sc.AT):
            if dropped is None:
                raise NotImplementedError((op, av))
            dropped.append((str(op), av))
        else:
            raise NotImplementedError((op, av))
    if not out:
        return EPS
    return out[0] if len(out) == 1 else z3.Concat(*out)


def to_z3(pattern, flags=0, drop_context=False):
    """pattern: str or compiled.  Returns (z3 regex, dropped look-arounds/anchors)."""
    if isinstance(pattern, re.Pattern):
        flags = pattern.flags
        pattern = pattern.pattern
    p = sp.parse(pattern, flags)
    dropped = Dropped() if drop_context else None
    r = _seq(list(p), p.state.flags, dropped)
    return r, (dropped or [])


class Q:
    """Query helper with counters."""

    def __init__(self, timeout_ms=60000):
        self.queries = 0
        self.solver_s = 0.0
        self.timeout_ms = timeout_ms
        self.log = []

    def check(self, name, *constraints):
        s = z3.Solver()
        s.set("timeout", self.timeout_ms)
        for c in constraints:
            s.add(c)
        t0 = time.perf_counter()
        r = s.check()
        dt = time.perf_counter() - t0
        self.queries += 1
        self.solver_s += dt
        res = str(r)
        model = None
        if res == "sat":
            model = s.model()
        self.log.append({"query": name, "result": res, "s": round(dt, 3)})
        return res, model


def model_str(model, var):
    v = model.eval(var, model_completion=True)
    return v.as_string() if hasattr(v, "as_string") else str(v)


def zstr_to_py(s):
    """Decode z3's \\u{..} escapes."""
    return re.sub(r"\\u\{([0-9a-fA-F]+)\}", lambda m: chr(int(m.group(1), 16)), s)
