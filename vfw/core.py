"""Condition descriptions shared by harness modules, the worker and the runner.

A harness module ``vfw.harness.Cxx`` exposes::

    FUNCTIONS = ["jinja2.utils.LRUCache.__setitem__", ...]   # real code encoded
    ASSUMPTIONS = [...]
    def conditions(tier, seed) -> list[Cond]
    def setup(param)            # optional: configure module globals for a Cond

Two kinds of condition:

* kind "xh": ``fn`` names a module-level function carrying a PEP-316 contract
  (``pre:`` = the stated bound, ``post: _``).  CrossHair executes it
  symbolically over the real jinja2 code; z3 decides every branch.  A
  counterexample is a concrete argument tuple which is replayed natively.
* kind "smt": ``fn`` names a function that builds its own SMT queries (regex ->
  z3 translation of the live pattern objects) and returns
  ``{"verdict", "queries", "solver_s", "cex", "detail"}``; ``replay`` names a
  function that re-checks a counterexample natively against the real code and
  returns True when the property holds for it.
"""
from __future__ import annotations

import dataclasses
import typing as t


@dataclasses.dataclass
class Cond:
    name: str
    fn: str
    kind: str = "xh"            # "xh" | "smt"
    mode: str = "A"             # A generalising / B finite selectors / S search only
    param: t.Any = None         # json-able; passed to module.setup(param) first
    timeout: float = 20.0       # CrossHair per-condition CPU budget (s)
    path_timeout: float | None = None
    witnesses: list = dataclasses.field(default_factory=list)  # arg lists run natively first
    bounds: str = ""
    replay: str | None = None   # smt: native replay function name
    max_iterations: int | None = None
    # search-only conditions can never be "confirmed"; do not count that as a defect
    # of the check
    module: str = ""            # filled by the runner

    def to_json(self) -> dict:
        return dataclasses.asdict(self)


def pick(v: int, n: int) -> int:
    """Decode a selector 0 <= v < n into a concrete int by explicit forks.

    Must be called under CrossHair tracing: every comparison is a solver
    decision, so the path tree enumerates (and certifies exhaustion of) the
    finite domain while everything after the decoding runs natively.
    """
    lo, hi = 0, n - 1
    while lo < hi:
        mid = (lo + hi) // 2
        if v <= mid:
            hi = mid
        else:
            lo = mid + 1
    return lo


def pickb(b: bool) -> bool:
    if b:
        return True
    return False
