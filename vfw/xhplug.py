"""E3: boundary stubs / CrossHair patches, installed in worker processes only.

* markupsafe's C ``_escape_inner`` raises SystemError on symbolic strings; use
  markupsafe's own pure-Python implementation during symbolic runs (replays run
  with the C speed-up in a fresh process).
* ``float(<symbolic int>)``: CrossHair models floats as reals and would never
  raise; CPython raises OverflowError iff abs(x) >= 2**1024 (largest finite
  double is just below).  The wrapper forks on that condition.
* ``re.Pattern.split`` with capture groups gets a symbolic implementation.
"""
import re

import markupsafe
import markupsafe._native

markupsafe._escape_inner = markupsafe._native._escape_inner

from crosshair import NoTracing  # noqa: E402
from crosshair import core as _core  # noqa: E402
from crosshair.libimpl import builtinslib, relib  # noqa: E402
from crosshair.util import CrossHairValue  # noqa: E402

_orig_float = builtinslib.SymbolicInt.__float__
_LIMIT = 2**1024


def _float_with_overflow(self):
    from crosshair.tracers import is_tracing

    if not is_tracing():
        return _orig_float(self)
    if self >= _LIMIT or self <= -_LIMIT:
        raise OverflowError("int too large to convert to float")
    return _orig_float(self)


builtinslib.SymbolicInt.__float__ = _float_with_overflow

_orig_split = relib._split


def _split_groups(self, string, maxsplit=0):
    with NoTracing():
        sym = (
            isinstance(string, CrossHairValue)
            and isinstance(self, re.Pattern)
            and self.groups > 0
            and maxsplit == 0
        )
    if sym:
        out = []
        last = 0
        for m in relib._finditer(self, string):
            s, e = m.span()
            out.append(string[last:s])
            out.extend(m.groups())
            last = e
        out.append(string[last:])
        return out
    return _orig_split(self, string, maxsplit)


_core._PATCH_REGISTRATIONS[re.Pattern.split] = _split_groups

STUBS = [
    "markupsafe._escape_inner -> markupsafe._native._escape_inner (pure Python, same contract)",
    "float(symbolic int) raises OverflowError iff abs(x) >= 2**1024",
    "re.Pattern.split with groups: symbolic implementation via finditer",
]
