#!/bin/bash
# Builds /verif/.venv offline: an overlay venv on /venv (which has jinja2 installed
# editable from /repo/src) plus crosshair-tool / z3-solver from the local wheelhouse.
# Idempotent; guarded by flock so concurrent checks do not race.
set -e
cd "$(dirname "$0")"
exec 9>/tmp/.verif-setup.lock
flock 9
if [ -x .venv/bin/python ] && .venv/bin/python -c 'import crosshair, z3, jinja2, markupsafe' 2>/dev/null; then
  exit 0
fi
rm -rf .venv
/venv/bin/python -m venv .venv
SP=$(.venv/bin/python -c 'import site; print(site.getsitepackages()[0])')
echo "import site; site.addsitedir('/venv/lib/python3.12/site-packages')" > "$SP/verif_overlay.pth"
PIP_NO_INDEX=1 .venv/bin/pip install -q --no-index --find-links /opt/veriftools/wheels crosshair-tool z3-solver >/dev/null
# CrossHair 0.0.110's tracer mis-computes the Python 3.12 value-stack depth after END_ASYNC_FOR
# (one pop instead of two: awaitable + exception), which makes opcode interception segfault in
# any code that follows an exhausted `async for` -- i.e. every async-compiled template loop.
# The wheel ships its C sources; rebuild the extension with the one-line correction.
CH="$SP/crosshair"
B=$(mktemp -d /tmp/verif-chb.XXXXXX)
cp "$CH"/_tracers.c "$CH"/_tracers.h "$CH"/_tracers_pycompat.h "$CH"/_mark_stacks.h "$B"/
if .venv/bin/python - "$B/_mark_stacks.h" <<'PY'
import sys
p = sys.argv[1]
s = open(p).read()
old = """                   // Python 3.12
                    next_stack--;
#else"""
new = """                   // Python 3.12 (verif patch: END_ASYNC_FOR pops awaitable and exc)
                    next_stack--;
                    next_stack--;
#else"""
if s.count(old) == 1:
    open(p, "w").write(s.replace(old, new))
else:
    print("WARNING: crosshair tracer patch site not found; leaving extension unpatched", file=sys.stderr)
    sys.exit(3)
PY
then
  INC=$(.venv/bin/python -c "import sysconfig; print(sysconfig.get_paths()['include'])")
  SO=$(ls "$SP"/_crosshair_tracers*.so)
  if gcc -O2 -w -shared -fPIC -I"$INC" -I"$INC/internal" -I"$B" "$B/_tracers.c" -o "$B/out.so"; then
    cp "$B/out.so" "$SO"
  else
    echo "WARNING: could not rebuild crosshair tracer; async loop conditions will be inconclusive" >&2
  fi
fi
rm -rf "$B"
.venv/bin/python -c 'import crosshair, z3, jinja2, markupsafe; print("verif venv ok: crosshair", crosshair.__version__ if hasattr(crosshair,"__version__") else "", "jinja2", jinja2.__file__)'
