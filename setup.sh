#!/bin/bash
# Builds /verif/.venv offline: an overlay venv on /venv (which has jinja2 installed
# editable from /repo/src) plus crosshair-tool / z3-solver from the local wheelhouse.
# Idempotent; guarded by flock so concurrent checks do not race.
set -e
cd "$(dirname "$0")"
exec 9>/tmp/.verif-setup.lock
flock 9
if [ -x .venv/bin/python ] && .venv/bin/python -c 'import crosshair, z3, jinja2, markupsafe' 2>/dev/null; then
  exit 0
fi
rm -rf .venv
/venv/bin/python -m venv .venv
SP=$(.venv/bin/python -c 'import site; print(site.getsitepackages()[0])')
echo "import site; site.addsitedir('/venv/lib/python3.12/site-packages')" > "$SP/verif_overlay.pth"
PIP_NO_INDEX=1 .venv/bin/pip install -q --no-index --find-links /opt/veriftools/wheels crosshair-tool z3-solver >/dev/null
.venv/bin/python -c 'import crosshair, z3, jinja2, markupsafe; print("verif venv ok: crosshair", crosshair.__version__ if hasattr(crosshair,"__version__") else "", "jinja2", jinja2.__file__)'
